#!/usr/bin/env python3
"""Assemble MANIFEST.json from the META of every property module in lib/props/."""
import json, os, sys, importlib
here = os.path.dirname(os.path.abspath(__file__))
sys.path.insert(0, here)
VERIF = os.path.dirname(here)
props = [json.loads(l) for l in open(os.path.join(VERIF, "properties.jsonl"))]
NA_REASONS = {}
na_path = os.path.join(here, "not_applicable.json")
if os.path.exists(na_path):
    NA_REASONS = json.load(open(na_path))
checks, na = [], []
for p in props:
    pid = p["id"]
    path = os.path.join(here, "props", pid.lower() + ".py")
    if not os.path.exists(path):
        na.append({"property_id": pid, "reason": NA_REASONS.get(pid, "not claimed yet: the model, theorems and correspondence check for this property are still being built (see DESIGN.md §3 for the plan)")})
        continue
    m = importlib.import_module("props." + pid.lower())
    if not getattr(m, "READY", False):
        na.append({"property_id": pid, "reason": NA_REASONS.get(pid, "not claimed yet: the check for this property is under construction (see DESIGN.md §3 for the plan)")})
        continue
    M = m.META
    checks.append({
        "property_id": pid,
        "quick_cmd": f"./check {pid} --tier quick",
        "thorough_cmd": f"./check {pid} --tier thorough",
        "evidence_file": f"/verif/evidence/{pid}.json",
        "replay_cmd_template": f"./check {pid} --replay {{path}}",
        "engine": "lean-model+mjh",
        "level_claimed": {"category": M.get("category", "proof"), "text": M["text"], "design_ref": M.get("design_ref", "DESIGN.md §3")},
        "level_note": M["level_note"],
        "technique": M["technique"],
    })
baseline = "cd /repo && cargo test --workspace --no-fail-fast --offline"
hooks_commits = [l.strip() for l in open(os.path.join(VERIF, "HOOK_COMMITS.txt")) if l.strip() and not l.startswith("#")] if os.path.exists(os.path.join(VERIF, "HOOK_COMMITS.txt")) else []
man = {
    "version": 1,
    "setup_cmd": "./setup.sh",
    "hooks": {
        "guard": "verif_hooks",
        "enable": "cargo feature `verif_hooks` on minijinja and minijinja-autoreload (enabled by /verif/harness/Cargo.toml)",
        "baseline_off_cmd": baseline,
        "source_commits": hooks_commits,
        "add_only": True,
    },
    "engines": [
        {"name": "lean-model", "path": "/verif/lean", "serves_properties": [c["property_id"] for c in checks],
         "kind_free_text": "Lean 4 lake project MJ: executable models (MJ/Model), helper lemmas (MJ/Proofs), property theorems (MJ/Props), axiom audits (MJ/Audit), line-protocol drivers (MJ/Drive, compiled lean_exe)"},
        {"name": "mjh", "path": "/verif/harness", "serves_properties": [c["property_id"] for c in checks],
         "kind_free_text": "Rust harness crate (path deps on /repo crates, verif_hooks on): one binary per property, runs the real code in-process and prints canonical result lines"},
        {"name": "extract_tables", "path": "/verif/lib/extract_tables.py", "serves_properties": [c["property_id"] for c in checks],
         "kind_free_text": "translator: regenerates MJ/Gen/Tables.lean (constants, escape table, kind order, fuel costs, ...) from /repo sources on every run"},
    ],
    "checks": checks,
    "not_applicable": na,
    "notes": "All checks: ./check Cxx --tier quick|thorough (python3). Technique family: machine-checked proof in Lean 4 about a model, tied to /repo by regenerated tables + differential correspondence; see DESIGN.md.",
}
with open(os.path.join(VERIF, "MANIFEST.json"), "w") as fh:
    json.dump(man, fh, indent=1, ensure_ascii=False)
    fh.write("\n")
print("checks:", [c["property_id"] for c in checks], "not_applicable:", [n["property_id"] for n in na])
