#!/bin/bash
# usage: lib/mutant_suite.sh <id>...   (ids under /verif/seeded)
# For each seeded change: apply to a dedicated worktree of /repo HEAD and run the WHOLE existing
# suite the way the baseline does (cargo test --workspace --no-fail-fast --offline); prints the
# totals.  One shared target dir, so builds are incremental.
WT=/tmp/mt/suite/repo
mkdir -p /tmp/mt/suite
exec 9>/tmp/mt/suite/.lock; flock 9
if [ ! -e $WT/.git ]; then git -C /repo worktree add -f --detach $WT HEAD >/dev/null 2>&1; fi
for id in "$@"; do
  git -C $WT checkout -q -- .; git -C $WT clean -fdq -e target; git -C $WT checkout -q --detach "$(git -C /repo rev-parse HEAD)"
  if ! git -C $WT apply /verif/seeded/$id/patch.diff 2>/dev/null && ! (cd $WT && patch -p1 -F3 -s --no-backup-if-mismatch < /verif/seeded/$id/patch.diff); then echo "$id PATCH-DOES-NOT-APPLY-TO-HEAD"; continue; fi
  R=$(cd $WT && cargo test --workspace --no-fail-fast --offline 2>&1 | grep -E "^test result|^error(\[|:)" | awk '/^test result/ {p+=$4; f+=$6} /^error/ {e+=1} END {print "passed",p,"failed",f,"build_errors",e+0}')
  echo "$id workspace-suite-with-change: $R"
  python3 - "$id" "$R" "$(git -C /repo rev-parse --short HEAD)" <<'PY'
import json,sys
p=f"/verif/seeded/{sys.argv[1]}/meta.json"; d=json.load(open(p)); d["workspace_suite_with_change"]=f"cargo test --workspace --no-fail-fast --offline at /repo {sys.argv[3]} + patch: {sys.argv[2]}"; json.dump(d,open(p,"w"),indent=1)
PY
done
git -C $WT checkout -q -- .
