#!/bin/bash
# usage: lib/mutant_intake.sh <worktree> <id e.g. C08-6> "<what it needs to manifest>"
# Confirms a seeded change written by a sub-agent in <worktree> (whole workspace suite passes with
# it; demo fails with it, passes without), stores it under /verif/seeded/<id>/, runs the property's
# check against it in an isolated test bed (lib/mutant_run.sh) and writes meta.json.
WT=$1; ID=$2; NEEDS=$3; PROP=${ID%%-*}
cd $WT || exit 2
DEMO=$(ls */tests/test_mut_demo.rs 2>/dev/null | head -1)
[ -z "$DEMO" ] && { echo "no demo test found"; exit 2; }
CRATE=$(dirname $(dirname $DEMO))
git diff -- . ':(exclude)**/test_mut_demo.rs' > /tmp/_in_$ID.diff
[ -s /tmp/_in_$ID.diff ] || { echo "empty patch"; exit 2; }
FEAT=$(grep -m1 '^#!\[cfg(' $DEMO | grep -o 'feature = "[a-z_0-9-]*"' | sed 's/feature = "\(.*\)"/\1/' | paste -sd, -)
EXTRA=""; [ -n "$FEAT" ] && EXTRA="--features $FEAT"
mv $DEMO /tmp/_in_$ID.demo.rs
SUITE=$(cargo test --workspace --no-fail-fast --offline 2>&1 | grep -E "^test result|^error(\[|:)" | awk '/^test result/ {p+=$4; f+=$6} /^error/ {e+=1} END {print "passed",p,"failed",f,"build_errors",e+0}')
mv /tmp/_in_$ID.demo.rs $DEMO
WITHOUT_LOG=$(mktemp); cargo test -p $CRATE --offline $EXTRA --test test_mut_demo > $WITHOUT_LOG 2>&1
WITH=$(grep -E "^test result" $WITHOUT_LOG | head -1)
# a demo that ABORTS under the change (stack overflow, SIGABRT) prints no "test result" line: that is a failing demo too
[ -z "$WITH" ] && grep -qE "signal: [0-9]+|SIGABRT|SIGSEGV|stack overflow" $WITHOUT_LOG && WITH="test result: FAILED. (test binary aborted: $(grep -m1 -oE 'signal: [0-9]+[^)]*|has overflowed its stack' $WITHOUT_LOG))"
rm -f $WITHOUT_LOG
git apply -R /tmp/_in_$ID.diff
WITHOUT=$(cargo test -p $CRATE --offline $EXTRA --test test_mut_demo 2>&1 | grep -E "^test result" | head -1)
git apply /tmp/_in_$ID.diff
echo "suite WITH change: $SUITE"; echo "demo WITH: $WITH"; echo "demo WITHOUT: $WITHOUT"
OK=1
echo "$SUITE" | grep -q "failed 0 build_errors 0" || OK=0
echo "$WITH" | grep -q "FAILED" || OK=0
echo "$WITHOUT" | grep -q "test result: ok" || OK=0
if [ $OK = 0 ]; then echo "NOT CONFIRMED"; exit 1; fi
D=/verif/seeded/$ID; mkdir -p $D
cp /tmp/_in_$ID.diff $D/patch.diff; cp $DEMO $D/demo_test.rs; [ -f agent_meta.txt ] && cp agent_meta.txt $D/agent_meta.txt
git -C /repo apply --check $D/patch.diff || { echo "patch does not apply to /repo HEAD"; exit 1; }
OUT=$(/verif/lib/mutant_run.sh $D/patch.diff $PROP quick 2>&1)
echo "$OUT" | tail -4
RC=$(echo "$OUT" | grep -o 'rc=[0-9]*' | tail -1)
NV=$(echo "$OUT" | grep -c '^VIOLATION'); NF=$(echo "$OUT" | grep '^VIOLATION' | grep -vc 'no-failing-input-found')
SUMM=$(echo "$OUT" | grep -o 'obligations.*' | tail -1)
if [ "$RC" = "rc=0" ]; then DET="MISSED by ./check $PROP quick (rc=0)";
elif [ "$NF" -gt 0 ]; then DET="caught by ./check $PROP quick: VIOLATION with failing inputs ($SUMM)";
else DET="broken proof/tie only: ./check $PROP quick prints VIOLATION ... no-failing-input-found ($SUMM)"; fi
python3 - "$ID" "$PROP" "$NEEDS" "$SUITE" "$WITH" "$WITHOUT" "$DET" "$CRATE" <<'PY'
import json,sys,subprocess
id,prop,needs,suite,w,wo,det,crate=sys.argv[1:9]
head=subprocess.check_output(["git","-C","/repo","rev-parse","--short","HEAD"],text=True).strip()
d={"id":id,"property":prop,"source":"fresh sub-agent given only the property text and its own scratch worktree (wave %s, hard mode)" % __import__("os").environ.get("WAVE","11"),
   "needs_to_manifest":needs,
   "confirmed_by_coordinator":f"lib/mutant_intake.sh: cargo test --workspace --no-fail-fast --offline at /repo {head} + patch (demo aside): {suite}; demo ({crate}/tests/test_mut_demo.rs) with change: {w}; without: {wo}",
   "detected_by":det,
   "ran":f"lib/mutant_run.sh seeded/{id}/patch.diff {prop}  (isolated copy of /repo HEAD + patch, isolated copy of /verif)"}
json.dump(d,open(f"/verif/seeded/{id}/meta.json","w"),indent=1)
print(id, "->", det[:160])
PY
