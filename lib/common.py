"""Shared orchestration for the per-property checks (see DESIGN.md §2.4).

A property module `lib/props/cXX.py` defines META (manifest fields) and `run(r: Run)`.
`Run` collects proof obligations, correspondence results, oracle failures, and decides.
"""
import json, os, re, subprocess, sys, time, hashlib, collections

VERIF = os.path.dirname(os.path.dirname(os.path.abspath(__file__)))
REPO = os.environ.get("VERIF_REPO", "/repo")
LEAN = os.path.join(VERIF, "lean")
HARNESS = os.path.join(VERIF, "harness")
BUILD = os.path.join(VERIF, ".build")
CARGO_TARGET = os.path.join(BUILD, "cargo")
EVIDENCE = os.path.join(VERIF, "evidence")
ALLOWED_AXIOMS = {"propext", "Classical.choice", "Quot.sound"}
FORBIDDEN = re.compile(r"\bsorry\b|\badmit\b|^\s*axiom\s|native_decide|bv_decide|implemented_by|\bunsafe\s|maxHeartbeats\s+0\b|Lean\.ofReduceBool|Lean\.trustCompiler", re.M)

ENV = dict(os.environ)
ENV.update({"CARGO_NET_OFFLINE": "true", "CARGO_TARGET_DIR": CARGO_TARGET, "RUST_BACKTRACE": "0"})


def sh(cmd, cwd=None, inp=None, timeout=None, env=None):
    """run a command, return (rc, stdout, stderr) as text"""
    p = subprocess.run(cmd, cwd=cwd, input=inp, capture_output=True, text=True, timeout=timeout,
                       env=env or ENV, shell=isinstance(cmd, str))
    return p.returncode, p.stdout, p.stderr


def strip_lean_strings(src):
    """blank the CONTENT of string literals in comment-free Lean source (use strip_lean_noncode on raw source)"""
    return strip_lean_noncode(src)


def strip_lean_noncode(src):
    """one pass over Lean source: drop line comments and nested block comments, blank the content of string
    literals ("…" with \\-escapes) and skip char literals.  A forbidden word inside a string (e.g. Rust source snippets
    in the regenerated tables: `unsafe { … }`) or a comment is data, not a construct."""
    out, i, n, depth = [], 0, len(src), 0
    while i < n:
        if src.startswith("/-", i):
            depth += 1; i += 2; continue
        if depth:
            if src.startswith("-/", i):
                depth -= 1; i += 2
            else:
                i += 1
            continue
        if src.startswith("--", i):
            j = src.find("\n", i); i = n if j < 0 else j; continue
        c = src[i]
        if c == '"':
            i += 1
            while i < n and src[i] != '"':
                i += 2 if src[i] == "\\" else 1
            i += 1; out.append('""'); continue
        if c == "'" and i + 2 < n and src[i + 1] != "\\" and src[i + 2] == "'":
            out.append("' '"); i += 3; continue
        if c == "'" and i + 3 < n and src[i + 1] == "\\" and src[i + 3] == "'":
            out.append("' '"); i += 4; continue
        out.append(c); i += 1
    return "".join(out)


def strip_lean_comments(src):
    # remove nested block comments and line comments
    out, i, depth, n = [], 0, 0, len(src)
    while i < n:
        if src.startswith("/-", i):
            depth += 1; i += 2; continue
        if depth and src.startswith("-/", i):
            depth -= 1; i += 2; continue
        if depth:
            i += 1; continue
        if src.startswith("--", i):
            j = src.find("\n", i)
            i = n if j < 0 else j
            continue
        out.append(src[i]); i += 1
    return "".join(out)


def lean_imports_closure(module):
    """transitive MJ.* imports of a module (by source scan)"""
    seen, todo = set(), [module]
    while todo:
        m = todo.pop()
        if m in seen or not m.startswith("MJ."):
            continue
        path = os.path.join(LEAN, m.replace(".", "/") + ".lean")
        if not os.path.exists(path):
            continue
        seen.add(m)
        for line in open(path):
            mm = re.match(r"\s*import\s+(\S+)", line)
            if mm:
                todo.append(mm.group(1))
    return sorted(seen)


TRANSIENT = re.compile(r"object file .* does not exist|failed to open|no such file or directory|SIGBUS|signal 7|"
                       r"clang frontend command failed with exit code 135|exited with code 135", re.I)


class Run:
    def __init__(self, prop, tier, seed, replay=None):
        self.prop, self.tier, self.seed, self.replay = prop, tier, seed, replay
        self.t0 = time.time()
        self.obligations = {}      # theorem -> {"ok": bool, "axioms": [...]}
        self.broken = []           # descriptions of broken proof / tie / extraction
        self.oracle_failures = []  # {"case","what","site"}
        self.model_disagreements = []  # {"case","impl","model"}
        self.known_hits = []
        self.evaluations = 0
        self.distinct = set()
        self.samples = []
        self.hist = collections.defaultdict(collections.Counter)
        self.extra = {}
        self.assumptions = []
        self.rule = ""
        self.exhaustive = False
        self.checker_cmds = []
        self.log_lines = []
        self.known = load_known(prop)
        import glob
        if not replay:
            for f in glob.glob(os.path.join(EVIDENCE, 'replay', f'{prop}-*.case')):
                os.remove(f)

    # ------------------------------------------------------------------ logging
    def log(self, *a):
        msg = " ".join(str(x) for x in a)
        self.log_lines.append(msg)
        print(f"[{self.prop}] {msg}", flush=True)

    # ------------------------------------------------------------------ tables (translator)
    def regen_tables(self, needed=()):
        """regenerate MJ/Gen/Tables.lean from /repo; `needed` = item names this property uses"""
        from extract_tables import regenerate
        status = regenerate(REPO, os.path.join(LEAN, "MJ", "Gen", "Tables.lean"))
        self.extra["tables"] = {k: status["items"].get(k) for k in needed}
        for k in needed:
            if k in status["missing"]:
                self.broken.append(f"table extraction: item `{k}` not found in /repo sources ({status['missing'][k]})")
        return status

    # ------------------------------------------------------------------ Lean
    def lean_build(self, targets):
        # transient failures of a build that shares lean/.lake with another running check (case-insensitive: lake prints
        # "no such file or directory (error code: ...)", clang dies with exit code 135 = SIGBUS on a truncated Tables.c)
        cmd = ["lake", "build"] + list(targets)
        self.checker_cmds.append("cd lean && " + " ".join(cmd))
        rc, out, err = sh(cmd, cwd=LEAN, timeout=3000)
        for _ in range(3):
            # another check running in the same tree (workers, run_all next to a worker) may be rebuilding the shared
            # MJ.Gen.Tables at this moment: its object files vanish for a moment.  Not an error of the proofs: retry.
            if rc == 0 or not re.search(TRANSIENT, out + err):
                break
            time.sleep(20)
            rc, out, err = sh(cmd, cwd=LEAN, timeout=3000)
        if rc != 0:
            tail = "\n".join((out + err).strip().splitlines()[-40:])
            self.log("lake build FAILED:\n" + tail)
            self.extra["lake_build_log"] = tail
        return rc == 0, out + err

    def lean_prove(self, prop_module, audit_file, extra_targets=()):
        """build the property theorems, audit axioms and forbidden constructs.
        Registers one obligation per `#print axioms` line of the audit file."""
        audit_path = os.path.join(LEAN, audit_file)
        wanted = re.findall(r"^#print axioms\s+(\S+)", open(audit_path).read(), re.M)
        for w in wanted:
            self.obligations[w] = {"ok": False, "axioms": None}
        ok, log = self.lean_build([prop_module] + list(extra_targets))
        if not ok:
            m = re.findall(r"error: (\S+\.lean:\d+:\d+: .*)", log)
            self.broken.append("lake build of %s failed: %s" % (prop_module, "; ".join(m[:5]) or "see log"))
            # which theorems still check individually is not determined; all stay undischarged
            return False
        # forbidden constructs in the transitive sources
        for mod in lean_imports_closure(prop_module):
            src = strip_lean_noncode(open(os.path.join(LEAN, mod.replace(".", "/") + ".lean")).read())
            hit = FORBIDDEN.search(src)
            if hit:
                self.broken.append(f"forbidden construct `{hit.group(0).strip()}` in {mod}")
        cmd = ["lake", "env", "lean", audit_file]
        self.checker_cmds.append("cd lean && " + " ".join(cmd))
        rc, out, err = sh(cmd, cwd=LEAN, timeout=3000)
        for _ in range(3):   # same transient as in lean_build: a concurrent rebuild of the shared MJ.Gen.Tables
            if rc == 0 or not re.search(TRANSIENT, out + err):
                break
            time.sleep(20)
            self.lean_build([prop_module])
            rc, out, err = sh(cmd, cwd=LEAN, timeout=3000)
        if rc != 0:
            self.broken.append("axiom audit failed to elaborate: " + (out + err).strip()[-400:])
            return False
        txt = out.replace("\n ", " ")
        for name in wanted:
            m = re.search(r"'%s' depends on axioms: \[([^\]]*)\]" % re.escape(name), txt, re.S)
            if m:
                axs = [a.strip() for a in m.group(1).replace("\n", " ").split(",") if a.strip()]
            elif re.search(r"'%s' does not depend on any axioms" % re.escape(name), txt):
                axs = []
            else:
                self.broken.append(f"audit: no axiom report for {name}")
                continue
            bad = [a for a in axs if a not in ALLOWED_AXIOMS]
            self.obligations[name] = {"ok": not bad, "axioms": axs}
            if bad:
                self.broken.append(f"theorem {name} depends on disallowed axioms {bad}")
        if self.tier == "thorough":
            cmd = ["lake", "env", "leanchecker", prop_module]
            self.checker_cmds.append("cd lean && " + " ".join(cmd))
            rc, out, err = sh(cmd, cwd=LEAN, timeout=3000)
            self.extra["leanchecker_rc"] = rc
            if rc != 0:
                self.broken.append("leanchecker rejected %s: %s" % (prop_module, (out + err)[-300:]))
        return all(o["ok"] for o in self.obligations.values())

    def driver(self, name, inp, args=()):
        """run a compiled Lean driver (lean_exe `name`) on input text; returns stdout lines"""
        ok, log = self.lean_build([name])
        if not ok:
            self.broken.append(f"model driver {name} does not build")
            return None
        rc, out, err = sh([os.path.join(LEAN, ".lake", "build", "bin", name)] + list(args), inp=inp, timeout=3000)
        if rc != 0:
            self.broken.append(f"model driver {name} exited {rc}: {err[-300:]}")
            return None
        return out.splitlines()

    # ------------------------------------------------------------------ Rust harness
    def cargo_build(self, binname, release=False, features=(), no_hooks=False):
        """build one harness binary against /repo's current tree.  A non-default feature set gets
        its own target directory so that alternating builds do not recompile minijinja each time."""
        cmd = ["cargo", "build", "--offline", "--bin", binname]
        if release:
            cmd.append("--release")
        target = CARGO_TARGET
        env = dict(ENV)
        if features:
            cmd += ["--features", ",".join(features)]
            target = CARGO_TARGET + "-" + "-".join(sorted(features))
            env["CARGO_TARGET_DIR"] = target
        if no_hooks:
            # the crates under test are compiled WITHOUT verif_hooks (what real users compile)
            cmd.append("--no-default-features")
            target = target + "-nohooks"
            env["CARGO_TARGET_DIR"] = target
        rc, out, err = sh(cmd, cwd=HARNESS, timeout=3000, env=env)
        if rc != 0:
            self.log("cargo build FAILED:\n" + err[-3000:])
            self.broken.append(f"harness {binname} does not build against /repo's current tree: " + " | ".join(re.findall(r"^error.*", err, re.M)[:3]))
            return None
        return os.path.join(target, "release" if release else "debug", binname)

    def harness(self, exe, args, inp=None, timeout=3000, env=None):
        e = dict(ENV); e["VERIF_SEED"] = str(self.seed); e["VERIF_TIER"] = self.tier
        if env: e.update(env)
        rc, out, err = sh([exe] + list(args), inp=inp, timeout=timeout, env=e)
        return rc, out, err

    # ------------------------------------------------------------------ results
    def count(self, case_key=None, nontrivial=True, n=1):
        self.evaluations += n
        if case_key is not None and nontrivial:
            self.distinct.add(hashlib.blake2b(str(case_key).encode(), digest_size=8).digest())

    def sample(self, s, cap=12):
        if len(self.samples) < cap:
            self.samples.append(s)

    def oracle_failure(self, case, what, site=None):
        f = {"case": case, "what": what, "site": site or what}
        k = match_known(self.known, f)
        if k is not None:
            self.known_hits.append((k, f))
        else:
            self.oracle_failures.append(f)

    def model_disagreement(self, case, impl, model):
        self.model_disagreements.append({"case": case, "impl": impl, "model": model})

    # ------------------------------------------------------------------ decide + evidence
    def finish(self, level="proof"):
        os.makedirs(os.path.join(EVIDENCE, "replay"), exist_ok=True)
        violations = 0
        lines = []
        seen_known = {}
        for k, f in self.known_hits:
            seen_known.setdefault(k["id"], (k, f))
        for kid, (k, f) in sorted(seen_known.items()):
            lines.append(f"KNOWN-FINDING: property={self.prop} {k['what']} [witness: {k.get('witness','')}]")
        replay_n = 0

        def write_replay(obj):
            nonlocal replay_n
            path = os.path.join(EVIDENCE, "replay", f"{self.prop}-{replay_n}.case")
            replay_n += 1
            with open(path, "w") as fh:
                json.dump(obj, fh, indent=1, ensure_ascii=False)
                fh.write("\n")
            return path

        if self.oracle_failures:
            # group by site, one VIOLATION per distinct site (first = minimal as generated)
            by_site = collections.OrderedDict()
            for f in self.oracle_failures:
                by_site.setdefault(f["site"], []).append(f)
            for site, fs in list(by_site.items())[:5]:
                path = write_replay({"property": self.prop, "kind": "failing-input", "site": site,
                                     "case": fs[0]["case"], "what": fs[0]["what"], "count": len(fs),
                                     "more_cases": [x["case"] for x in fs[1:6]],
                                     "broken": self.broken})
                lines.append(f"VIOLATION property={self.prop} replay={path}")
                violations += 1
        elif self.broken or self.model_disagreements or any(not o["ok"] for o in self.obligations.values()):
            undis = [n for n, o in self.obligations.items() if not o["ok"]]
            path = write_replay({"property": self.prop, "kind": "no-failing-input-found",
                                 "broken": self.broken, "undischarged_theorems": undis,
                                 "correspondence_disagreements": self.model_disagreements[:10],
                                 "n_disagreements": len(self.model_disagreements)})
            lines.append(f"VIOLATION property={self.prop} replay={path} no-failing-input-found")
            violations += 1

        trusted = []
        for n, o in sorted(self.obligations.items()):
            trusted.append(f"{n}: axioms {o['axioms']}")
        cov = {
            "obligations": len(self.obligations),
            "discharged": sum(1 for o in self.obligations.values() if o["ok"]),
            "checker_cmd": " && ".join(dict.fromkeys(self.checker_cmds)) or "none",
            "trusted_base": trusted + ["Lean 4.33 kernel", "lib/extract_tables.py (translator)", "harness + canonicalisers (differential)"],
            "evaluations": self.evaluations,
            "distinct_nontrivial": len(self.distinct),
            "rule": self.rule,
            "samples": self.samples or ["(none)"],
            "exhaustive": self.exhaustive,
            "model_disagreements": len(self.model_disagreements),
            "oracle_failures": len(self.oracle_failures),
            "known_findings_hit": sorted(seen_known.keys()),
            "broken": self.broken,
            "histograms": {k: dict(v.most_common(40)) for k, v in self.hist.items()},
        }
        cov.update(self.extra)
        ev = {"property_id": self.prop, "tier": self.tier, "seed": self.seed, "level": level,
              "coverage": cov, "assumptions": self.assumptions, "wall_s": round(time.time() - self.t0, 2),
              "violations": violations}
        with open(os.path.join(EVIDENCE, f"{self.prop}.json"), "w") as fh:
            json.dump(ev, fh, indent=1, ensure_ascii=False)
            fh.write("\n")
        for l in lines:
            print(l, flush=True)
        print(f"[{self.prop}] obligations {cov['discharged']}/{cov['obligations']} evaluations {self.evaluations} "
              f"distinct {len(self.distinct)} model_disagreements {len(self.model_disagreements)} "
              f"oracle_failures {len(self.oracle_failures)} known {len(seen_known)} broken {len(self.broken)} "
              f"wall {ev['wall_s']}s", flush=True)
        return 1 if violations else 0


# ---------------------------------------------------------------------- known findings
def load_known(prop):
    path = os.path.join(VERIF, "KNOWN_FINDINGS.jsonl")
    out = []
    if os.path.exists(path):
        for i, line in enumerate(open(path)):
            line = line.strip()
            if not line or line.startswith("#"):
                continue
            d = json.loads(line)
            if d.get("property") == prop and not d.get("fixed"):
                d.setdefault("id", f"{prop}-K{i}")
                out.append(d)
    return out


def match_known(known, failure):
    """a failure is suppressed only if its site equals a listed site, or its case equals a
    listed witness"""
    for k in known:
        if k.get("site") and k["site"] == failure.get("site"):
            return k
        if k.get("witness") and k["witness"] == failure.get("case"):
            return k
    return None
