"""Translator for the table-like parts of /repo: rewrites lean/MJ/Gen/Tables.lean from the
current sources on every run (DESIGN.md §2.3a).  Deliberately dumb: anchored regular expressions
over named items.  An item that can no longer be found is recorded as *missing* (the tie is then
broken for the properties that use it); its Lean definition falls back to a value that makes the
dependent theorems fail rather than succeed (e.g. empty tables, 0 constants are NOT used — the
definition is simply omitted so that the Lean build of dependants breaks).
"""
import os, re, json


def read(repo, rel):
    with open(os.path.join(repo, rel), encoding="utf-8") as fh:
        return fh.read()


def const(src, name):
    m = re.search(r"const\s+%s\s*:\s*\w+\s*=\s*([0-9_]+)\s*;" % re.escape(name), src)
    if not m:
        raise KeyError(f"const {name}")
    return int(m.group(1).replace("_", ""))


def fn_body(src, header_re):
    """text of the brace-delimited body following the first match of header_re"""
    m = re.search(header_re, src)
    if not m:
        raise KeyError(header_re)
    i = src.index("{", m.end() - 1) if src[m.end() - 1] != "{" else m.end() - 1
    depth, j = 0, i
    while j < len(src):
        c = src[j]
        if c == "{":
            depth += 1
        elif c == "}":
            depth -= 1
            if depth == 0:
                return src[i + 1:j]
        j += 1
    raise KeyError(header_re + " (unbalanced)")


def lean_str(s):
    return '"' + s.replace("\\", "\\\\").replace('"', '\\"') + '"'


def lean_char(c):
    if c == "'":
        return "'\\''"
    if c == "\\":
        return "'\\\\'"
    return "'" + c + "'"


ITEMS = []


def item(name):
    def deco(f):
        ITEMS.append((name, f))
        return f
    return deco


# ---------------------------------------------------------------------------- constants
def _const_item(name, rel, cname, lean_name):
    @item(name)
    def _f(repo):
        v = const(read(repo, rel), cname)
        return v, f"def {lean_name} : Nat := {v}"
    return _f


_const_item("MAX_RECURSION_ENV", "minijinja/src/environment.rs", "MAX_RECURSION", "maxRecursionEnv")
_const_item("MAX_RECURSION_PARSER", "minijinja/src/compiler/parser.rs", "MAX_RECURSION", "maxRecursionParser")
_const_item("INCLUDE_RECURSION_COST", "minijinja/src/vm/mod.rs", "INCLUDE_RECURSION_COST", "includeRecursionCost")
_const_item("MACRO_RECURSION_COST", "minijinja/src/vm/mod.rs", "MACRO_RECURSION_COST", "macroRecursionCost")
_const_item("MAX_REPEATED_STRING_LEN", "minijinja/src/value/ops.rs", "MAX_REPEATED_STRING_LEN", "maxRepeatedStringLen")
_const_item("MAX_LOCALS", "minijinja/src/compiler/instructions.rs", "MAX_LOCALS", "maxLocals")
_const_item("SMALL_STR_CAP", "minijinja/src/value/mod.rs", "SMALL_STR_CAP", "smallStrCap")
_const_item("MERGESEQ_MAX_DEPTH", "minijinja/src/value/merge_object.rs", "MAX_DEPTH", "mergeSeqMaxDepth")


@item("VALUE_KIND_ORDER")
def _value_kind_order(repo):
    src = read(repo, "minijinja/src/value/mod.rs")
    body = fn_body(src, r"pub enum ValueKind\s*\{")
    body = re.sub(r"///.*", "", body)
    names = re.findall(r"^\s*([A-Z]\w*)\s*,", body, re.M)
    if not names:
        raise KeyError("ValueKind variants")
    return names, "def valueKindOrder : List String := [" + ", ".join(lean_str(n) for n in names) + "]"


@item("HTML_ESCAPE_TABLE")
def _html_escape(repo):
    src = read(repo, "minijinja/src/utils.rs")
    body = fn_body(src, r"impl fmt::Display for HtmlEscape<'_>\s*\{")
    rows = re.findall(r"b'(\\?.)'\s*=>\s*escaping_body!\(\"([^\"]*)\"\)", body)
    if not rows:
        raise KeyError("HtmlEscape rows")
    tbl = []
    for c, rep in rows:
        c = c[-1] if c.startswith("\\") else c
        tbl.append((c, rep))
    # the range pre-filter `b.wrapping_sub(LO) <= HI - LO`
    m = re.search(r"b\.wrapping_sub\(b'(\\?.)'\)\s*<=\s*b'(\\?.)'\s*-\s*b'(\\?.)'", body)
    if not m:
        raise KeyError("HtmlEscape range filter")
    lo, hi = m.group(1)[-1], m.group(2)[-1]
    lean = ("def htmlEscapeTable : List (Char × String) := ["
            + ", ".join(f"({lean_char(c)}, {lean_str(r)})" for c, r in tbl) + "]\n"
            + f"def htmlEscapeFilterLo : Nat := {ord(lo)}\ndef htmlEscapeFilterHi : Nat := {ord(hi)}")
    return {"rows": tbl, "lo": lo, "hi": hi}, lean


@item("FUEL_ZERO_COST")
def _fuel_zero(repo):
    src = read(repo, "minijinja/src/vm/fuel.rs")
    body = fn_body(src, r"fn fuel_for_instruction\(instruction: &Instruction\) -> \w+\s*\{")
    inner = fn_body(body, r"match instruction\s*\{")
    arms = re.split(r"=>", inner)
    # all arms but the last map to a literal; collect names of arms mapping to 0, and the default
    zero = []
    pieces = re.findall(r"((?:#\[cfg\([^\]]*\)\]\s*)?(?:\|?\s*Instruction::\w+(?:\([^)]*\))?\s*)+)=>\s*(\d+)\s*,", inner)
    for pat, val in pieces:
        names = re.findall(r"Instruction::(\w+)", pat)
        if int(val) == 0:
            zero += names
        else:
            raise KeyError(f"non-zero explicit fuel arm {names} => {val}")
    m = re.search(r"_\s*=>\s*(\d+)\s*,?", inner)
    if not m:
        raise KeyError("fuel default arm")
    default = int(m.group(1))
    lean = ("def fuelZeroCost : List String := [" + ", ".join(lean_str(n) for n in zero) + "]\n"
            + f"def fuelDefaultCost : Nat := {default}")
    return {"zero": zero, "default": default}, lean


_plugins_loaded = False


def load_plugins():
    """per-property extractor items live in lib/tables/*.py (each registers via @item)"""
    global _plugins_loaded
    if _plugins_loaded:
        return
    _plugins_loaded = True
    import glob, importlib.util, sys
    sys.modules.setdefault("extract_tables", sys.modules[__name__])
    here = os.path.dirname(os.path.abspath(__file__))
    for path in sorted(glob.glob(os.path.join(here, "tables", "*.py"))):
        name = "tables_" + os.path.basename(path)[:-3]
        spec = importlib.util.spec_from_file_location(name, path)
        mod = importlib.util.module_from_spec(spec)
        try:
            spec.loader.exec_module(mod)
        except Exception as e:  # a broken plugin breaks the tie of its items, not everything
            ITEMS.append((f"PLUGIN_{name}", (lambda e=e: (lambda repo: (_ for _ in ()).throw(e)))()))


def regenerate(repo, out_path):
    load_plugins()
    items, missing, chunks = {}, {}, []
    for name, f in ITEMS:
        try:
            val, lean = f(repo)
            items[name] = val
            chunks.append(f"-- {name}\n{lean}\n")
        except Exception as e:  # the tie for this item is broken
            missing[name] = f"{type(e).__name__}: {e}"
            chunks.append(f"-- {name}: MISSING ({type(e).__name__}: {e}) — dependants will not build\n")
    text = ("/-! GENERATED by lib/extract_tables.py from /repo's current sources — do not edit. -/\n"
            "namespace MJ.Gen\n\n" + "\n".join(chunks) + "\nend MJ.Gen\n")
    os.makedirs(os.path.dirname(out_path), exist_ok=True)
    old = open(out_path).read() if os.path.exists(out_path) else None
    if old != text:   # atomic replace: a concurrently running `lake build` never sees a half-written file
        tmp = out_path + ".tmp.%d" % os.getpid()
        with open(tmp, "w") as fh:
            fh.write(text)
        os.replace(tmp, out_path)
    status = {"items": items, "missing": missing}
    with open(os.path.join(os.path.dirname(out_path), "tables_status.json"), "w") as fh:
        json.dump(status, fh, indent=1, default=str)
    return status


if __name__ == "__main__":
    import sys
    here = os.path.dirname(os.path.dirname(os.path.abspath(__file__)))
    st = regenerate(sys.argv[1] if len(sys.argv) > 1 else "/repo", os.path.join(here, "lean", "MJ", "Gen", "Tables.lean"))
    print(json.dumps(st, indent=1, default=str))
