"""Small Rust source scanner used by the C01 table items (lib/tables/c01.py).

Not a parser: comments / string and char literals are blanked (offsets and line numbers kept), test
code (`#[cfg(test)]` items, `#[test]` functions) is blanked, functions are located by brace matching.
Deliberately strict where it matters: constructs the C01 extractors do not understand raise KeyError
(= the item is recorded missing, the tie is broken) instead of being skipped.
"""
import re


def blank_comments_and_literals(src):
    """same length as `src`; comments, string / char literal *contents* replaced by spaces"""
    out = list(src)
    i, n = 0, len(src)

    def blank(a, b):
        for k in range(a, b):
            if out[k] != "\n":
                out[k] = " "

    while i < n:
        c = src[i]
        if src.startswith("//", i):
            j = src.find("\n", i)
            j = n if j < 0 else j
            blank(i, j)
            i = j
        elif src.startswith("/*", i):
            depth, j = 1, i + 2
            while j < n and depth:
                if src.startswith("/*", j):
                    depth += 1
                    j += 2
                elif src.startswith("*/", j):
                    depth -= 1
                    j += 2
                else:
                    j += 1
            blank(i, j)
            i = j
        elif c == '"' or (c in "rb" and re.match(r'(?:b?r#*"|b")', src[i:i + 8]) and (i == 0 or not (src[i - 1].isalnum() or src[i - 1] == "_"))):
            m = re.match(r'b?r(#*)"', src[i:i + 40])
            if m:  # raw string
                close = '"' + m.group(1)
                j = src.find(close, i + m.end())
                j = n if j < 0 else j + len(close)
                blank(i + m.end(), j - len(close))
                i = j
            else:
                j = i + (2 if c == "b" else 1)
                start = j
                while j < n and src[j] != '"':
                    j += 2 if src[j] == "\\" else 1
                blank(start, j)
                i = j + 1
        elif c == "'":
            m = re.match(r"'(\\u\{[0-9a-fA-F_]+\}|\\x[0-9a-fA-F]{2}|\\.|[^\\'\n])'", src[i:i + 16])
            if m:
                blank(i + 1, i + m.end() - 1)
                i += m.end()
            else:
                i += 1  # lifetime
        else:
            i += 1
    return "".join(out)


def match_close(src, i, open_ch="{", close_ch="}"):
    """index just past the bracket closing the one at src[i] (src must be blanked)"""
    assert src[i] == open_ch, (src[i:i + 30], open_ch)
    depth, j = 0, i
    while j < len(src):
        c = src[j]
        if c == open_ch:
            depth += 1
        elif c == close_ch:
            depth -= 1
            if depth == 0:
                return j + 1
        j += 1
    raise KeyError("unbalanced bracket")


def blank_tests(src):
    """blank `#[cfg(test)]` items and `#[test]` functions (src already blanked of comments/literals)"""
    out = src
    for m in list(re.finditer(r"#\[cfg\((?:all\()?test\b[^\]]*\]|#\[test\]", out)):
        # the item that follows: up to the end of its brace block, or to `;` when it has none
        j = m.end()
        k_brace = out.find("{", j)
        k_semi = out.find(";", j)
        if k_brace < 0 and k_semi < 0:
            continue
        if k_semi >= 0 and (k_brace < 0 or k_semi < k_brace):
            end = k_semi + 1
        else:
            end = match_close(out, k_brace)
        seg = "".join(ch if ch == "\n" else " " for ch in out[m.start():end])
        out = out[:m.start()] + seg + out[end:]
    return out


def prepared(text):
    """non-test code of a source file with comments and literal contents blanked"""
    return blank_tests(blank_comments_and_literals(text))


def line_of(src, off):
    return src.count("\n", 0, off) + 1


FN_RE = re.compile(r"\bfn\s+([A-Za-z_]\w*)\s*")


def _skip_generics(src, i):
    """src[i] == '<': index just past the matching '>' (`->` inside does not close)"""
    depth, j = 0, i
    while j < len(src):
        c = src[j]
        if c == "<":
            depth += 1
        elif c == ">" and src[j - 1] != "-":
            depth -= 1
            if depth == 0:
                return j + 1
        elif c in "{;" and depth <= 0:
            break
        j += 1
    raise KeyError("unbalanced generics")


def _block_open(src, k):
    """from k: index of the `{` that opens the item body (bracket depth 0), or -1 if `;` comes first"""
    depth = 0
    while k < len(src):
        c = src[k]
        if c in "([":
            depth += 1
        elif c in ")]":
            depth -= 1
        elif c == "<":
            depth += 1
        elif c == ">" and src[k - 1] not in "-=":
            depth -= 1
        elif c == "{" and depth <= 0:
            return k
        elif c == ";" and depth <= 0:
            return -1
        k += 1
    return -1


def functions(src):
    """[(name, container, header_start, body_start, body_end)] for every `fn` with a body, innermost
    container = the `impl …` / `trait …` / `mod …` header text the function is nested in (or '').
    `src` must be prepared()."""
    conts = []
    for m in re.finditer(r"\b(impl|trait|mod)\b(?!\s*[!(])", src):
        k = _block_open(src, m.end())
        if k < 0:
            continue
        try:
            end = match_close(src, k)
        except KeyError:
            continue
        head = re.sub(r"\s+", " ", src[m.start():k].strip())
        conts.append((m.start(), end, head))
    res = []
    for m in FN_RE.finditer(src):
        j = m.end()
        try:
            if j < len(src) and src[j] == "<":
                j = _skip_generics(src, j)
            while j < len(src) and src[j].isspace():
                j += 1
            if j >= len(src) or src[j] != "(":
                continue
            pend = match_close(src, j, "(", ")")
        except KeyError:
            continue
        k = _block_open(src, pend)
        if k < 0:
            continue
        bend = match_close(src, k)
        inside = [c for c in conts if c[0] < m.start() < c[1]]
        cont = min(inside, key=lambda c: c[1] - c[0])[2] if inside else ""
        res.append((m.group(1), cont, m.start(), k + 1, bend - 1))
    return res


def enclosing_fn(fns, off):
    """the innermost function whose body contains the offset"""
    best = None
    for f in fns:
        if f[3] <= off < f[4] and (best is None or f[4] - f[3] < best[4] - best[3]):
            best = f
    return best


# ------------------------------------------------------------------------------------------------
# scope-stack programs (compiler/meta.rs)


class Unsupported(KeyError):
    pass


def _skip_ws(s, i, end):
    while i < end and s[i].isspace():
        i += 1
    return i


def _expr_end(s, i, end, stops=",;"):
    """end of an expression starting at i: first char of `stops` (or closing bracket) at depth 0"""
    depth = 0
    while i < end:
        c = s[i]
        if c in "([{":
            depth += 1
        elif c in ")]}":
            if depth == 0:
                return i
            depth -= 1
        elif c in stops and depth == 0:
            return i
        i += 1
    return end


def _head_end(s, i, end):
    """index of the `{` that opens the block after an `if` / `match` / `for` / `while` head"""
    depth = 0
    while i < end:
        c = s[i]
        if c in "([":
            depth += 1
        elif c in ")]":
            depth -= 1
        elif c == "{" and depth == 0:
            return i
        i += 1
    raise Unsupported("no block after control-flow head")


class ScopeParser:
    """events of one function body in terms of a scope-stack variable `var`:
    ('push',) ('pop',) ('need',) ('call', name) ('branch', [alts…]) ('loop', body) ('isolated', body)"""

    def __init__(self, var, fn_names, push="push", pop="pop", need=("assign",), field="assigned", strict=True):
        self.var, self.fn_names, self.strict = var, fn_names, strict
        v = re.escape(var)
        alts = [
            ("push", r"\b%s\s*\.\s*%s\s*\(\s*\)" % (v, push)),
            ("pop", r"\b%s\s*\.\s*%s\s*\(\s*\)" % (v, pop)),
            ("need", r"\b%s\s*\.\s*(?:%s)\s*\(" % (v, "|".join(need))),
            ("isolate", r"\blet\s+(?:mut\s+)?(\w+)\s*=\s*(?:std\s*::\s*)?mem\s*::\s*replace\s*\(\s*&\s*mut\s+%s\s*\.\s*%s\s*,\s*vec!\s*\[\s*Default\s*::\s*default\s*\(\s*\)\s*\]\s*\)\s*;" % (v, field)),
            ("field", r"\b%s\s*\.\s*%s\b" % (v, field)),
            ("if", r"\bif\b"),
            ("match", r"\bmatch\b"),
            ("for", r"\bfor\b"),
            ("unsupported", r"\b(?:while|loop|return|break|continue)\b|\?\s*[;.)]"),
            ("closure", r"(?:(?<=[(,=])|\bmove)\s*\|"),
            ("call", r"(?<![.\w])(%s)\s*\(" % "|".join(map(re.escape, fn_names)) if fn_names else r"(?!x)x"),
            ("block", r"\{"),
        ]
        self.rx = re.compile("|".join("(?P<%s>%s)" % (n, p) for n, p in alts))
        self.arm_patterns = []   # patterns of every `match` parsed, outermost last

    def seq(self, s, i, end):
        ev = []
        while i < end:
            m = self.rx.search(s, i, end)
            if not m:
                break
            kind = m.lastgroup
            if kind in ("push", "pop"):
                ev.append((kind,))
                i = m.end()
            elif kind == "need":
                ev.append(("need",))
                i = m.end()
            elif kind == "call":
                name = re.match(r"\w+", m.group("call")).group(0)
                # arguments first (they are evaluated before the call)
                close = match_close(s, m.end() - 1, "(", ")")
                ev.extend(self.seq(s, m.end(), close - 1))
                ev.append(("call", name))
                i = close
            elif kind == "isolate":
                saved = re.search(r"let\s+(?:mut\s+)?(\w+)", m.group("isolate")).group(1)
                r = re.compile(r"\b%s\s*\.\s*assigned\s*=\s*%s\s*;" % (re.escape(self.var), re.escape(saved)))
                m2 = r.search(s, m.end(), end)
                if not m2:
                    raise Unsupported("scope stack replaced but not restored in the same block")
                ev.append(("isolated", self.seq(s, m.end(), m2.start())))
                i = m2.end()
            elif kind == "field":
                raise Unsupported("direct access to the scope stack outside push/pop/assign/replace-restore")
            elif kind == "unsupported" and not self.strict:
                i = m.end()
            elif kind == "unsupported":
                raise Unsupported("control flow `%s` in a function that pushes or pops scopes" % m.group(0).strip())
            elif kind == "block":
                close = match_close(s, m.start())
                ev.extend(self.seq(s, m.start() + 1, close - 1))
                i = close
            elif kind == "closure":
                j = s.index("|", m.start())
                k = s.index("|", j + 1)
                b = _skip_ws(s, k + 1, end)
                if b < end and s[b] == "{":
                    close = match_close(s, b)
                    body = self.seq(s, b + 1, close - 1)
                    i = close
                else:
                    e = _expr_end(s, b, end)
                    body = self.seq(s, b, e)
                    i = e
                if body:
                    ev.append(("loop", body))
            elif kind == "for":
                # `for PAT in EXPR { body }`
                b = _head_end(s, m.end(), end)
                head = s[m.end():b]
                k = re.search(r"\bin\b", head)
                if not k:
                    raise Unsupported("for without in")
                ev.extend(self.seq(s, m.end() + k.end(), b))
                close = match_close(s, b)
                ev.append(("loop", self.seq(s, b + 1, close - 1)))
                i = close
            elif kind == "if":
                alts, i = self._if(s, m.end(), end, ev)
                ev.append(("branch", alts))
            elif kind == "match":
                b = _head_end(s, m.end(), end)
                ev.extend(self.seq(s, m.end(), b))
                close = match_close(s, b)
                ev.append(("branch", self._arms(s, b + 1, close - 1)))
                i = close
        return ev

    def _if(self, s, i, end, pre):
        """after the `if` keyword: condition events go to `pre`; returns ([then, else], next index)"""
        b = _head_end(s, i, end)
        pre.extend(self.seq(s, i, b))
        close = match_close(s, b)
        then = self.seq(s, b + 1, close - 1)
        j = _skip_ws(s, close, end)
        if s.startswith("else", j) and not (s[j + 4].isalnum() or s[j + 4] == "_"):
            j = _skip_ws(s, j + 4, end)
            if s.startswith("if", j) and not (s[j + 2].isalnum() or s[j + 2] == "_"):
                inner_pre = []
                alts, nxt = self._if(s, j + 2, end, inner_pre)
                return [then, inner_pre + [("branch", alts)]], nxt
            close2 = match_close(s, j)
            return [then, self.seq(s, j + 1, close2 - 1)], close2
        return [then, []], close

    def _arms(self, s, i, end):
        arms = []
        pats = []
        while True:
            i = _skip_ws(s, i, end)
            if i >= end:
                break
            # pattern (and guard) up to `=>` at depth 0
            depth, j = 0, i
            while j < end:
                c = s[j]
                if c in "([{":
                    depth += 1
                elif c in ")]}":
                    depth -= 1
                elif s.startswith("=>", j) and depth == 0:
                    break
                j += 1
            if j >= end:
                raise Unsupported("match arm without =>")
            pats.append(re.sub(r"\s+", " ", re.sub(r"#\[[^\]]*\]", "", s[i:j])).strip())
            guard = re.search(r"\bif\b", s[i:j])
            pre = self.seq(s, i + guard.end(), j) if guard else []
            b = _skip_ws(s, j + 2, end)
            if b < end and s[b] == "{":
                close = match_close(s, b)
                body = self.seq(s, b + 1, close - 1)
                i = close
            else:
                e = _expr_end(s, b, end, stops=",")
                body = self.seq(s, b, e)
                i = e
            i = _skip_ws(s, i, end)
            if i < end and s[i] == ",":
                i += 1
            arms.append(pre + body)
        self.arm_patterns.append(pats)
        return arms


def flat_events(ev):
    """all need / call events of a structured program, in order (used for functions without scope ops)"""
    out = []
    for e in ev:
        if e[0] in ("need", "call"):
            out.append(e)
        elif e[0] == "branch":
            for a in e[1]:
                out.extend(flat_events(a))
        elif e[0] in ("loop", "isolated"):
            out.extend(flat_events(e[1]))
        else:
            out.append(e)
    return out


def has_scope_ops(ev):
    for e in ev:
        if e[0] in ("push", "pop", "isolated"):
            return True
        if e[0] == "branch" and any(has_scope_ops(a) for a in e[1]):
            return True
        if e[0] == "loop" and has_scope_ops(e[1]):
            return True
    return False


# ------------------------------------------------------------------------------------------------
# potential crash sites (C01, `PANIC_SITES`)

INT_TYPES = r"(?:u8|u16|u32|u64|u128|usize|i8|i16|i32|i64|i128|isize)"
SITE_RX = [
    ("unwrap", re.compile(r"\.\s*unwrap\s*\(\s*\)")),
    ("expect", re.compile(r"\.\s*expect\s*\(")),
    ("unreachable", re.compile(r"\bunreachable!\s*[(\[{]")),
    ("panic", re.compile(r"\b(?:panic|unimplemented|todo)!\s*[(\[{]")),
    ("assert", re.compile(r"\b(?:debug_)?assert(?:_eq|_ne)?!\s*[(\[{]")),
    ("cast", re.compile(r"\bas\s+%s\b" % INT_TYPES)),
    ("index", re.compile(r"(?<=[\w)\]?])\[")),
    ("arith", re.compile(r"(?<![-+*/%<>=!&|^.])(?:<<=?|>>=?|[-+*/%]=?)(?![-+*/%<>=&|>])")),
]
_KW_BEFORE_BRACKET = {"mut", "in", "return", "else", "match", "if", "while", "as", "dyn", "impl", "const", "static", "let"}
_KW_BEFORE_UNARY = re.compile(r"\b(?:return|in|if|else|match|while|mut|as|let|move|ref|yield|break)$")
_BOUND_AFTER_PLUS = re.compile(r"(?:'|\?Sized|Send\b|Sync\b|Sized\b|Unpin\b|Copy\b|Clone\b|Debug\b|fmt::|std::|core::|[A-Z]\w*(?:<|\s*[,>{)=;]|\s+\+|\s*$|\s+where\b|\s+for\b))")


def blank_cfg_items(src, pattern):
    """blank the items that carry an attribute matching `pattern` (e.g. `#[cfg(feature = "verif_hooks")]`);
    works on the ORIGINAL text positions of a blanked source (attribute arguments are string literals,
    so the pattern is matched against `orig` and applied to `src`)"""
    return src


def container_label(head):
    """`impl<'a> Trait for Type<'a> where …` -> `Type as Trait`; `mod x` -> `x`"""
    h = re.sub(r"\bwhere\b.*$", "", head)
    # drop generics
    while True:
        h2 = re.sub(r"<[^<>]*>", "", h)
        if h2 == h:
            break
        h = h2
    h = re.sub(r"\s+", " ", h).strip()
    m = re.match(r"impl\s+(?:\$\S+\s+)?(.*?)\s+for\s+(.*)$", h)
    if m:
        return f"{m.group(2).strip()} as {m.group(1).strip()}"[:70]
    m = re.match(r"(?:impl|trait|mod)\s+(.*)$", h)
    return (m.group(1).strip() if m else h)[:70]


def arm_spans(src, i, end):
    """[(pattern start, index of `=>`, end of body)] for the arms of a match body src[i:end]"""
    spans = []
    while True:
        i = _skip_ws(src, i, end)
        if i >= end:
            break
        depth, j = 0, i
        while j < end:
            c = src[j]
            if c in "([{":
                depth += 1
            elif c in ")]}":
                depth -= 1
            elif src.startswith("=>", j) and depth == 0:
                break
            j += 1
        if j >= end:
            break
        b = _skip_ws(src, j + 2, end)
        if b < end and src[b] == "{":
            e = match_close(src, b)
        else:
            e = _expr_end(src, b, end, stops=",")
        spans.append((i, j, e))
        i = _skip_ws(src, e, end)
        if i < end and src[i] == ",":
            i += 1
    return spans


def _show(text, a, b):
    """source text of [a, b) for display: comments dropped, whitespace collapsed"""
    t = re.sub(r"//[^\n]*", "", text[a:b])
    t = re.sub(r"#\[[^\]]*\]", "", t)
    return re.sub(r"\s+", " ", t).strip()


def _guard_of(src, text, fn, off):
    """the syntactically evident guard of a site: the head of the innermost `if` / `while` / `match` arm
    whose block contains the site, else the nearest preceding early exit `if … { return | continue | break |
    bail! }` of the function; '' if neither"""
    if fn is None:
        return ""
    bstart, bend = fn[3], fn[4]
    best = None
    for m in re.finditer(r"\b(if|while|match)\b", src[bstart:off]):
        hs = bstart + m.start()
        try:
            b = _head_end(src, bstart + m.end(), bend)
            close = match_close(src, b)
        except KeyError:
            continue
        if not (b < off < close):
            continue
        head = _show(text, hs, b)
        if m.group(1) == "match":
            arm = ""
            for (ps, arrow, e) in arm_spans(src, b + 1, close - 1):
                if ps <= off < e:
                    arm = _show(text, ps, arrow)
            head = f"{head} => {arm}"
        best = (best or []) + [(hs, head)]
    if best:
        # the two innermost enclosing heads, innermost first
        best.sort(reverse=True)
        return " <- ".join(h[:110] for _, h in best[:2])
    prev = None
    for m in re.finditer(r"\bif\b", src[bstart:off]):
        try:
            b = _head_end(src, bstart + m.end(), bend)
            close = match_close(src, b)
        except KeyError:
            continue
        if close <= off and re.search(r"\b(?:return|continue|break)\b|\bbail!", src[b:close]):
            prev = _show(text, bstart + m.start(), b) + " { exit }"
    return (prev or "")[:140]


def panic_sites(text, rel):
    """[(function label, kind, line, guard)] of one source file"""
    src = prepared(text)
    # items behind the verif_hooks feature are not part of the code users compile
    for m in list(re.finditer(r'#\[cfg\((?:all\()?feature\s*=\s*"verif_hooks"[^\]]*\]', text)):
        j = m.end()
        k_brace, k_semi = src.find("{", j), src.find(";", j)
        if k_brace < 0 and k_semi < 0:
            continue
        end = k_semi + 1 if (k_semi >= 0 and (k_brace < 0 or k_semi < k_brace)) else match_close(src, k_brace)
        src = src[:m.start()] + "".join(ch if ch == "\n" else " " for ch in src[m.start():end]) + src[end:]
    fns = functions(src)
    out = []
    for kind, rx in SITE_RX:
        for m in rx.finditer(src):
            off, k = m.start(), kind
            if kind == "index":
                w = re.search(r"(\w+)$", src[:off])
                if w and w.group(1) in _KW_BEFORE_BRACKET:
                    continue
                try:
                    close = match_close(src, off, "[", "]")
                except KeyError:
                    continue
                inner, depth, sl = src[off + 1:close - 1], 0, False
                for i, ch in enumerate(inner):
                    if ch in "([{":
                        depth += 1
                    elif ch in ")]}":
                        depth -= 1
                    elif ch == "." and inner[i:i + 2] == ".." and depth == 0:
                        sl = True
                k = "slice" if sl else "index"
            elif kind == "arith":
                op = m.group(0)
                before, after = src[:off].rstrip(), src[m.end():].lstrip()
                if not before or not after:
                    continue
                pb = before[-1]
                if op in ("-", "*") and (pb in "([{,=;:|&<>!+-*/%" or _KW_BEFORE_UNARY.search(before)):
                    continue        # unary minus, dereference
                if op in ("+", "*") and (after[0] in "),}]>;{=" or pb == "$" or before.endswith("$(")):
                    continue        # macro repetition `$(…)*` / `$(…),+`
                if op in ("+", "*") and re.search(r"\$\([^()]*\)\s*[,;]?$", before):
                    continue
                if op == "+" and _BOUND_AFTER_PLUS.match(after):
                    continue        # trait bounds `A + Send`
                if op in ("<<", ">>") and not (src[off - 1] == " " and src[m.end():m.end() + 1] == " "):
                    continue        # closing angle brackets of generics
                if op == "*" and re.match(r"[A-Z]\s", after) and re.search(r"[A-Z]\s*$", before):
                    continue        # `A B *C` in macro invocations
            f = enclosing_fn(fns, off)
            if f is None:
                # macro_rules bodies / consts: attribute to the enclosing macro or `<item>`
                mm = None
                for x in re.finditer(r"macro_rules!\s*(\w+)\s*\{", src[:off]):
                    try:
                        if match_close(src, x.end() - 1) > off:
                            mm = x.group(1)
                    except KeyError:
                        pass
                label = f"macro {mm}!" if mm else "<item>"
            else:
                label = (container_label(f[1]) + "::" if f[1] else "") + f[0]
            out.append((label, k, line_of(src, off), _guard_of(src, text, f, off)))
    return out


# ------------------------------------------------------------------------------------------------
# kinded stack programs (compiler/codegen.rs: `pending_block`)


class KStackParser(ScopeParser):
    """events of a method body of an `impl` whose field `field` is a stack of enum values `enum::Kind …`:
    ('push', Kind) ('pop', Kind) ('top', Kind) ('empty',) ('call', name) + the control flow of ScopeParser.
    `recv` is the receiver the events are collected for (`self`, or a local such as `sub`)."""

    def __init__(self, recv, fn_names, field, enum, strict=True):
        self.var, self.fn_names, self.strict = recv, fn_names, strict
        self.field, self.enum = field, enum
        v, f = re.escape(recv), re.escape(field)
        acc = r"\b%s\s*\.\s*%s\b" % (v, f)
        alts = [
            ("kpush", acc + r"\s*\.\s*push\s*\(\s*%s\s*::\s*(?P<pk>\w+)" % re.escape(enum)),
            ("kpop", acc + r"\s*\.\s*(?P<pm>pop|last_mut|last)\s*\(\s*\)"),
            ("kempty", r"\bassert!\s*\(\s*" + acc + r"\s*\.\s*is_empty\s*\(\s*\)\s*\)"),
            ("kscan", acc + r"\s*\.\s*(?:iter|iter_mut|len|is_empty)\s*\(\s*\)"),
            ("ktake", r"mem\s*::\s*take\s*\(\s*&\s*mut\s+" + acc + r"\s*\)"),
            ("field", acc),
            ("if", r"\bif\b"),
            ("match", r"\bmatch\b"),
            ("for", r"\bfor\b"),
            ("unsupported", r"\b(?:while|loop|return|break|continue)\b|\?\s*[;.)]"),
            ("closure", r"(?:(?<=[(,=])|\bmove)\s*\|"),
            ("call", r"\b%s\s*\.\s*(?P<cn>%s)\s*\(" % (v, "|".join(map(re.escape, fn_names))) if fn_names else r"(?!x)x"),
            ("block", r"\{"),
        ]
        self.rx = re.compile("|".join("(?P<%s>%s)" % (n, p) for n, p in alts))
        self.arm_patterns = []

    def seq(self, s, i, end):
        ev = []
        while i < end:
            m = self.rx.search(s, i, end)
            if not m:
                break
            kind = m.lastgroup
            if kind == "kpush":
                ev.append(("push", m.group("pk")))
                # the pushed value's fields are plain expressions
                i = m.end()
            elif kind == "kpop":
                what = "pop" if m.group("pm") == "pop" else "top"
                e = re.escape(self.enum)
                # the expected kind: `if let Some(… Enum::Kind …) = <here>` or `match <here> { Some(Enum::Kind …) => …`
                back = s[max(0, m.start() - 400):m.start()]
                b = None
                for cand in re.finditer(r"\bif\s+let\s+Some\s*\(\s*(?:&\s*mut\s+|&\s*)?%s\s*::\s*(\w+)" % e, back):
                    tail = back[cand.end():]
                    if ";" not in tail and re.search(r"=\s*$", tail):
                        b = cand
                fwd = re.match(r"\s*\{\s*Some\s*\(\s*(?:&\s*mut\s+|&\s*)?%s\s*::\s*(\w+)" % e, s[m.end():m.end() + 200])
                k = b.group(1) if b else (fwd.group(1) if fwd else None)
                if k is None:
                    raise Unsupported(f"`{self.field}.{m.group('pm')}()` whose expected kind is not syntactically evident")
                ev.append((what, k))
                i = m.end()
            elif kind == "kempty":
                ev.append(("empty",))
                i = m.end()
            elif kind in ("kscan", "ktake"):
                i = m.end()
            elif kind == "field":
                raise Unsupported(f"access to `{self.field}` that is neither push, pop, last, iter nor the final assert")
            elif kind == "call":
                close = match_close(s, m.end() - 1, "(", ")")
                ev.extend(self.seq(s, m.end(), close - 1))
                ev.append(("call", m.group("cn")))
                i = close
            elif kind == "unsupported" and not self.strict:
                i = m.end()
            elif kind == "unsupported" and m.group(0).strip() == "return":
                # `return;` / `return expr;`: the rest of the path is cut (see eliminate_returns)
                e2 = _expr_end(s, m.end(), end, stops=";")
                ev.extend(self.seq(s, m.end(), e2))
                ev.append(("ret",))
                i = e2
            elif kind == "unsupported":
                raise Unsupported("control flow `%s` in a function that touches `%s`" % (m.group(0).strip(), self.field))
            elif kind == "block":
                close = match_close(s, m.start())
                ev.extend(self.seq(s, m.start() + 1, close - 1))
                i = close
            elif kind == "closure":
                j = s.index("|", m.start())
                k = s.index("|", j + 1)
                b = _skip_ws(s, k + 1, end)
                if b < end and s[b] == "{":
                    close = match_close(s, b)
                    body = self._loop_body(s, b + 1, close - 1)
                    i = close
                else:
                    e2 = _expr_end(s, b, end)
                    body = self._loop_body(s, b, e2)
                    i = e2
                if body:
                    ev.append(("loop", body))
            elif kind == "for":
                b = _head_end(s, m.end(), end)
                head = s[m.end():b]
                k = re.search(r"\bin\b", head)
                if not k:
                    raise Unsupported("for without in")
                ev.extend(self.seq(s, m.end() + k.end(), b))
                close = match_close(s, b)
                body = self._loop_body(s, b + 1, close - 1)
                if body:
                    ev.append(("loop", body))
                i = close
            elif kind == "if":
                alts, i = self._if(s, m.end(), end, ev)
                if any(alts):
                    ev.append(("branch", alts))
            elif kind == "match":
                b = _head_end(s, m.end(), end)
                ev.extend(self.seq(s, m.end(), b))
                close = match_close(s, b)
                arms = self._arms(s, b + 1, close - 1)
                if any(arms):
                    ev.append(("branch", arms))
                i = close
        return ev


def _kstack_loop_body(self, s, i, end):
    """a loop body: `break` / `continue` / `return` are fine when the body neither touches the stack nor calls a
    function that does (`self.touching`); otherwise the body is parsed strictly"""
    if self.strict:
        lenient = KStackParser(self.var, self.fn_names, self.field, self.enum, strict=False)
        body = lenient.seq(s, i, end)
        if not kstack_has_ops(body) and not (kstack_calls(body) & getattr(self, "touching", set())):
            return body
    return self.seq(s, i, end)


KStackParser._loop_body = _kstack_loop_body


def eliminate_returns(ev, k=None):
    """rewrite early returns structurally: a `return` cuts the rest of the path, so the continuation of a
    branch one of whose arms returns is moved into the arms (`if c { A; return; } REST` becomes
    `if c { A } else { REST }`); returns inside loops that touch the stack are not supported"""
    k = k or []
    if not ev:
        return list(k)
    e, rest = ev[0], ev[1:]
    if e[0] == "ret":
        if rest:
            raise Unsupported("code after `return` in the same block")
        return []
    if e[0] == "loop":
        if _has_ret(e[1]):
            raise Unsupported("`return` inside a loop that touches the stack")
        return [e] + eliminate_returns(rest, k)
    if e[0] == "branch" and any(_has_ret(a) for a in e[1]):
        cont = eliminate_returns(rest, k)
        return [("branch", [eliminate_returns(a, cont) for a in e[1]])]
    return [e] + eliminate_returns(rest, k)


def _has_ret(ev):
    for e in ev:
        if e[0] == "ret":
            return True
        if e[0] == "branch" and any(_has_ret(a) for a in e[1]):
            return True
        if e[0] == "loop" and _has_ret(e[1]):
            return True
    return False


def kstack_has_ops(ev):
    for e in ev:
        if e[0] in ("push", "pop", "top", "empty"):
            return True
        if e[0] == "branch" and any(kstack_has_ops(a) for a in e[1]):
            return True
        if e[0] == "loop" and kstack_has_ops(e[1]):
            return True
    return False


def kstack_calls(ev):
    out = set()
    for e in ev:
        if e[0] == "call":
            out.add(e[1])
        elif e[0] == "branch":
            for a in e[1]:
                out |= kstack_calls(a)
        elif e[0] == "loop":
            out |= kstack_calls(e[1])
    return out
