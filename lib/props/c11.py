"""C11 — run-time recursion is cut off by the recursion limit, never by the stack (DESIGN.md §3 C11).

Proof of the depth *accounting* (Lean, `MJ.Props.C11`), tied to /repo by regenerated tables (edge
costs, re-entry sites and their guards, depth check, limit clamp) and by a differential run of
recursive program shapes (model-predicted outcome and high-water marks vs the hook's).  The native
stack *bytes* per level are measured on every run, not proved."""
import json, os, re, collections, threading
import common
from common import REPO

READY = True

META = {
    "technique": "Lean 4 proof of the depth accounting of every native re-entry of the interpreter (weighted nesting <= limit for all traces incl. traces with Rust callbacks between the re-entries, exits restore the depth, decidable stack budget) + regenerated cost/site/exit-path tables, re-entry call graph of the whole crate with the charge of every edge, frame-size relevant declarations of eval_impl + differential runs of recursive program shapes in child processes: an instrumented build (verif_hooks: high-water marks, depth probes) for the accounting, builds WITHOUT hooks (opt-0 debug, opt-1 debug, release; 2 MiB threads and main thread) for the stack, with measured stack bytes per level; session 4: the charge of every edge recomputed from the regenerated ARGUMENTS of every push_frame/incr_depth/decr_depth call and proved independent of output/auto-escape/undefined mode/capture depth/fuel, the ambient configuration as a generator axis, the empty state, renders nested by Rust callbacks and the stacker configuration inside the model, the deepest leaf call of every builtin measured and part of the budget, C11_statement / C11_main",
    "category": "proof",
    "text": "PARTIAL by nature. Kernel-checked (44 obligations; the 8 of session 4 first): edge_cost_state_independent - `enterA amb`, the re-entry computed from the regenerated cost expressions (table C11_COST_ARGS: every push_frame / incr_depth / decr_depth call of the crate outside Context, its argument term by term: constant / frame / caller's depth / opaque) evaluated in an ambient state (output discarding, capture depth, auto-escape, undefined mode, fuel, any other expression), is the same in any two ambient states for every accounting state and kind (proved from `every term is closed` alone, whatever the constants), IS the model's `enter` with the current constants, and a completed include releases what it charged; cost_sites_unconditional - the regenerated list of conditions (if / match headers, match arms; loops and closures listed) enclosing each depth operation is the expected one and none of their identifiers reads the ambient state; empty_state_accounting - from Template::new_state() (context without frame, no root activation) every re-entry is charged from depth 0: weighted nesting and native activations <= limit, leave restores, no panic (ReachE / Inv0: the whole invariant proof redone for the rootless chain); nested_renders_bounded - a render started by a Rust callback inside a render is a root (depth 1, own limit), every render on the native stack keeps the single-render invariant, R renders with limits <= M: weighted nesting <= R x M, activations <= R x max M 1, bytes <= rho x R x M (the library does not bound R: outside the property); stacker_configuration - with the feature the limit expression is `level` (regenerated), the accounting theorems hold for any limit, and if stackerOK (activation + H callback frames + deepest leaf <= red zone of stacker::maybe_grow, regenerated 32 KiB / 1 MiB segment, one site around eval_impl) then every activation finds its frame free at any nesting; stack_budget_holds_leaf - stack_budget_holds with the deepest leaf call on top; C11_statement (the property as stated over all traces of re-entries / frames / missing includes / Rust callbacks: no panic, stack in use < stack, unbounded recursion ends with the recursion error, limit <= MAX) and C11_main: C11_statement from the named hypotheses h_budget (budgetLeafOK on the measured bytes: VALIDATED every run by the driver) and h_kinds (re-entries only of kinds P = those that are not known findings); C11_main_accounting: the accounting half without any hypothesis. The earlier 36: in the model of Context::{push_frame,incr_depth,decr_depth,check_depth,restore_stack_depth} and of the native re-entries of eval_impl (macro call, caller(), include/import, block call/self.x()/State::render_block, super()) every re-entry first passes a checked depth increase of its edge cost (macro MACRO_RECURSION_COST+2, include INCLUDE_RECURSION_COST, block/super 1; constants regenerated from source); returning, failing at any nesting depth below, and not finding a template all leave the caller's depth exactly as it was, without panic (leave_restores_context, failed_include_depth_restored, missing_include_depth_neutral); the sum of edge costs over the native nesting is <= the limit in every reachable state for every mixture of edges; nested activations <= limit; a run with >= limit pending re-entries cannot return ok and fails at the first attempt that does not fit; set_recursion_limit clamps to MAX_RECURSION=500. every_reentry_charged: in the regenerated call graph of the crate (every function from which eval_impl is reachable by static calls) the loop and its trampolines are called only by the four guarded functions (charges 6/10/1/1 computed from the source expressions = the model's costs) and by the root Executor::eval; wrappers (State::render_block, render_block_to_write, Macro::call, Template::render*, Expression::eval) and every function that hands the State to a callback (Value::call, call_method, State::call_macro/apply_filter/perform_test, builtin map/select) contain no depth operation (callbacks_depth_neutral); the seven functions of the crate that adjust a depth at all are tabled (depth_ops_confined); rust_callbacks_transparent: a trace with Rust callback frames between the depth events ends exactly like its depth events, so a recursion through Rust is charged on top of the depth the callback found; stack_budget_holds: if the decidable check budgetOK (entry overhead + MAX_RECURSION x max over the kinds P of ceil((bytes(kind) + H x callback bytes) / cost(kind)) < stack) is true for measured bytes, no mixture of re-entries of kinds P with <= H callbacks nested per activation overflows at any limit up to the default - the driver evaluates this very function on every run's two-limit measurements (limit 100 and 500, main thread, every pure cycle) for each build profile, 2 MiB and 8 MiB, and the result must be true for the kinds that are not known findings; frame_constants_tied: parameters, locals, fixed-size arrays (2 x MAX_LOCALS x 8 bytes) and inline attributes of eval_impl/vm are the regenerated ones, arrays x MAX_RECURSION within a quarter of 2 MiB, no measured frame smaller than its arrays. Tie: tables regenerated from vm/mod.rs, vm/context.rs, environment.rs, compiler/parser.rs (re-entry sites with guards, exit paths of perform_include, every site of the crate that creates a Context/State or raises the depth - each classified root/constructor/guarded -, depth check, limit source, clamp) and ~13000 (quick) recursive shapes per build: cycles over include/import/macro/call-block/block/super/recursive-loop edges and over edges that pass through Rust (State::call_macro/render_block/apply_filter/perform_test, Value::call/call_method, Rust filters/tests via map/select/filter blocks, nested call blocks), depth-neutral noise on every frame between depth probes, 1000-iteration drift loops, limits 0..usize::MAX, cloned environments, render/render_captured/render_captured_to/render_named_str/new_state entry points: mixed cycles over nodes that exist as macro and as block, reached through Rust callbacks (function / filter / test / object call / call_method -> State::render_block, render_block_to_write, call_macro, Value::call; through State::apply_filter / perform_test / builtin map / select), include lists with missing candidates / ignore missing / from-import on the cycle, Environment::empty() and the unconfigured default limit, super() 1000 times between depth probes: model-predicted outcome, high-water marks of ctx.depth()/nested eval_impl and of the callback frames on the stack equal the observed ones; model-free oracle: a recursion with more nested steps than the limit has units never completes. NOT proved: native stack bytes per re-entry and per parser level; measured each run on builds without hooks and reported. Known findings (same two causes): block calls/super() cost 1 depth unit per ~13.7 KB (opt-0) native re-entry (in the release profile a block re-entered through State::render_block under filter/test/object callbacks needs 4.3-5.1 KB per level: over 2 MiB at the default limit), and a loader-provided template is compiled on top of the running recursion with the parser's separate 150-level budget (C11_lazy_counterexample); see KNOWN_FINDINGS.jsonl.",
    "design_ref": "DESIGN.md §3 C11",
    "level_note": "MOVED FROM VALIDATED TO PROVED in session 4 (the session-3 worker's uncommitted work was lost; redone): (1) that the charge of an edge does not depend on output state / auto-escape / undefined behaviour / capture depth / fuel was only exercised by a few shapes (filter / set blocks, from-import): now edge_cost_state_independent over the regenerated argument table C11_COST_ARGS + cost_sites_unconditional over the regenerated enclosing conditions, AND the ambient configuration is a generator axis of every stream (tokens ubs / ubc / ubl / fuel / aeh on every shape x limit, all five x every pure cycle); (2) the empty-state entry was a shift argument in the driver: now empty_state_accounting in the model (the driver still predicts by the shift; the theorem states the bounds directly); (3) Rust callbacks that start a fresh render were `classified as roots`: now nested_renders_bounded (fresh budget, product bound) + the stream `nest<R>` (the program inside R-1 renders started by a Rust function: same outcome and depth marks, R-1 more native activations); (4) the `stacker` feature was an assumption: now stacker_configuration over the regenerated table C11_STACKER + a stream on a build WITH the feature (release, no hooks; limits 500 / 2000 / 3000: outcome equals the model with the UNCLAMPED limit; children that die above the default limit are counted, not reported: a lazily compiled template at depth overflows there because the parser's recursion is not under maybe_grow - observation, outside the property's quantifier); (5) stack use of filters / tests / functions at the bottom was not covered: now every builtin of the regenerated name table C11_BUILTINS (89) is applied to a probing object that reports the stack pointer from its callbacks, the deepest excursion below a plain function call is the `leaf` of budgetLeafOK (stack_budget_holds_leaf), which is the obligation the driver evaluates (STILL MEASURED: the number itself; builtins that recurse without touching the object are not seen). Also repaired: the extractor did not strip `cfg(all(feature = \"verif_hooks\", ..))` statements (C18 hooks in Context::push_frame / pop_frame made pushFrameChecked false) and listed callees in set-iteration order (Tables.lean differed from run to run). The stack bytes per re-entry are MEASURED, NOT PROVED: the theorems bound the number and weighted sum of nested interpreter activations by the recursion limit for every mixture of edges; that this bound keeps the native stack below 2 MiB depends on compiler, profile and target and is only observed (child processes must not die by signal; bytes/level per edge kind and the margin 500 x max(bytes/cost) vs 2 MiB are in the evidence). The stack oracle (no death by signal) runs on builds of the crate WITHOUT verif_hooks; the instrumented build has larger frames and its overflows are only counted. Trusted: Lean kernel; hand models MJ/Model/Depth.lean, MJ/Model/DepthHop.lean of context.rs/vm re-entry bookkeeping and of callback frames (validated differentially: outcome, depth and nesting high-water marks equal on all generated shapes); regex translator lib/tables/c11.py; the verif_hooks counters. Not covered: how many renders an embedder's callbacks nest (R of nested_renders_bounded is unbounded by the library), leaf calls that recurse without calling into the probing object, user filters / objects other than the harness's, the segment allocation of `stacker` itself (trusted crate), platforms other than this x86-64 Linux toolchain. C11_main's hypotheses: h_budget VALIDATED per run (false for block / super kinds in the profiles of the known findings), h_kinds by choice of P; model = code validated differentially.",
}

TABLES = ["MACRO_RECURSION_COST", "INCLUDE_RECURSION_COST", "MAX_RECURSION_ENV", "C11_REENTRY_SITES",
          "C11_DEPTH_CHECK", "C11_LIMIT_CLAMP", "C11_INCLUDE_EXITS", "C11_DECR_DEPTH", "C11_CONTEXT_SITES", "C11_LIMIT_SOURCE", "C11_CONTEXT_HELPERS",
          "MAX_RECURSION_PARSER", "C11_CHARGES", "C11_FRAME", "C11_ENV_LIMITS", "MAX_LOCALS",
          "C11_COST_ARGS", "C11_STACKER", "C11_BUILTINS"]
EIGHT_MIB = 8 << 20
TWO_MIB = 2 << 20
NOISE_NAME = {"d": "lazy-load-deep-expr", "e": "lazy-load-deep-ast", "f": "lazy-load-deep-stmts", "g": "swallowed-lazy-syntax-error",
              "h": "swallowed-lazy-parser-limit", "0": "none", "1": "include-missing", "2": "include-missing-list", "3": "include", "4": "import", "5": "from-import",
              "6": "macro-call", "7": "call-block", "8": "with-for", "9": "render_block", "a": "call_macro",
              "b": "swallowed-missing-include", "c": "swallowed-failing-include", "i": "super", "j": "captured-super"}
CLASS = {"B": "block-cycle(self.block/super/render_block)", "S": "super-chain", "T": "include-cycle",
         "M": "macro-cycle", "L": "recursive-loop", "N": "depth-neutral-loop"}
CYCLES = "TMBX"
# a block re-entered through State::render_block from below a filter / test / object callback
# (also via State::apply_filter / perform_test / the builtin map / select): same charge of one unit
# per level as any block call, more native stack per level
CLASS_BX = "block-cycle(render_block under filter/test/object callbacks)"


def self_terminating(shape):
    """below a `{% from … import … %}` the output is discarded and `{% block %}` statements do nothing:
    an include cycle that passes a from-import and then relies on a block statement to go on ends by
    itself (no recursion to cut)"""
    if shape[0] != "T":
        return False
    edges = shape[2:].split(",")
    if not any(e[0] == "F" for e in edges):
        return False
    # the innermost capture discards: set by from-import, cleared by every capturing construct on
    # the way (filter / set block around the step, import, loop(…), macro, call block)
    disc = False
    for t in range(3 * len(edges) + 1):
        e = edges[t % len(edges)]
        if disc and e[0] == "E":
            return True
        dnode = disc and e[3] not in "23"
        if dnode and e[0] == "B":
            return True
        disc = e[0] == "F" or (dnode and e[0] not in "PLWKY")
    return False


def class_of(shape):
    """what a failure of the shape is attributed to: the family, for the mixed family the cheapest
    edge on the cycle (a block call is charged one unit, a macro call six)"""
    fam = shape[0]
    if fam == "X":
        kinds = [e[0] for e in shape[2:].split(",")]
        if any(k in "ftguposh" for k in kinds):
            return CLASS_BX
        return CLASS["B"] if any(k.islower() for k in kinds) else CLASS["M"]
    return CLASS.get(fam, fam)


# Rust callbacks between the template code and the re-entry, per edge kind of the pure cycles
HOPS_OF = {"M:Q": 1, "M:O": 1, "M:H": 1, "M:F": 2, "M:E": 2, "M:G": 2, "M:U": 2, "M:D": 1, "B:R": 1,
           "X:r": 1, "X:w": 1, "X:f": 1, "X:t": 1, "X:o": 1, "X:h": 1, "X:g": 2, "X:u": 2, "X:p": 2, "X:s": 2,
           "X:Q": 1, "X:O": 1, "X:F": 1, "X:T": 1, "X:G": 2, "X:P": 2}
# pure cycles whose every native re-entry is of one model kind, without callbacks
PLAIN_OF = {"macroCall": ["M:M", "M:A", "X:M"], "includeTpl": ["T:I", "T:P", "T:X", "T:Z", "T:V", "T:F"],
            "blockCall": ["B:B", "B:V", "X:b"], "superCall": ["S:super()"]}
KIND_OF_HOP = {"M": "macroCall", "B": "blockCall"}


# build profiles: `hooks` = minijinja with feature verif_hooks (high-water marks, depth probes: the
# accounting correspondence); the others are built with `--no-default-features` of the harness
# package, i.e. minijinja WITHOUT verif_hooks — the crate as users compile it — and carry the stack
# oracle (the instrumentation enlarges the interpreter's frames, so an overflow of the instrumented
# build alone says nothing about the property).
PROFILES = {
    "hooks": dict(hooks=True, opt0=False, release=False, tiers=("quick", "thorough")),
    "debugO0": dict(hooks=False, opt0=True, release=False, tiers=("quick", "thorough")),
    "release": dict(hooks=False, opt0=False, release=True, tiers=("quick", "thorough")),
    "debug": dict(hooks=False, opt0=False, release=False, tiers=("thorough",)),
    "hooksO0": dict(hooks=True, opt0=True, release=False, tiers=("thorough",)),
    # minijinja with the `stacker` feature (release, no hooks): its own stream, see stacker_stream
    "stacker": dict(hooks=False, opt0=False, release=True, tiers=(), stacker=True),
}
LAZY = "defgh"
AMBIENT = {"ubs": "undefined=strict", "ubc": "undefined=chainable", "ubl": "undefined=semi-strict", "fuel": "fuel on", "aeh": "auto-escape html"}
ROOT_KIND = {"m": "map", "u": "unit ()", "x": "Value::UNDEFINED", "o": "custom Object", "e": "context!{}", "s": "serialized struct"}


def build_variant(r, name):
    """one build of harness bin c11; own target dirs so that the variants do not evict each other.
    opt0: unoptimised debug build (what `cargo build`/`cargo test` give a user; the harness profile
    has opt-level 1, overridden through the environment)"""
    p = PROFILES[name]
    if p["hooks"] and not p["opt0"] and not p["release"]:
        return r.cargo_build("c11")
    env = dict(common.ENV)
    cmd = ["cargo", "build", "--offline", "--bin", "c11"]
    target = common.CARGO_TARGET + "-c11" + ("" if p["hooks"] else "-nohooks") + ("-O0" if p["opt0"] else "") + ("-stacker" if p.get("stacker") else "")
    if not p["hooks"]:
        cmd.append("--no-default-features")
    if p.get("stacker"):
        cmd += ["--features", "minijinja/stacker"]
    if p["release"]:
        cmd.append("--release")
    if p["opt0"]:
        env["CARGO_PROFILE_DEV_OPT_LEVEL"] = "0"
    env["CARGO_TARGET_DIR"] = target
    rc, out, err = common.sh(cmd, cwd=common.HARNESS, timeout=3000, env=env)
    if rc != 0:
        r.log(f"cargo build ({name}) FAILED:\n" + err[-3000:])
        r.broken.append(f"harness c11 ({name}) does not build against /repo's current tree: "
                        + " | ".join(re.findall(r"^error.*", err, re.M)[:3]))
        return None
    return os.path.join(target, "release" if p["release"] else "debug", "c11")


def builds(r):
    """profile name -> executable; built concurrently"""
    names = [n for n, p in PROFILES.items() if r.tier in p["tiers"]]
    res = {}

    def work(name):
        res[name] = build_variant(r, name)
    ts = [threading.Thread(target=work, args=(n,)) for n in names]
    for t in ts:
        t.start()
    for t in ts:
        t.join()
    return {n: res.get(n) for n in names}


def parse_case(case):
    shape, limit, budget, thread = case.split(" ")
    return shape, int(limit), int(budget), thread


def is_lazy(shape):
    fam = shape[0]
    if fam in CYCLES:
        return any(e[4] in LAZY for e in shape[2:].split(","))
    return fam == "N" and shape[3] in LAZY


def evaluate(r, profile, lines, model, stats, max_recursion, band_start=None):
    hooks = PROFILES[profile]["hooks"]
    for i, line in enumerate(lines):
        f = line.split("\t")
        if len(f) != 10:
            r.broken.append(f"harness line not understood ({profile}): {line[:120]}")
            continue
        case, status, hwd, hwn, topk, rootk, nbytes, over, drift, hops = f
        shape, limit, budget, thread = parse_case(case)
        thread_base, _, mode = thread.partition("+")
        fam = shape[0]
        cls = class_of(shape)
        # a template compiled lazily on top of the recursion is a second consumer of native stack
        # (a block re-entered under filter/test/object callbacks is already beyond the budget by
        # itself in the profiles where it fails: one site with or without a lazy compile on top)
        site_cls = f"lazy-parse-at-depth/{cls}" if is_lazy(shape) and cls != CLASS_BX else cls
        hwd, hwn, nbytes, over, hops = int(hwd), int(hwn), int(nbytes), int(over), int(hops)
        full = f"{profile} {case}"
        ms = md = mn = mh = None
        if model is not None:
            mf = model[i].split("\t")
            mc, ms, md, mn = mf[:4]
            md, mn = int(md), int(mn)
            mh = int(mf[5]) if fam == "X" and len(mf) > 5 else None
            if mc != case:
                r.broken.append("model driver output does not line up with the harness cases")
                model, ms = None, None
        depth_seen = hwd if hooks else (md or 0)
        r.count(full, nontrivial=(depth_seen >= 3 or status.startswith("signal")))
        r.hist["profile"][profile] += 1
        r.hist["family"][CLASS.get(fam, "mixed-cycle(macros and blocks through Rust callbacks)" if fam == "X" else fam)] += 1
        r.hist["configuration"]["+".join(t for t in mode.split("+") if t in ("empty", "deflimit", "clone")) or "Environment::new()+set_recursion_limit"] += 1
        r.hist["status"][status.split(":")[0] + (":" + status.split(":")[1] if status.startswith("err") else "")] += 1
        r.hist["limit"][limit] += 1
        r.hist["thread"][thread_base] += 1
        toks = [t for t in mode.split("+") if t]
        nest = next((int(t[4:]) for t in toks if t.startswith("nest") and t[4:].isdigit()), 1)
        r.hist["ambient_configuration"]["+".join(AMBIENT[t] for t in toks if t in AMBIENT) or "default (lenient, no fuel, auto-escape by name)"] += 1
        r.hist["renders_nested_by_rust_callbacks"][nest] += 1
        toks = [t for t in toks if t not in AMBIENT and not t.startswith("nest")]
        r.hist["entry_point"]["+".join(t for t in toks if not (len(t) == 2 and t[0] == "r") and t not in ("empty", "deflimit")) or "render"] += 1
        r.hist["root_context_kind"][next((ROOT_KIND.get(t[1], t) for t in toks if len(t) == 2 and t[0] == "r"), "map")] += 1
        mode = "+".join(t for t in toks if not (len(t) == 2 and t[0] == "r"))
        r.hist["top_error_kind"][topk] += 1
        if fam in CYCLES:
            for e in shape[2:].split(","):
                r.hist["edge"][fam + ":" + e[0]] += 1
                r.hist["noise_on_frame"][NOISE_NAME.get(e[4], e[4])] += 1
            r.hist["cycle_len"][len(shape[2:].split(","))] += 1
        elif fam == "N":
            r.hist["noise_loop"][shape[2] + ":" + NOISE_NAME.get(shape[3], shape[3])] += 1
        bound = max(min(limit, max_recursion), 1)   # set_recursion_limit clamps to MAX_RECURSION
        crashed = status.startswith(("signal", "exit", "panic"))
        # ---------------------------------------------------------------- oracle (the property)
        if crashed and hooks:
            # the instrumented interpreter has larger frames: not evidence about the real crate
            r.hist["overflow_of_instrumented_build_only_counted"][f"{profile}:{thread_base}:{site_cls}"] += 1
        elif status.startswith("panic"):
            r.oracle_failure(full, f"the recursive render panicked: {status}", f"panic:{profile}:{site_cls}")
        elif crashed:
            r.oracle_failure(full, f"child did not survive the recursive render: {status} (native stack overflow) instead of 'recursion limit exceeded'",
                             f"stack-overflow:{profile}:{thread_base}:{site_cls}")
        else:
            if status.startswith("err:other") or status.startswith("bad-case"):
                r.oracle_failure(full, f"recursive render failed with {status}, not with the recursion error", f"wrong-error:{cls}")
            if budget == 0 and fam in CYCLES and status != "err:recursion" and not self_terminating(shape):
                r.oracle_failure(full, f"unbounded recursion returned {status}", f"unbounded-recursion-not-cut:{cls}")
            # model-free: every nested step of a recursion is charged at least one unit, so a
            # recursion with more nested steps than the limit has units cannot complete
            steps = budget if fam in CYCLES else (int(shape.split(":")[1]) if fam in "SL" else 0)
            if steps > bound + 1 and status == "ok" and not self_terminating(shape):
                r.oracle_failure(full, f"a recursion of {steps} nested steps completed at recursion limit {bound}: "
                                       f"the limit was not applied", f"over-limit-recursion-not-cut:{cls}")
            if fam == "X" and mh is not None and ms is not None and hops != mh:
                r.model_disagreement(full, f"{status} callbacks on the stack={hops}", f"{ms} callbacks={mh}")
            if hooks and drift != "-":
                kind = drift.split(":")[0]
                r.oracle_failure(full, f"Context::depth() is not restored by a completed nested construct ({drift}): every completed "
                                       f"include/import/macro/block/with/for must leave the depth as it found it, or the limit does not bound the nesting",
                                 f"depth-not-restored:{kind}")
            if hooks and (hwn - (nest - 1) > bound or hwd > bound):
                r.oracle_failure(full, f"high-water marks exceed the limit {limit}: depth {hwd}, nested eval_impl {hwn}", f"high-water-exceeds-limit:{cls}")
        # finite recursions placed around the cut-off of the accounting: exactly those the limit admits succeed
        in_band = band_start is not None and i >= band_start
        if in_band:
            r.hist["cut_off_band"][f"{status.split(':')[0]}/{(ms or '?').split(':')[0]}"] += 1
            if ms is not None and not crashed and {status, ms} == {"ok", "err:recursion"}:
                r.oracle_failure(full, f"a finite recursion of {budget} steps at limit {limit} returned {status}; with the documented edge costs "
                                       f"the limit {'does not admit' if ms != 'ok' else 'admits'} it (cut-off shifted)", f"cut-off-shifted:{cls}")
        # ---------------------------------------------------------------- correspondence
        if ms is not None and not crashed:
            # every render a Rust function starts around the program is one more interpreter activation
            # on the native stack and a root of its own: nothing else changes
            if hooks and (status, hwd, hwn) != (ms, md, mn + nest - 1):
                r.model_disagreement(full, f"{status} depth={hwd} native={hwn}", f"{ms} depth={md} native={mn + nest - 1}" + (f" ({nest} renders)" if nest > 1 else ""))
            elif not hooks and status != ms:
                r.model_disagreement(full, status, ms)
        # ---------------------------------------------------------------- measurements
        st = stats[profile]
        if hooks and fam == "N" and shape[2] == "t" and limit == 500 and thread_base == "t2m" and not crashed:
            st["lazy"][shape[3]] = nbytes
        if hooks:
            dd, nn = hwd, hwn
        else:
            dd, nn = (md or 0), (mn or 0)
        if not crashed and budget == 0 and dd >= (50 if hooks else 400) and nbytes > 0 and fam != "N" and not is_lazy(shape) and not mode and nest == 1:
            key = shape[:-1] if ("," not in shape and shape.endswith("0000")) else f"({fam}: mixed/with work/noise)"
            if fam == "S":
                key = "S:super()"
            per_unit = nbytes / (dd - 1)
            per_level = nbytes / max(nn - 1, 1)
            e = st["kinds"].setdefault(key, {"bytes_per_depth_unit": 0.0, "bytes_per_level": 0.0, "class": cls})
            e["bytes_per_depth_unit"] = max(e["bytes_per_depth_unit"], round(per_unit, 1))
            e["bytes_per_level"] = max(e["bytes_per_level"], round(per_level, 1))
            c = st["classes"].setdefault(cls, {"max_bytes_per_depth_unit": 0.0, "max_bytes_seen": 0, "witness": ""})
            if per_unit > c["max_bytes_per_depth_unit"]:
                c["max_bytes_per_depth_unit"] = round(per_unit, 1)
                c["witness"] = case
            c["max_bytes_seen"] = max(c["max_bytes_seen"], nbytes)
            st["overhead"] = max(st["overhead"], over)
        # points for the two-limit slopes: pure cycles without work / noise and super chains, main
        # thread (8 MiB: also the kinds that do not fit 2 MiB at the default limit), builds without hooks
        if (not hooks and not crashed and budget == 0 and thread == "main" and nbytes > 0 and nn >= 2
                and ((fam in CYCLES and "," not in shape and shape.endswith("0000")) or (fam == "S" and shape.endswith(":0")))):
            key = shape[:3] if fam in CYCLES else "S:super()"
            cur = st["points"].setdefault(key, {}).get(limit)
            if cur is None or nn > cur[2]:
                st["points"][key][limit] = (nbytes, dd, nn, case)
        if i % 797 == 0:
            r.sample({"case": full, "result": status, "hw_depth": hwd, "hw_native": hwn, "stack_bytes": nbytes})


def run(r):
    r.rule = ("recursive program shapes: pure cycles of every edge kind (macro, macro with args, call block/caller, include, import, "
              "include through a macro / call block / block / recursive loop, self.block(), captured self.block(), State::render_block, "
              "block through macro, super() inside a block cycle), the same with frame-local work (0..2 with frames, 0..2 for frames, "
              "filters/set/filter blocks), every edge kind x every depth-neutral noise statement on its frame (include that finds nothing - single "
              "and list -, include/import/from-import of a tiny template, macro call, call block, with/for, State::render_block and "
              "State::call_macro from a function, failing includes whose error a callback swallows) between two depth probes, random mixed "
              "cycles of length 2..4 per family with noise on every frame, every noise statement 1000 times in a loop at top level / inside an "
              "include / macro / block / include-in-macro, super() chains and recursive for-loops over "
              "nested data below/at/above the limit; x limits {1,2,10,100,500} (thorough: 1..500 step 7) x {main thread, 2 MiB thread} "
              "x unbounded / two terminating budgets (and budgets above the limit) x build profiles; mixed cycles X over macro/block nodes "
              "through Rust callbacks (19 edge kinds); include lists / ignore missing / from-import edges; Environment::empty() and the "
              "unconfigured default limit; super() between depth probes; the ambient configuration (undefined behaviour strict / chainable / "
              "semi-strict, fuel tracking on, auto-escape html) rotating over every shape x limit and all of it x every pure cycle; every pure "
              "cycle inside 2..4 renders nested by a Rust function; on a build WITH the `stacker` feature every pure cycle, super chains and "
              "recursive loops at limits 500 / 2000 / 3000; every builtin filter / test / function on a probing object (leaf stack); "
              "each case in a child process. A case is non-trivial when the "
              "run reaches Context::depth() >= 3 (or dies).")
    r.assumptions = [
        "stack bytes per re-entry are measured on this toolchain/target, not proved",
        "a lazily loaded template is compiled on top of the recursion with the parser's own, separate recursion budget",
        "the kind of the root context value (map, (), undefined, object, empty context!, serialized struct) does not enter the accounting (checked on every stream)",
        "frame pushes/pops inside one interpreter activation are balanced (compiled code; C05)",
        "templates only: a Rust callback that starts a fresh render does not inherit the depth",
        "Rust callbacks of the embedder re-enter only through the State API and nest at most H = 2 deep per interpreter activation (stack budget); their own frames are measured for the harness's callbacks",
        "builds without the `stacker` feature carry the stack oracle; the build with it is a stream of its own (limit not clamped; the property's limits are those up to the default)",
        "the deepest leaf call is the deepest one that reaches a callback of the probing object",
    ]
    st = r.regen_tables(TABLES)
    max_recursion = st["items"].get("MAX_RECURSION_ENV") or 500
    r.lean_prove("MJ.Props.C11", "MJ/Audit/C11.lean", extra_targets=["drive_c11"])
    # a broken table / proof / model tie is recorded in r.broken and the run goes on: the harness is
    # built and the oracle searches for a failing input in any case (correspondence only if the
    # model driver still builds)
    stk = {}
    stk_thread = threading.Thread(target=lambda: stk.__setitem__("exe", build_variant(r, "stacker")))
    stk_thread.start()
    exes = {p: e for p, e in builds(r).items() if e is not None}
    stk_thread.join()
    stats = {p: {"kinds": {}, "classes": {}, "overhead": 0, "lazy": {}, "points": {}} for p in exes}

    def drive(text):
        try:
            return r.driver("drive_c11", text)
        except Exception as e:   # the oracle must still run
            r.broken.append(f"model driver failed: {type(e).__name__}: {str(e)[:200]}")
            return None

    # phase 1: the enumerated cases on every build
    phase1, model, cases_text = {}, None, None
    gens = {}

    def gen(profile, exe):
        gens[profile] = r.harness(exe, ["gen", r.tier], timeout=3000)
    ts = [threading.Thread(target=gen, args=(p_, e_)) for p_, e_ in exes.items()]
    for t in ts:
        t.start()
    for t in ts:
        t.join()
    for profile, exe in exes.items():
        rc, out, err = gens[profile]
        if rc != 0:
            r.broken.append(f"harness c11 ({profile}) exited {rc}: {err[-300:]}")
            continue
        lines = out.splitlines()
        text = "\n".join(l.split("\t")[0] for l in lines) + "\n"
        if cases_text is None:
            cases_text = text
            model = drive(text)
            if model is None or len(model) != len(lines):
                r.broken.append("model driver output does not line up with the harness cases")
                model = None
        elif text != cases_text:
            r.broken.append(f"case enumeration differs between build profiles ({profile})")
            continue
        phase1[profile] = lines
    # phase 2: finite recursions around every cut-off the model computes (visit at which the unbounded
    # run of the shape ends): budgets cut-2 .. cut+2 must succeed / fail exactly as the accounting says
    band, band_model = [], None
    if model is not None:
        seen = set()
        for k, ml in enumerate(model):
            f = ml.split("\t")
            if len(f) < 5 or f[1] != "err:recursion":
                continue
            shape, limit, budget, thread = f[0].split(" ")
            if budget != "0" or shape[0] not in CYCLES or not thread.startswith("t2m") or int(limit) > max_recursion + 1:
                continue
            pure = "," not in shape
            plain = shape.endswith("0000")
            if r.tier == "quick" and ((not pure and k % 4 != 0) or (pure and not plain and k % 2 != 0)):
                continue
            if r.tier == "thorough" and not pure and k % 2 != 0:
                continue
            width = 2 if (pure and plain) else 1
            v = int(f[4])
            for b in range(max(1, v - width), v + width + 1):
                c = f"{shape} {limit} {b} {thread}"
                if c not in seen:
                    seen.add(c)
                    band.append(c)
        if band:
            band_model = drive("\n".join(band) + "\n")
            if band_model is None or len(band_model) != len(band):
                r.broken.append("model driver output does not line up with the cut-off band cases")
                band_model = None
    r.extra["cut_off_band_cases"] = len(band)
    bruns = {}

    def brun(profile):
        bruns[profile] = r.harness(exes[profile], ["run"], inp="\n".join(band) + "\n", timeout=3000)
    # the cut-off does not depend on the build: quick runs the band on the instrumented and the release build
    # (thorough: also on the unoptimised build; the other two profiles differ in frame sizes only)
    bprofiles = [p_ for p_ in phase1 if band and (p_ in ("hooks", "release") or (r.tier == "thorough" and p_ == "debugO0"))]
    ts = [threading.Thread(target=brun, args=(p_,)) for p_ in bprofiles]
    for t in ts:
        t.start()
    for t in ts:
        t.join()
    for profile, lines in phase1.items():
        blines = []
        if profile in bruns:
            rc, out, err = bruns[profile]
            if rc != 0 or len(out.splitlines()) != len(band):
                r.broken.append(f"harness c11 ({profile}) did not run the cut-off band: rc {rc}")
            else:
                blines = out.splitlines()
        m = None
        if model is not None:
            m = list(model) + (list(band_model) if (blines and band_model is not None) else [])
            if blines and band_model is None:
                m = None
        evaluate(r, profile, lines + blines, m, stats, max_recursion, band_start=len(lines))
    # ---------------------------------------------------------------- stack margin (measured)
    known_sites = {k.get("site") for k in r.known}
    report = {}
    for profile, s in stats.items():
        rows = {}
        if PROFILES[profile]["hooks"]:
            # the instrumented builds only contribute the parser's share: bytes of a lazily compiled
            # template with 140 guarded parser levels, relative to the include of a tiny template
            base = s["lazy"].get("3")
            lazy = {NOISE_NAME[k]: {"bytes": v, "parser_bytes": (v - base) if base else None,
                                    "per_parser_level_of_140": round((v - base) / 140, 1) if base and k == "d" else None}
                    for k, v in sorted(s["lazy"].items()) if k in LAZY}
            report[profile] = {"instrumented": True, "lazy_compile_at_top_level": lazy}
            continue
        for cls, c in s["classes"].items():
            projected = s["overhead"] + 500 * c["max_bytes_per_depth_unit"]
            margin = TWO_MIB - projected
            rows[cls] = dict(c, projected_bytes_at_limit_500=round(projected), margin_vs_2MiB=round(margin))
            site = f"stack-overflow:{profile}:t2m:{cls}"
            observed = any(f["site"] == site for f in r.oracle_failures) or any(f["site"] == site for _, f in r.known_hits)
            if margin < 0 and not observed and site not in known_sites:
                r.broken.append(f"measured stack margin negative for {cls} in profile {profile}: 500 x {c['max_bytes_per_depth_unit']} B/unit "
                                f"+ {s['overhead']} B > 2 MiB (witness {c['witness']}) although no child died")
        report[profile] = {"per_pure_cycle": s["kinds"], "per_class": rows, "entry_overhead_bytes": s["overhead"]}
    r.extra["stack_measurements"] = {
        "note": "MEASURED, not proved, on builds WITHOUT verif_hooks (the crate as users compile it). bytes = stack pointer excursion from the "
                "start of the case to the deepest call of the harness function tick(); per depth unit = bytes / (max Context::depth() - 1) with the "
                "depth the model predicts (equal to the hook's in the instrumented build); the proved bound is depth <= limit, so stack <= "
                "limit x max(bytes per depth unit) (+ parser bytes when a template is compiled lazily at depth: second budget, C11_partial_lazy).",
        "two_MiB": TWO_MIB, "profiles": report,
    }
    r.extra["lean_snapshot_check"] = snapshot_check(report)
    r.extra["stacker_configuration"] = stacker_stream(r, cases_text, drive, max_recursion, stk.get("exe"))
    leaf = leaf_measure(r, exes, st["items"].get("C11_BUILTINS") or [])
    r.extra["leaf_calls"] = leaf
    r.extra["stack_budget"] = stack_budget(r, stats, known_sites, drive, leaf)
    r.exhaustive = False


def stacker_stream(r, cases_text, drive, max_recursion, exe):
    """the `stacker` configuration: minijinja built with the feature (release, no hooks).  The limit is
    not clamped there: every pure cycle, super chains and recursive loops at the default limit and at
    limits above the maximum (2000, 3000) must end exactly where the model with the UNCLAMPED limit
    (`setRecursionLimitCfg true`) says.  The property quantifies over limits up to the default: a child
    that dies at a limit above it is counted, not reported."""
    rep = {"cases": 0, "died_above_default_limit": 0}
    if exe is None:
        return rep
    shapes = []
    for line in (cases_text or "").splitlines():
        shape, limit, budget, thread = line.split(" ")
        if shape[0] in CYCLES and "," not in shape and shape.endswith("0000") and limit == "500" and budget == "0" and thread == "t2m":
            shapes.append(shape)
    cases = []
    for sh in shapes:
        cases += [f"{sh} 500 0 t2m+stk", f"{sh} 3000 0 t2m+stk", f"{sh} 2000 0 main+stk", f"{sh} 3000 37 t2m+stk", f"{sh} 501 170 t2m+stk"]
    for n in (400, 2997, 2999, 3000, 3001, 3050):
        cases += [f"S:{n}:0 3000 0 t2m+stk", f"L:{n}:0 3000 0 t2m+stk"]
    # a lazily compiled template at depth: the parser's recursion is not under `maybe_grow`
    for sh in ("M:M000d", "T:I000d", "B:B000d"):
        cases += [f"{sh} 500 0 t2m+stk", f"{sh} 3000 0 t2m+stk"]
    model = drive("\n".join(cases) + "\n")
    rc, out, err = r.harness(exe, ["run"], inp="\n".join(cases) + "\n", timeout=3000)
    lines = out.splitlines()
    if rc != 0 or len(lines) != len(cases) or model is None or len(model) != len(cases):
        r.broken.append(f"harness c11 (stacker) did not run its cases: rc {rc}, {len(lines)} of {len(cases)} lines")
        return rep
    for line, ml in zip(lines, model):
        f = line.split("\t")
        case, status = f[0], f[1]
        shape, limit, budget, thread = parse_case(case)
        mf = ml.split("\t")
        ms = mf[1] if mf[0] == case else None
        full = f"stacker {case}"
        cls = class_of(shape)
        lazy = is_lazy(shape)
        r.count(full, nontrivial=True)
        r.hist["profile"]["stacker"] += 1
        r.hist["stacker_limit"][limit] += 1
        r.hist["status"][status.split(":")[0] + (":" + status.split(":")[1] if status.startswith("err") else "")] += 1
        rep["cases"] += 1
        crashed = status.startswith(("signal", "exit", "panic"))
        if crashed and limit > max_recursion:
            rep["died_above_default_limit"] += 1
            r.hist["stacker_died_above_default_limit(counted)"][("lazy-parse-at-depth/" if lazy else "") + cls] += 1
            continue
        if status.startswith("panic"):
            r.oracle_failure(full, f"the recursive render panicked: {status}", f"panic:stacker:{cls}")
        elif crashed:
            site_cls = f"lazy-parse-at-depth/{cls}" if lazy and cls != CLASS_BX else cls
            r.oracle_failure(full, f"child did not survive the recursive render: {status} (native stack overflow) instead of 'recursion limit exceeded'",
                             f"stack-overflow:stacker:{thread.split('+')[0]}:{site_cls}")
        else:
            if status.startswith("err:other") or status.startswith("bad-case"):
                r.oracle_failure(full, f"recursive render failed with {status}, not with the recursion error", f"wrong-error:{cls}")
            if budget == 0 and shape[0] in CYCLES and status != "err:recursion" and not self_terminating(shape):
                r.oracle_failure(full, f"unbounded recursion returned {status}", f"unbounded-recursion-not-cut:{cls}")
            if ms is not None and status != ms:
                r.model_disagreement(full, status, ms + " (limit not clamped)")
    return rep


def leaf_measure(r, exes, builtins):
    """the deepest leaf call per build without hooks: every builtin filter / test / function of the
    regenerated name table applied to a probing object that reports the stack pointer from its
    callbacks, relative to a plain function called from the same template level"""
    out = {}
    if not builtins:
        r.broken.append("no builtin names for the leaf measurement (table C11_BUILTINS)")
        return out
    inp = "".join(f"{k} {n}\n" for k, n in builtins)
    for profile, exe in exes.items():
        if PROFILES[profile]["hooks"]:
            continue
        rc, o, err = r.harness(exe, ["leaf"], inp=inp, timeout=600)
        rows = [l.split("\t") for l in o.splitlines() if l.startswith("leaf\t")]
        if rc != 0 or len(rows) != len(builtins):
            r.broken.append(f"harness c11 ({profile}) leaf measurement: rc {rc}, {len(rows)} of {len(builtins)} builtins")
            continue
        vals = {f"{x[1]}:{x[2]}": int(x[3]) for x in rows}
        ran = sum(1 for x in rows if int(x[4]) > 0)
        top = sorted(vals.items(), key=lambda kv: -kv[1])[:5]
        out[profile] = {"max_bytes": max(vals.values()), "deepest": top, "builtins": len(rows), "builtins_that_ran": ran}
        for x in rows:
            r.count(f"{profile} leaf {x[1]} {x[2]}", nontrivial=int(x[3]) > 0)
            r.hist["leaf_measurement"][f"{profile}:{x[1]}:{'reached the probe' if int(x[3]) > 0 else 'did not look at the probe'}"] += 1
        if ran < len(rows) // 2:
            r.broken.append(f"leaf measurement ({profile}): only {ran} of {len(rows)} builtins ran on the probing object")
    return out


def stack_budget(r, stats, known_sites, drive, leaf=None):
    """two-limit slopes of every pure cycle (bytes per native level and per depth unit between the
    runs at limit 100 and at limit 500 on the main thread), reduced to bytes per model kind, entry
    overhead and bytes per Rust callback frame; the hypotheses of the Lean theorems
    `stack_budget_holds` / `frame_constants_tied` (`budgetOK`, `frameLowerOK`) are evaluated on
    these numbers by the model driver"""
    out = {}
    lines, meta = [], []
    for profile, s in stats.items():
        if PROFILES[profile]["hooks"]:
            continue
        slopes = {}
        for key, pts in s["points"].items():
            lo, hi = pts.get(100), pts.get(500)
            if not lo or not hi or hi[2] <= lo[2] or hi[1] <= lo[1]:
                continue
            per_level = (hi[0] - lo[0]) / (hi[2] - lo[2])
            per_unit = (hi[0] - lo[0]) / (hi[1] - lo[1])
            slopes[key] = {"bytes_per_level": round(per_level, 1), "bytes_per_depth_unit": round(per_unit, 1),
                           "entry_overhead": max(0, round(hi[0] - per_level * (hi[2] - 1))),
                           "levels": [lo[2], hi[2]], "bytes": [lo[0], hi[0]], "witness": hi[3]}
        rep = {"two_limit_slopes": slopes}
        out[profile] = rep
        if not slopes:
            r.broken.append(f"no two-limit stack measurements for profile {profile}")
            continue
        kinds, missing = {}, []
        for kind, keys in PLAIN_OF.items():
            vals = [slopes[k]["bytes_per_level"] for k in keys if k in slopes]
            if not vals:
                missing.append(kind)
                continue
            kinds[kind] = (min(vals), max(vals))
        if missing:
            r.broken.append(f"no stack measurement for the re-entry kind(s) {missing} in profile {profile}")
            continue
        caller = max([kinds["macroCall"][1]] + [slopes[k]["bytes_per_level"] for k in ("M:C", "M:N") if k in slopes])
        hop = 0.0
        for key, n in HOPS_OF.items():
            if key in slopes:
                base = kinds["blockCall" if (key[0] == "B" or key[2].islower()) else "macroCall"][0]
                hop = max(hop, (slopes[key]["bytes_per_level"] - base) / n)
        root = max(v["entry_overhead"] for v in slopes.values())
        import math
        b = {k: math.ceil(v[1]) for k, v in kinds.items()}
        b["callerCall"] = math.ceil(caller)
        rep["bytes_per_kind"] = b
        rep["bytes_per_callback_frame"] = math.ceil(hop)
        rep["entry_overhead"] = root
        # additivity: a pure cycle that mixes kinds cannot need more per depth unit than the worst kind
        cost = {"macroCall": 6, "callerCall": 6, "includeTpl": 10, "blockCall": 1, "superCall": 1}
        for stack, sname in ((TWO_MIB, "2MiB"), (EIGHT_MIB, "8MiB")):
            for mask, pname in (("11111", "all"), ("11100", "macro+caller+include")):
                for h in (0, 2):
                    label = f"{profile}|{sname}|{pname}|H{h}"
                    lf = ((leaf or {}).get(profile) or {}).get("max_bytes", 0)
                    lines.append("budget %s %d %d %d %d %d %d %d %d %d %s %d" % (
                        label, stack, root, math.ceil(hop) if h else 0, h, b["macroCall"], b["callerCall"], b["includeTpl"],
                        b["blockCall"], b["superCall"], mask, lf))
                    meta.append((profile, sname, pname, h, label))
    if not lines:
        return out
    res = drive("\n".join(lines) + "\n")
    if res is None or len(res) != len(lines):
        r.broken.append("model driver did not evaluate the stack budget")
        return out
    for (profile, sname, pname, h, label), line in zip(meta, res):
        f = line.split("\t")
        if len(f) != 10 or f[1] != label:
            r.broken.append(f"stack budget line not understood: {line[:100]}")
            continue
        ok0, rho, projected, stack, lower, arrays = f[2] == "true", int(f[3]), int(f[4]), int(f[5]), f[6] == "true", int(f[7])
        # the obligation is the budget WITH the deepest leaf call on top (`h_budget` of C11_main)
        ok, stacker_ok = f[8] == "true", f[9] == "true"
        lf = ((leaf or {}).get(profile) or {}).get("max_bytes", 0)
        out[profile].setdefault("budget", {})[f"{sname}|{pname}|H{h}"] = {
            "budgetOK": ok0, "budgetLeafOK": ok, "leaf_bytes": lf, "rho_bytes_per_depth_unit": rho, "projected_bytes": projected, "stack": stack,
            "margin": stack - projected - lf, "frameLowerOK": lower, "eval_impl_array_bytes": arrays, "stackerOK(red zone)": stacker_ok}
        if h == 2 and pname == "all" and sname == "2MiB":
            r.hist["stacker_red_zone"][f"{profile}:{'fits' if stacker_ok else 'does not fit'}"] += 1
            if not stacker_ok:
                r.broken.append(f"{profile}: an activation with {h} callback frames and the deepest leaf call ({lf} B) does not fit "
                                f"the red zone of stacker::maybe_grow: with the `stacker` feature the stack can overflow between two growth checks")
        r.hist["stack_budget"][f"{sname}|{pname}|H{h}:{'holds' if ok else 'fails'}"] += 1
        if not lower:
            r.broken.append(f"{profile}: a measured frame is smaller than the fixed-size arrays of eval_impl ({arrays} bytes): "
                            f"the regenerated frame table and the measurement do not describe the same code")
        # obligations: the kinds that are not known findings must fit
        block_known = any(k in known_sites for k in (f"stack-overflow:{profile}:t2m:{CLASS['B']}", f"stack-overflow:{profile}:t2m:{CLASS['S']}"))
        if h == 2 and pname == "all":
            # informational: block calls under two callback frames per level
            pass
        must = (pname != "all" and h == 2 and sname == "2MiB") or (pname == "all" and h == 0 and (sname == "8MiB" or not block_known))
        if must and not ok:
            observed = any(x["site"].startswith(f"stack-overflow:{profile}:") for x in r.oracle_failures)
            r.broken.append(f"stack budget does not hold on this run's measurements ({label}): {projected} bytes projected "
                            f"(rho {rho} B per depth unit) for a stack of {stack}" + (" — children died, see the failing inputs" if observed else ""))
    return out


SNAP_KEYS = {"macroCall": ["M:M000", "M:A000"], "callerCall": ["M:C000"], "includeTpl": ["T:I000", "T:P000"],
             "blockCall": ["B:B000", "B:V000", "B:R000"], "superCall": ["S:super()", "B:S000"]}


def snapshot_check(report):
    """compare the frame-size snapshots quoted in MJ/Props/C11.lean (parameters of the stack
    theorems' instances) with this run's measurements; informational"""
    src = open(os.path.join(common.LEAN, "MJ", "Props", "C11.lean")).read()
    out = {}
    for lean_name, profile, lower in (("measuredDebugO0", "debugO0", ("blockCall", "superCall")), ("measuredRelease", "release", ())):
        m = re.search(r"def %s : Kind → Nat\n((?:  \| \.\w+ => \d+\n)+)" % lean_name, src)
        if not m or profile not in report:
            continue
        snap = {k: int(v) for k, v in re.findall(r"\| \.(\w+) => (\d+)", m.group(1))}
        pure = report[profile]["per_pure_cycle"]
        rows = {}
        for kind, val in snap.items():
            ms = [pure[k]["bytes_per_level"] for k in SNAP_KEYS.get(kind, []) if k in pure]
            if not ms:
                continue
            if kind in lower:
                rows[kind] = {"snapshot_lower_bound": val, "measured_min": min(ms), "holds": min(ms) >= val}
            else:
                rows[kind] = {"snapshot_upper_bound": val, "measured_max": max(ms), "holds": max(ms) <= val}
        out[lean_name] = rows
    return out


def replay(r, path):
    d = json.load(open(path))
    exes = {}
    for case in [d.get("case")] + d.get("more_cases", []):
        if not case:
            continue
        profile, rest = case.split(" ", 1)
        if profile not in exes:
            exes[profile] = build_variant(r, profile if profile in PROFILES else "hooks")
        rc, out, err = r.harness(exes[profile], ["one"] + rest.split(" "))
        print(f"engine ({profile}):", out.strip())
        model = r.driver("drive_c11", rest + "\n")
        print("model:", model[0] if model else None)
        rc, out, err = r.harness(exes[profile], ["show", rest.split(" ")[0]])
        print(out)
    return 0
