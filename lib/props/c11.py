"""C11 — run-time recursion is cut off by the recursion limit, never by the stack (DESIGN.md §3 C11).

Proof of the depth *accounting* (Lean, `MJ.Props.C11`), tied to /repo by regenerated tables (edge
costs, re-entry sites and their guards, depth check, limit clamp) and by a differential run of
recursive program shapes (model-predicted outcome and high-water marks vs the hook's).  The native
stack *bytes* per level are measured on every run, not proved."""
import json, os, re, collections, threading
import common
from common import REPO

READY = True

META = {
    "technique": "Lean 4 proof of the depth accounting of every native re-entry of the interpreter (weighted nesting <= limit for all traces, exits restore the depth) + regenerated cost/site/exit-path tables + differential runs of recursive program shapes in child processes: an instrumented build (verif_hooks: high-water marks, depth probes) for the accounting, builds WITHOUT hooks (opt-0 debug, opt-1 debug, release; 2 MiB threads and main thread) for the stack, with measured stack bytes per level",
    "category": "proof",
    "text": "PARTIAL by nature. Kernel-checked (24 obligations): in the model of Context::{push_frame,incr_depth,decr_depth,check_depth,restore_stack_depth} and of the native re-entries of eval_impl (macro call, caller(), include/import, block call/self.x()/State::render_block, super()) every re-entry first passes a checked depth increase of its edge cost (macro MACRO_RECURSION_COST+2, include INCLUDE_RECURSION_COST, block/super 1; constants regenerated from source); returning, failing at any nesting depth below, and not finding a template all leave the caller's depth exactly as it was, without panic (leave_restores_context, failed_include_depth_restored, missing_include_depth_neutral); the sum of edge costs over the native nesting is <= the limit in every reachable state for every mixture of edges; nested activations <= limit; a run with >= limit pending re-entries cannot return ok and fails at the first attempt that does not fit; set_recursion_limit clamps to MAX_RECURSION=500. Tie: tables regenerated from vm/mod.rs, vm/context.rs, environment.rs, compiler/parser.rs (re-entry sites with guards, exit paths of perform_include, every site of the crate that creates a Context/State or raises the depth - each classified root/constructor/guarded -, depth check, limit source, clamp) and ~13000 (quick) recursive shapes per build: cycles over include/import/macro/call-block/block/super/recursive-loop edges and over edges that pass through Rust (State::call_macro/render_block/apply_filter/perform_test, Value::call/call_method, Rust filters/tests via map/select/filter blocks, nested call blocks), depth-neutral noise on every frame between depth probes, 1000-iteration drift loops, limits 0..usize::MAX, cloned environments, render/render_captured/render_captured_to/render_named_str/new_state entry points: model-predicted outcome and high-water marks of ctx.depth()/nested eval_impl equal the hook's. NOT proved: native stack bytes per re-entry and per parser level; measured each run on builds without hooks and reported. Known findings (same two causes): block calls/super() cost 1 depth unit per ~13.7 KB (opt-0) native re-entry, and a loader-provided template is compiled on top of the running recursion with the parser's separate 150-level budget (C11_lazy_counterexample); see KNOWN_FINDINGS.jsonl.",
    "design_ref": "DESIGN.md §3 C11",
    "level_note": "The stack bytes per re-entry are MEASURED, NOT PROVED: the theorems bound the number and weighted sum of nested interpreter activations by the recursion limit for every mixture of edges; that this bound keeps the native stack below 2 MiB depends on compiler, profile and target and is only observed (child processes must not die by signal; bytes/level per edge kind and the margin 500 x max(bytes/cost) vs 2 MiB are in the evidence). The stack oracle (no death by signal) runs on builds of the crate WITHOUT verif_hooks; the instrumented build has larger frames and its overflows are only counted. Trusted: Lean kernel; hand model MJ/Model/Depth.lean of context.rs/vm re-entry bookkeeping (validated differentially: outcome, depth and nesting high-water marks equal on all generated shapes); regex translator lib/tables/c11.py; the verif_hooks counters. Not covered: recursion through user Rust callbacks that start a fresh render (classified as roots in context_sites_classified: they get a fresh budget), empty-state entry (new_state + render_block) only validated via a shift argument in the driver, the `stacker` feature, stack use of filters/tests/objects called at the bottom, platforms other than this x86-64 Linux toolchain.",
}

TABLES = ["MACRO_RECURSION_COST", "INCLUDE_RECURSION_COST", "MAX_RECURSION_ENV", "C11_REENTRY_SITES",
          "C11_DEPTH_CHECK", "C11_LIMIT_CLAMP", "C11_INCLUDE_EXITS", "C11_DECR_DEPTH", "C11_CONTEXT_SITES", "C11_LIMIT_SOURCE", "C11_CONTEXT_HELPERS",
          "MAX_RECURSION_PARSER"]
TWO_MIB = 2 << 20
NOISE_NAME = {"d": "lazy-load-deep-expr", "e": "lazy-load-deep-ast", "f": "lazy-load-deep-stmts", "g": "swallowed-lazy-syntax-error",
              "h": "swallowed-lazy-parser-limit", "0": "none", "1": "include-missing", "2": "include-missing-list", "3": "include", "4": "import", "5": "from-import",
              "6": "macro-call", "7": "call-block", "8": "with-for", "9": "render_block", "a": "call_macro",
              "b": "swallowed-missing-include", "c": "swallowed-failing-include"}
CLASS = {"B": "block-cycle(self.block/super/render_block)", "S": "super-chain", "T": "include-cycle",
         "M": "macro-cycle", "L": "recursive-loop", "N": "depth-neutral-loop"}


# build profiles: `hooks` = minijinja with feature verif_hooks (high-water marks, depth probes: the
# accounting correspondence); the others are built with `--no-default-features` of the harness
# package, i.e. minijinja WITHOUT verif_hooks — the crate as users compile it — and carry the stack
# oracle (the instrumentation enlarges the interpreter's frames, so an overflow of the instrumented
# build alone says nothing about the property).
PROFILES = {
    "hooks": dict(hooks=True, opt0=False, release=False, tiers=("quick", "thorough")),
    "debugO0": dict(hooks=False, opt0=True, release=False, tiers=("quick", "thorough")),
    "release": dict(hooks=False, opt0=False, release=True, tiers=("quick", "thorough")),
    "debug": dict(hooks=False, opt0=False, release=False, tiers=("thorough",)),
    "hooksO0": dict(hooks=True, opt0=True, release=False, tiers=("thorough",)),
}
LAZY = "defgh"
ROOT_KIND = {"m": "map", "u": "unit ()", "x": "Value::UNDEFINED", "o": "custom Object", "e": "context!{}", "s": "serialized struct"}


def build_variant(r, name):
    """one build of harness bin c11; own target dirs so that the variants do not evict each other.
    opt0: unoptimised debug build (what `cargo build`/`cargo test` give a user; the harness profile
    has opt-level 1, overridden through the environment)"""
    p = PROFILES[name]
    if p["hooks"] and not p["opt0"] and not p["release"]:
        return r.cargo_build("c11")
    env = dict(common.ENV)
    cmd = ["cargo", "build", "--offline", "--bin", "c11"]
    target = common.CARGO_TARGET + "-c11" + ("" if p["hooks"] else "-nohooks") + ("-O0" if p["opt0"] else "")
    if not p["hooks"]:
        cmd.append("--no-default-features")
    if p["release"]:
        cmd.append("--release")
    if p["opt0"]:
        env["CARGO_PROFILE_DEV_OPT_LEVEL"] = "0"
    env["CARGO_TARGET_DIR"] = target
    rc, out, err = common.sh(cmd, cwd=common.HARNESS, timeout=3000, env=env)
    if rc != 0:
        r.log(f"cargo build ({name}) FAILED:\n" + err[-3000:])
        r.broken.append(f"harness c11 ({name}) does not build against /repo's current tree: "
                        + " | ".join(re.findall(r"^error.*", err, re.M)[:3]))
        return None
    return os.path.join(target, "release" if p["release"] else "debug", "c11")


def builds(r):
    """profile name -> executable; built concurrently"""
    names = [n for n, p in PROFILES.items() if r.tier in p["tiers"]]
    res = {}

    def work(name):
        res[name] = build_variant(r, name)
    ts = [threading.Thread(target=work, args=(n,)) for n in names]
    for t in ts:
        t.start()
    for t in ts:
        t.join()
    return {n: res.get(n) for n in names}


def parse_case(case):
    shape, limit, budget, thread = case.split(" ")
    return shape, int(limit), int(budget), thread


def is_lazy(shape):
    fam = shape[0]
    if fam in "TMB":
        return any(e[4] in LAZY for e in shape[2:].split(","))
    return fam == "N" and shape[3] in LAZY


def evaluate(r, profile, lines, model, stats, max_recursion, band_start=None):
    hooks = PROFILES[profile]["hooks"]
    for i, line in enumerate(lines):
        f = line.split("\t")
        if len(f) != 9:
            r.broken.append(f"harness line not understood ({profile}): {line[:120]}")
            continue
        case, status, hwd, hwn, topk, rootk, nbytes, over, drift = f
        shape, limit, budget, thread = parse_case(case)
        thread_base, _, mode = thread.partition("+")
        fam = shape[0]
        cls = CLASS.get(fam, fam)
        # a template compiled lazily on top of the recursion is a second consumer of native stack
        site_cls = f"lazy-parse-at-depth/{cls}" if is_lazy(shape) else cls
        hwd, hwn, nbytes, over = int(hwd), int(hwn), int(nbytes), int(over)
        full = f"{profile} {case}"
        ms = md = mn = None
        if model is not None:
            mc, ms, md, mn = model[i].split("\t")[:4]
            md, mn = int(md), int(mn)
            if mc != case:
                r.broken.append("model driver output does not line up with the harness cases")
                model, ms = None, None
        depth_seen = hwd if hooks else (md or 0)
        r.count(full, nontrivial=(depth_seen >= 3 or status.startswith("signal")))
        r.hist["profile"][profile] += 1
        r.hist["family"][cls] += 1
        r.hist["status"][status.split(":")[0] + (":" + status.split(":")[1] if status.startswith("err") else "")] += 1
        r.hist["limit"][limit] += 1
        r.hist["thread"][thread_base] += 1
        toks = [t for t in mode.split("+") if t]
        r.hist["entry_point"]["+".join(t for t in toks if not (len(t) == 2 and t[0] == "r")) or "render"] += 1
        r.hist["root_context_kind"][next((ROOT_KIND.get(t[1], t) for t in toks if len(t) == 2 and t[0] == "r"), "map")] += 1
        mode = "+".join(t for t in toks if not (len(t) == 2 and t[0] == "r"))
        r.hist["top_error_kind"][topk] += 1
        if fam in "TMB":
            for e in shape[2:].split(","):
                r.hist["edge"][fam + ":" + e[0]] += 1
                r.hist["noise_on_frame"][NOISE_NAME.get(e[4], e[4])] += 1
            r.hist["cycle_len"][len(shape[2:].split(","))] += 1
        elif fam == "N":
            r.hist["noise_loop"][shape[2] + ":" + NOISE_NAME.get(shape[3], shape[3])] += 1
        bound = max(min(limit, max_recursion), 1)   # set_recursion_limit clamps to MAX_RECURSION
        crashed = status.startswith(("signal", "exit", "panic"))
        # ---------------------------------------------------------------- oracle (the property)
        if crashed and hooks:
            # the instrumented interpreter has larger frames: not evidence about the real crate
            r.hist["overflow_of_instrumented_build_only_counted"][f"{profile}:{thread_base}:{site_cls}"] += 1
        elif status.startswith("panic"):
            r.oracle_failure(full, f"the recursive render panicked: {status}", f"panic:{profile}:{site_cls}")
        elif crashed:
            r.oracle_failure(full, f"child did not survive the recursive render: {status} (native stack overflow) instead of 'recursion limit exceeded'",
                             f"stack-overflow:{profile}:{thread_base}:{site_cls}")
        else:
            if status.startswith("err:other") or status.startswith("bad-case"):
                r.oracle_failure(full, f"recursive render failed with {status}, not with the recursion error", f"wrong-error:{cls}")
            if budget == 0 and fam in "TMB" and status != "err:recursion":
                r.oracle_failure(full, f"unbounded recursion returned {status}", f"unbounded-recursion-not-cut:{cls}")
            if hooks and drift != "-":
                kind = drift.split(":")[0]
                r.oracle_failure(full, f"Context::depth() is not restored by a completed nested construct ({drift}): every completed "
                                       f"include/import/macro/block/with/for must leave the depth as it found it, or the limit does not bound the nesting",
                                 f"depth-not-restored:{kind}")
            if hooks and (hwn > bound or hwd > bound):
                r.oracle_failure(full, f"high-water marks exceed the limit {limit}: depth {hwd}, nested eval_impl {hwn}", f"high-water-exceeds-limit:{cls}")
        # finite recursions placed around the cut-off of the accounting: exactly those the limit admits succeed
        in_band = band_start is not None and i >= band_start
        if in_band:
            r.hist["cut_off_band"][f"{status.split(':')[0]}/{(ms or '?').split(':')[0]}"] += 1
            if ms is not None and not crashed and {status, ms} == {"ok", "err:recursion"}:
                r.oracle_failure(full, f"a finite recursion of {budget} steps at limit {limit} returned {status}; with the documented edge costs "
                                       f"the limit {'does not admit' if ms != 'ok' else 'admits'} it (cut-off shifted)", f"cut-off-shifted:{cls}")
        # ---------------------------------------------------------------- correspondence
        if ms is not None and not crashed:
            if hooks and (status, hwd, hwn) != (ms, md, mn):
                r.model_disagreement(full, f"{status} depth={hwd} native={hwn}", f"{ms} depth={md} native={mn}")
            elif not hooks and status != ms:
                r.model_disagreement(full, status, ms)
        # ---------------------------------------------------------------- measurements
        st = stats[profile]
        if hooks and fam == "N" and shape[2] == "t" and limit == 500 and thread_base == "t2m" and not crashed:
            st["lazy"][shape[3]] = nbytes
        if hooks:
            dd, nn = hwd, hwn
        else:
            dd, nn = (md or 0), (mn or 0)
        if not crashed and budget == 0 and dd >= (50 if hooks else 400) and nbytes > 0 and fam != "N" and not is_lazy(shape) and not mode:
            key = shape[:-1] if ("," not in shape and shape.endswith("0000")) else f"({fam}: mixed/with work/noise)"
            if fam == "S":
                key = "S:super()"
            per_unit = nbytes / (dd - 1)
            per_level = nbytes / max(nn - 1, 1)
            e = st["kinds"].setdefault(key, {"bytes_per_depth_unit": 0.0, "bytes_per_level": 0.0, "class": cls})
            e["bytes_per_depth_unit"] = max(e["bytes_per_depth_unit"], round(per_unit, 1))
            e["bytes_per_level"] = max(e["bytes_per_level"], round(per_level, 1))
            c = st["classes"].setdefault(cls, {"max_bytes_per_depth_unit": 0.0, "max_bytes_seen": 0, "witness": ""})
            if per_unit > c["max_bytes_per_depth_unit"]:
                c["max_bytes_per_depth_unit"] = round(per_unit, 1)
                c["witness"] = case
            c["max_bytes_seen"] = max(c["max_bytes_seen"], nbytes)
            st["overhead"] = max(st["overhead"], over)
        if i % 797 == 0:
            r.sample({"case": full, "result": status, "hw_depth": hwd, "hw_native": hwn, "stack_bytes": nbytes})


def run(r):
    r.rule = ("recursive program shapes: pure cycles of every edge kind (macro, macro with args, call block/caller, include, import, "
              "include through a macro / call block / block / recursive loop, self.block(), captured self.block(), State::render_block, "
              "block through macro, super() inside a block cycle), the same with frame-local work (0..2 with frames, 0..2 for frames, "
              "filters/set/filter blocks), every edge kind x every depth-neutral noise statement on its frame (include that finds nothing - single "
              "and list -, include/import/from-import of a tiny template, macro call, call block, with/for, State::render_block and "
              "State::call_macro from a function, failing includes whose error a callback swallows) between two depth probes, random mixed "
              "cycles of length 2..4 per family with noise on every frame, every noise statement 1000 times in a loop at top level / inside an "
              "include / macro / block / include-in-macro, super() chains and recursive for-loops over "
              "nested data below/at/above the limit; x limits {1,2,10,100,500} (thorough: 1..500 step 7) x {main thread, 2 MiB thread} "
              "x unbounded / two terminating budgets x build profiles; each case in a child process. A case is non-trivial when the "
              "run reaches Context::depth() >= 3 (or dies).")
    r.assumptions = [
        "stack bytes per re-entry are measured on this toolchain/target, not proved",
        "a lazily loaded template is compiled on top of the recursion with the parser's own, separate recursion budget",
        "the kind of the root context value (map, (), undefined, object, empty context!, serialized struct) does not enter the accounting (checked on every stream)",
        "frame pushes/pops inside one interpreter activation are balanced (compiled code; C05)",
        "templates only: a Rust callback that starts a fresh render does not inherit the depth",
        "the `stacker` feature is off (with it the limit is not clamped and the stack grows on demand)",
    ]
    st = r.regen_tables(TABLES)
    max_recursion = st["items"].get("MAX_RECURSION_ENV") or 500
    r.lean_prove("MJ.Props.C11", "MJ/Audit/C11.lean", extra_targets=["drive_c11"])
    # a broken table / proof / model tie is recorded in r.broken and the run goes on: the harness is
    # built and the oracle searches for a failing input in any case (correspondence only if the
    # model driver still builds)
    exes = {p: e for p, e in builds(r).items() if e is not None}
    stats = {p: {"kinds": {}, "classes": {}, "overhead": 0, "lazy": {}} for p in exes}

    def drive(text):
        try:
            return r.driver("drive_c11", text)
        except Exception as e:   # the oracle must still run
            r.broken.append(f"model driver failed: {type(e).__name__}: {str(e)[:200]}")
            return None

    # phase 1: the enumerated cases on every build
    phase1, model, cases_text = {}, None, None
    gens = {}

    def gen(profile, exe):
        gens[profile] = r.harness(exe, ["gen", r.tier], timeout=3000)
    ts = [threading.Thread(target=gen, args=(p_, e_)) for p_, e_ in exes.items()]
    for t in ts:
        t.start()
    for t in ts:
        t.join()
    for profile, exe in exes.items():
        rc, out, err = gens[profile]
        if rc != 0:
            r.broken.append(f"harness c11 ({profile}) exited {rc}: {err[-300:]}")
            continue
        lines = out.splitlines()
        text = "\n".join(l.split("\t")[0] for l in lines) + "\n"
        if cases_text is None:
            cases_text = text
            model = drive(text)
            if model is None or len(model) != len(lines):
                r.broken.append("model driver output does not line up with the harness cases")
                model = None
        elif text != cases_text:
            r.broken.append(f"case enumeration differs between build profiles ({profile})")
            continue
        phase1[profile] = lines
    # phase 2: finite recursions around every cut-off the model computes (visit at which the unbounded
    # run of the shape ends): budgets cut-2 .. cut+2 must succeed / fail exactly as the accounting says
    band, band_model = [], None
    if model is not None:
        seen = set()
        for k, ml in enumerate(model):
            f = ml.split("\t")
            if len(f) < 5 or f[1] != "err:recursion":
                continue
            shape, limit, budget, thread = f[0].split(" ")
            if budget != "0" or shape[0] not in "TMB" or not thread.startswith("t2m") or int(limit) > max_recursion + 1:
                continue
            pure = "," not in shape
            plain = shape.endswith("0000")
            if r.tier == "quick" and ((not pure and k % 4 != 0) or (pure and not plain and k % 2 != 0)):
                continue
            if r.tier == "thorough" and not pure and k % 2 != 0:
                continue
            width = 2 if (pure and plain) or r.tier == "thorough" else 1
            v = int(f[4])
            for b in range(max(1, v - width), v + width + 1):
                c = f"{shape} {limit} {b} {thread}"
                if c not in seen:
                    seen.add(c)
                    band.append(c)
        if band:
            band_model = drive("\n".join(band) + "\n")
            if band_model is None or len(band_model) != len(band):
                r.broken.append("model driver output does not line up with the cut-off band cases")
                band_model = None
    r.extra["cut_off_band_cases"] = len(band)
    bruns = {}

    def brun(profile):
        bruns[profile] = r.harness(exes[profile], ["run"], inp="\n".join(band) + "\n", timeout=3000)
    # the cut-off does not depend on the build: quick runs the band on the instrumented and the release build
    bprofiles = [p_ for p_ in phase1 if band and (r.tier == "thorough" or p_ in ("hooks", "release"))]
    ts = [threading.Thread(target=brun, args=(p_,)) for p_ in bprofiles]
    for t in ts:
        t.start()
    for t in ts:
        t.join()
    for profile, lines in phase1.items():
        blines = []
        if profile in bruns:
            rc, out, err = bruns[profile]
            if rc != 0 or len(out.splitlines()) != len(band):
                r.broken.append(f"harness c11 ({profile}) did not run the cut-off band: rc {rc}")
            else:
                blines = out.splitlines()
        m = None
        if model is not None:
            m = list(model) + (list(band_model) if (blines and band_model is not None) else [])
            if blines and band_model is None:
                m = None
        evaluate(r, profile, lines + blines, m, stats, max_recursion, band_start=len(lines))
    # ---------------------------------------------------------------- stack margin (measured)
    known_sites = {k.get("site") for k in r.known}
    report = {}
    for profile, s in stats.items():
        rows = {}
        if PROFILES[profile]["hooks"]:
            # the instrumented builds only contribute the parser's share: bytes of a lazily compiled
            # template with 140 guarded parser levels, relative to the include of a tiny template
            base = s["lazy"].get("3")
            lazy = {NOISE_NAME[k]: {"bytes": v, "parser_bytes": (v - base) if base else None,
                                    "per_parser_level_of_140": round((v - base) / 140, 1) if base and k == "d" else None}
                    for k, v in sorted(s["lazy"].items()) if k in LAZY}
            report[profile] = {"instrumented": True, "lazy_compile_at_top_level": lazy}
            continue
        for cls, c in s["classes"].items():
            projected = s["overhead"] + 500 * c["max_bytes_per_depth_unit"]
            margin = TWO_MIB - projected
            rows[cls] = dict(c, projected_bytes_at_limit_500=round(projected), margin_vs_2MiB=round(margin))
            site = f"stack-overflow:{profile}:t2m:{cls}"
            observed = any(f["site"] == site for f in r.oracle_failures) or any(f["site"] == site for _, f in r.known_hits)
            if margin < 0 and not observed and site not in known_sites:
                r.broken.append(f"measured stack margin negative for {cls} in profile {profile}: 500 x {c['max_bytes_per_depth_unit']} B/unit "
                                f"+ {s['overhead']} B > 2 MiB (witness {c['witness']}) although no child died")
        report[profile] = {"per_pure_cycle": s["kinds"], "per_class": rows, "entry_overhead_bytes": s["overhead"]}
    r.extra["stack_measurements"] = {
        "note": "MEASURED, not proved, on builds WITHOUT verif_hooks (the crate as users compile it). bytes = stack pointer excursion from the "
                "start of the case to the deepest call of the harness function tick(); per depth unit = bytes / (max Context::depth() - 1) with the "
                "depth the model predicts (equal to the hook's in the instrumented build); the proved bound is depth <= limit, so stack <= "
                "limit x max(bytes per depth unit) (+ parser bytes when a template is compiled lazily at depth: second budget, C11_partial_lazy).",
        "two_MiB": TWO_MIB, "profiles": report,
    }
    r.extra["lean_snapshot_check"] = snapshot_check(report)
    r.exhaustive = False


SNAP_KEYS = {"macroCall": ["M:M000", "M:A000"], "callerCall": ["M:C000"], "includeTpl": ["T:I000", "T:P000"],
             "blockCall": ["B:B000", "B:V000", "B:R000"], "superCall": ["S:super()", "B:S000"]}


def snapshot_check(report):
    """compare the frame-size snapshots quoted in MJ/Props/C11.lean (parameters of the stack
    theorems' instances) with this run's measurements; informational"""
    src = open(os.path.join(common.LEAN, "MJ", "Props", "C11.lean")).read()
    out = {}
    for lean_name, profile, lower in (("measuredDebugO0", "debugO0", ("blockCall", "superCall")), ("measuredRelease", "release", ())):
        m = re.search(r"def %s : Kind → Nat\n((?:  \| \.\w+ => \d+\n)+)" % lean_name, src)
        if not m or profile not in report:
            continue
        snap = {k: int(v) for k, v in re.findall(r"\| \.(\w+) => (\d+)", m.group(1))}
        pure = report[profile]["per_pure_cycle"]
        rows = {}
        for kind, val in snap.items():
            ms = [pure[k]["bytes_per_level"] for k in SNAP_KEYS.get(kind, []) if k in pure]
            if not ms:
                continue
            if kind in lower:
                rows[kind] = {"snapshot_lower_bound": val, "measured_min": min(ms), "holds": min(ms) >= val}
            else:
                rows[kind] = {"snapshot_upper_bound": val, "measured_max": max(ms), "holds": max(ms) <= val}
        out[lean_name] = rows
    return out


def replay(r, path):
    d = json.load(open(path))
    exes = {}
    for case in [d.get("case")] + d.get("more_cases", []):
        if not case:
            continue
        profile, rest = case.split(" ", 1)
        if profile not in exes:
            exes[profile] = build_variant(r, profile if profile in PROFILES else "hooks")
        rc, out, err = r.harness(exes[profile], ["one"] + rest.split(" "))
        print(f"engine ({profile}):", out.strip())
        model = r.driver("drive_c11", rest + "\n")
        print("model:", model[0] if model else None)
        rc, out, err = r.harness(exes[profile], ["show", rest.split(" ")[0]])
        print(out)
    return 0
