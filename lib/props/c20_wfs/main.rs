//! C20 test with the real `watch-fs` feature (notify + inotify): every change to the content or to the
//! set of files under a watched path must (a) be followed by an `on_should_reload` notification and
//! (b) be reflected by the environment handed out by the next acquire_env — for every kind of change
//! {write, create, delete, rename inside, rename OUT of the tree, rename INTO the tree, rename of a
//! directory, atomic save (temp + rename over), move of the watched root} x {full, fast, persistent}.
//! A touch (mtime only) must not be *required* to reload; it is only reported.
//!
//! Prints `wfs\t<case>\t<ok|FAIL|skip|info>\t<detail>` lines.  `skip` = file notifications do not work in
//! this sandbox (checked with a raw `notify` watcher), nothing can be concluded.
use minijinja::{path_loader, Environment, ErrorKind};
use minijinja_autoreload::AutoReloader;
use notify::Watcher;
use std::fs;
use std::path::{Path, PathBuf};
use std::sync::atomic::{AtomicUsize, Ordering};
use std::sync::Arc;
use std::time::{Duration, Instant};

const NAMES: [&str; 7] = ["a.txt", "b.txt", "new.txt", "in.txt", "sub/c.txt", "sub2/c.txt", ".a.txt.tmp"];

fn wait_until(ms: u64, mut f: impl FnMut() -> bool) -> bool {
    let t0 = Instant::now();
    loop {
        if f() {
            return true;
        }
        if t0.elapsed() > Duration::from_millis(ms) {
            return false;
        }
        std::thread::sleep(Duration::from_millis(5));
    }
}

/// what the templates SHOULD be: the files under the watched path right now
fn disk_state(w: &Path) -> Vec<String> {
    NAMES.iter().map(|n| fs::read_to_string(w.join(n)).unwrap_or_else(|_| "<none>".into())).collect()
}

/// what the handed-out environment says they are
fn env_state(env: &Environment) -> Vec<String> {
    NAMES
        .iter()
        .map(|n| match env.get_template(n) {
            Ok(t) => t.render(()).unwrap_or_else(|e| format!("<render {:?}>", e.kind())),
            Err(e) if e.kind() == ErrorKind::TemplateNotFound => "<none>".into(),
            Err(e) => format!("<error {:?}>", e.kind()),
        })
        .collect()
}

fn apply(op: &str, w: &Path, out: &Path) {
    match op {
        "write" => fs::write(w.join("a.txt"), "a2").unwrap(),
        "create" => fs::write(w.join("new.txt"), "n1").unwrap(),
        "delete" => fs::remove_file(w.join("b.txt")).unwrap(),
        "rename-inside" => fs::rename(w.join("b.txt"), w.join("new.txt")).unwrap(),
        "rename-out" => fs::rename(w.join("b.txt"), out.join("b.txt")).unwrap(),
        "rename-in" => fs::rename(out.join("in.txt"), w.join("in.txt")).unwrap(),
        "rename-dir" => fs::rename(w.join("sub"), w.join("sub2")).unwrap(),
        "rename-dir-out" => fs::rename(w.join("sub"), out.join("sub")).unwrap(),
        "atomic-save" => {
            fs::write(w.join(".a.txt.tmp"), "a3").unwrap();
            fs::rename(w.join(".a.txt.tmp"), w.join("a.txt")).unwrap();
        }
        "move-root" => fs::rename(w, out.join("moved-root")).unwrap(),
        "touch" => {
            let f = fs::OpenOptions::new().write(true).open(w.join("a.txt")).unwrap();
            f.set_modified(std::time::SystemTime::now() - Duration::from_secs(1000)).unwrap();
        }
        _ => panic!("bad op"),
    }
}

fn main() {
    let base: PathBuf = std::env::temp_dir().join(format!("c20wfs-{}", std::process::id()));
    let _ = fs::remove_dir_all(&base);
    fs::create_dir_all(&base).unwrap();

    // does the sandbox deliver file notifications at all?
    let raw = Arc::new(AtomicUsize::new(0));
    let r2 = raw.clone();
    let mut rw = notify::recommended_watcher(move |_res: notify::Result<notify::Event>| {
        r2.fetch_add(1, Ordering::SeqCst);
    })
    .unwrap();
    let raw_ok = rw.watch(&base, notify::RecursiveMode::Recursive).is_ok() && {
        fs::write(base.join("probe.txt"), "x").unwrap();
        wait_until(3000, || raw.load(Ordering::SeqCst) > 0)
    };
    drop(rw);
    if !raw_ok {
        println!("wfs\tall\tskip\tno file notifications in this sandbox");
        fs::remove_dir_all(&base).ok();
        return;
    }

    let ops = [
        "write", "create", "delete", "rename-inside", "rename-out", "rename-in", "rename-dir", "rename-dir-out",
        "atomic-save", "move-root", "touch",
    ];
    let mut case_no = 0;
    // every missing notification costs a time-out: stop after a few failures
    let fails = std::cell::Cell::new(0usize);
    for (mode, fast, persistent) in [("full", false, false), ("fast", true, false), ("persistent", false, true)] {
        for op in ops {
            case_no += 1;
            let root = base.join(format!("case{}", case_no));
            let (w, out) = (root.join("w"), root.join("out"));
            fs::create_dir_all(w.join("sub")).unwrap();
            fs::create_dir_all(&out).unwrap();
            fs::write(w.join("a.txt"), "a1").unwrap();
            fs::write(w.join("b.txt"), "b1").unwrap();
            fs::write(w.join("sub/c.txt"), "c1").unwrap();
            fs::write(out.join("in.txt"), "i1").unwrap();

            let creates = Arc::new(AtomicUsize::new(0));
            let (c2, w2) = (creates.clone(), w.clone());
            let reloader = AutoReloader::new(move |n| {
                c2.fetch_add(1, Ordering::SeqCst);
                let mut env = Environment::new();
                env.set_loader(path_loader(&w2));
                n.set_fast_reload(fast);
                n.persistent_watch(persistent);
                n.watch_path(&w2, true);
                Ok(env)
            });
            let notified = Arc::new(AtomicUsize::new(0));
            let n2 = notified.clone();
            reloader.notifier().set_on_should_reload_callback(move || {
                n2.fetch_add(1, Ordering::SeqCst);
            });
            // load everything that exists (so that a stale cache is observable), twice: no reload in between
            let before = env_state(&reloader.acquire_env().unwrap());
            let again = env_state(&reloader.acquire_env().unwrap());
            let quiet = before == disk_state(&w) && again == before && creates.load(Ordering::SeqCst) == 1;
            // the reads above must not have produced notifications (access events are not requests)
            std::thread::sleep(Duration::from_millis(30));
            let n_before = notified.load(Ordering::SeqCst);

            apply(op, &w, &out);
            let got_note = wait_until(if op == "touch" { 300 } else { 3000 }, || notified.load(Ordering::SeqCst) > n_before);
            // let the remaining events of the same change arrive (rename = From + To + Both)
            std::thread::sleep(Duration::from_millis(40));
            let want = disk_state(&w);
            let after = env_state(&reloader.acquire_env().unwrap());
            let reflected = after == want;
            let c_after = creates.load(Ordering::SeqCst);
            let reload_kind_ok = if fast { c_after == 1 } else { !got_note || c_after >= 2 };
            let name = format!("{}-{}", op, mode);
            let detail = format!(
                "quiet-before={} notes-before={} notified={} reflected={} creates={} env={:?} disk={:?}",
                quiet, n_before, got_note, reflected, c_after, after, want
            );
            if op == "touch" {
                // not required to reload; must still be consistent
                println!("wfs\t{}\t{}\t{}", name, if reflected && quiet { "info" } else { "FAIL" }, detail);
            } else {
                let ok = quiet && n_before == 0 && got_note && reflected && reload_kind_ok;
                println!("wfs\t{}\t{}\t{}", name, if ok { "ok" } else { "FAIL" }, detail);
                if !ok {
                    fails.set(fails.get() + 1);
                }
            }
            if fails.get() >= 9 {
                println!("wfs\tremaining-cases\tinfo\tskipped after {} failures", fails.get());
                fs::remove_dir_all(&base).ok();
                return;
            }
            // dead notifier with watch-fs: no-ops, no panic
            let n = reloader.notifier();
            drop(reloader);
            n.watch_path(&root, true);
            n.unwatch_path(&root);
            n.persistent_watch(true);
            n.request_reload();
            if !n.is_dead() {
                println!("wfs\tdead-notifier-{}\tFAIL\tnotifier alive after its reloader was dropped", name);
            }
        }
    }

    // ---- sequences: a reload must not silence LATER changes.  mode x where the path is registered x
    //      [request_reload + acquire, then three successive file changes, an acquire after each]
    let seqs: [(&str, [&str; 3]); 2] = [("s1", ["write", "rename-out", "create"]), ("s2", ["delete", "atomic-save", "rename-dir-out"])];
    for (mode, fast, persistent) in [("full", false, false), ("fast", true, false), ("persistent", false, true), ("fast+persistent", true, true)] {
        for site in ["creator", "outside"] {
            for (sname, ops) in &seqs {
                case_no += 1;
                let root = base.join(format!("case{}", case_no));
                let (w, out) = (root.join("w"), root.join("out"));
                fs::create_dir_all(w.join("sub")).unwrap();
                fs::create_dir_all(&out).unwrap();
                fs::write(w.join("a.txt"), "a1").unwrap();
                fs::write(w.join("b.txt"), "b1").unwrap();
                fs::write(w.join("sub/c.txt"), "c1").unwrap();
                fs::write(out.join("in.txt"), "i1").unwrap();
                let creates = Arc::new(AtomicUsize::new(0));
                let (c2, w2) = (creates.clone(), w.clone());
                let in_creator = site == "creator";
                let reloader = AutoReloader::new(move |n| {
                    c2.fetch_add(1, Ordering::SeqCst);
                    let mut env = Environment::new();
                    env.set_loader(path_loader(&w2));
                    n.set_fast_reload(fast);
                    n.persistent_watch(persistent);
                    if in_creator {
                        n.watch_path(&w2, true);
                    }
                    Ok(env)
                });
                let notified = Arc::new(AtomicUsize::new(0));
                let n2 = notified.clone();
                reloader.notifier().set_on_should_reload_callback(move || {
                    n2.fetch_add(1, Ordering::SeqCst);
                });
                let name = format!("seq-{}-{}-{}", mode, site, sname);
                let mut problem: Option<String> = None;
                let first = env_state(&reloader.acquire_env().unwrap());
                if first != disk_state(&w) {
                    problem = Some("step0: first acquire does not reflect the disk".into());
                }
                if !in_creator {
                    // registered ONCE from outside (the documented use of persistent_watch)
                    reloader.notifier().watch_path(&w, true);
                }
                // a manual request before any file change: the reload it causes must keep the watcher
                let c0 = creates.load(Ordering::SeqCst);
                reloader.notifier().request_reload();
                let st = env_state(&reloader.acquire_env().unwrap());
                let c1 = creates.load(Ordering::SeqCst);
                if problem.is_none() && (st != disk_state(&w) || (fast && c1 != c0) || (!fast && c1 != c0 + 1)) {
                    problem = Some(format!("step0: request_reload + acquire: creates {}->{} env={:?}", c0, c1, st));
                }
                // documented: without persistent_watch and without fast reload a path registered from
                // outside is gone after a reload ("watch_path must be invoked again")
                let documented_loss = !in_creator && !fast && !persistent;
                for (k, op) in ops.iter().enumerate() {
                    if problem.is_some() {
                        break;
                    }
                    std::thread::sleep(Duration::from_millis(30));
                    let n_before = notified.load(Ordering::SeqCst);
                    let c_before = creates.load(Ordering::SeqCst);
                    apply(op, &w, &out);
                    let got_note = wait_until(if documented_loss { 300 } else { 3000 }, || notified.load(Ordering::SeqCst) > n_before);
                    std::thread::sleep(Duration::from_millis(40));
                    let want = disk_state(&w);
                    let after = env_state(&reloader.acquire_env().unwrap());
                    let c_after = creates.load(Ordering::SeqCst);
                    if documented_loss {
                        continue;
                    }
                    if !got_note {
                        problem = Some(format!("step{}:{}: no notification within 3 s (watcher gone?)", k + 1, op));
                    } else if after != want {
                        problem = Some(format!("step{}:{}: next acquire does not reflect the disk env={:?} disk={:?}", k + 1, op, after, want));
                    } else if (fast && c_after != c_before) || (!fast && c_after <= c_before) {
                        problem = Some(format!("step{}:{}: wrong kind of reload, creator calls {}->{}", k + 1, op, c_before, c_after));
                    }
                }
                match problem {
                    None => println!("wfs\t{}\t{}\tsteps=4 creates={}", name, if documented_loss { "info" } else { "ok" }, creates.load(Ordering::SeqCst)),
                    Some(p) => {
                        println!("wfs\t{}\tFAIL\t{}", name, p);
                        fails.set(fails.get() + 1);
                    }
                }
                if fails.get() >= 9 {
                    println!("wfs\tremaining-cases\tinfo\tskipped after {} failures", fails.get());
                    fs::remove_dir_all(&base).ok();
                    return;
                }
            }
        }
    }

    // ---- regression scenario of a race repaired by fix 5725511: fast reload is switched ON by someone else
    //      between prepare_and_mark_reload (which dropped the watcher because fast reload was off)
    //      and the create-or-clear decision.  Before the fix the second read saw fast reload on and
    //      did not run the creator: nobody re-registered, later file changes were not noticed.
    {
        use minijinja_autoreload::verif_hooks::{set_yield, Point};
        case_no += 1;
        let root = base.join(format!("case{}", case_no));
        let w = root.join("w");
        fs::create_dir_all(&w).unwrap();
        fs::write(w.join("a.txt"), "a1").unwrap();
        let w2 = w.clone();
        let reloader = Arc::new(AutoReloader::new(move |n| {
            let mut env = Environment::new();
            env.set_loader(path_loader(&w2));
            n.watch_path(&w2, true);
            Ok(env)
        }));
        let notified = Arc::new(AtomicUsize::new(0));
        let n2 = notified.clone();
        reloader.notifier().set_on_should_reload_callback(move || {
            n2.fetch_add(1, Ordering::SeqCst);
        });
        let _ = env_state(&reloader.acquire_env().unwrap());
        let armed = Arc::new(AtomicUsize::new(1));
        let (a2, nf) = (armed.clone(), reloader.notifier());
        set_yield(Some(Arc::new(move |p: Point| {
            if p == Point::AfterReset && a2.swap(0, Ordering::SeqCst) == 1 {
                nf.set_fast_reload(true); // "another thread", exactly in the window
            }
        })));
        reloader.notifier().request_reload();
        let _ = env_state(&reloader.acquire_env().unwrap());
        set_yield(None);
        std::thread::sleep(Duration::from_millis(30));
        let n_before = notified.load(Ordering::SeqCst);
        fs::write(w.join("a.txt"), "a2").unwrap();
        let got_note = wait_until(1500, || notified.load(Ordering::SeqCst) > n_before);
        std::thread::sleep(Duration::from_millis(40));
        let after = env_state(&reloader.acquire_env().unwrap());
        let ok = got_note && after == disk_state(&w);
        println!(
            "wfs\trace-fast-switched-on-during-reload\t{}\tnotified={} env[a.txt]={} disk[a.txt]={}",
            if ok { "ok" } else { "FAIL" }, got_note, after[0], disk_state(&w)[0]
        );
    }
    fs::remove_dir_all(&base).ok();
}
