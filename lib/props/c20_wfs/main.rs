//! C20 smoke test with the real `watch-fs` feature: a file change in a watched directory must
//! lead to a rebuilt environment on the next acquire_env (the fs-watcher closure performs the same
//! two critical sections as `request_reload`, see MJ.C20.fs_callback_is_request).
//! Prints `wfs\t<name>\t<ok|FAIL|skip>\t<detail>` lines.  `skip` = file notifications do not work in
//! this sandbox (checked with a raw `notify` watcher), nothing can be concluded.
use minijinja::{path_loader, Environment};
use minijinja_autoreload::AutoReloader;
use notify::Watcher;
use std::sync::atomic::{AtomicUsize, Ordering};
use std::sync::Arc;
use std::time::Duration;

fn wait_until(ms: u64, mut f: impl FnMut() -> bool) -> bool {
    let mut waited = 0;
    while waited <= ms {
        if f() {
            return true;
        }
        std::thread::sleep(Duration::from_millis(25));
        waited += 25;
    }
    false
}

fn main() {
    let dir = std::env::temp_dir().join(format!("c20wfs-{}", std::process::id()));
    std::fs::create_dir_all(&dir).unwrap();
    std::fs::write(dir.join("t.txt"), "one").unwrap();

    // does the sandbox deliver file notifications at all?
    let raw = Arc::new(AtomicUsize::new(0));
    let r2 = raw.clone();
    let mut w = notify::recommended_watcher(move |_res: notify::Result<notify::Event>| {
        r2.fetch_add(1, Ordering::SeqCst);
    })
    .unwrap();
    let raw_ok = w.watch(&dir, notify::RecursiveMode::Recursive).is_ok() && {
        std::fs::write(dir.join("probe.txt"), "x").unwrap();
        wait_until(2000, || raw.load(Ordering::SeqCst) > 0)
    };
    drop(w);
    if !raw_ok {
        println!("wfs\tfile-change-reloads\tskip\tno file notifications in this sandbox");
        std::fs::remove_dir_all(&dir).ok();
        return;
    }

    for (name, fast, persistent) in [("full", false, false), ("fast", true, false), ("persistent", false, true)] {
        let calls = Arc::new(AtomicUsize::new(0));
        let (c2, d2) = (calls.clone(), dir.clone());
        std::fs::write(dir.join("t.txt"), "one").unwrap();
        let reloader = AutoReloader::new(move |n| {
            c2.fetch_add(1, Ordering::SeqCst);
            let mut env = Environment::new();
            env.set_loader(path_loader(&d2));
            n.set_fast_reload(fast);
            n.persistent_watch(persistent);
            n.watch_path(&d2, true);
            Ok(env)
        });
        let see = |r: &AutoReloader| r.acquire_env().unwrap().get_template("t.txt").unwrap().render(()).unwrap();
        let first = see(&reloader);
        let again = see(&reloader);
        let c_before = calls.load(Ordering::SeqCst);
        std::fs::write(dir.join("t.txt"), "two").unwrap();
        let reloaded = wait_until(3000, || see(&reloader) == "two");
        let c_after = calls.load(Ordering::SeqCst);
        // second change: the watcher must still be armed after a reload (re-registered by the
        // creator, kept by fast reload / persistent_watch)
        std::fs::write(dir.join("t.txt"), "three").unwrap();
        let reloaded2 = wait_until(3000, || see(&reloader) == "three");
        let c_end = calls.load(Ordering::SeqCst);
        let ok = first == "one" && again == "one" && c_before == 1 && reloaded && reloaded2
            && if fast { c_end == 1 } else { c_after >= 2 && c_end >= 3 };
        println!(
            "wfs\tfile-change-reloads-{}\t{}\tfirst={} again={} creates={}/{}/{} reloaded={} second={}",
            name, if ok { "ok" } else { "FAIL" }, first, again, c_before, c_after, c_end, reloaded, reloaded2
        );
        // dead notifier with watch-fs: no-ops, no panic
        let n = reloader.notifier();
        drop(reloader);
        n.watch_path(&dir, true);
        n.unwatch_path(&dir);
        n.persistent_watch(true);
        n.request_reload();
        println!("wfs\tdead-notifier-watch-calls-{}\t{}\tis_dead={}", name, if n.is_dead() { "ok" } else { "FAIL" }, n.is_dead());
    }
    std::fs::remove_dir_all(&dir).ok();
}
