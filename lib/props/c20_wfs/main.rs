//! C20 test with the real `watch-fs` feature (notify + inotify): every change to the content or to the
//! set of files under a watched path must (a) be followed by an `on_should_reload` notification and
//! (b) be reflected by the environment handed out by the next acquire_env — for every kind of change
//! {write, create, delete, rename inside, rename OUT of the tree, rename INTO the tree, rename of a
//! directory, atomic save (temp + rename over), move of the watched root} x {full, fast, persistent}.
//! A touch (mtime only) must not be *required* to reload; it is only reported.
//!
//! Prints `wfs\t<case>\t<ok|FAIL|skip|info>\t<detail>` lines.  `skip` = file notifications do not work in
//! this sandbox (checked with a raw `notify` watcher), nothing can be concluded.
use minijinja::{path_loader, Environment, ErrorKind};
use minijinja_autoreload::AutoReloader;
use notify::Watcher;
use std::fs;
use std::path::{Path, PathBuf};
use std::sync::atomic::{AtomicUsize, Ordering};
use std::sync::Arc;
use std::time::{Duration, Instant};

const NAMES: [&str; 7] = ["a.txt", "b.txt", "new.txt", "in.txt", "sub/c.txt", "sub2/c.txt", ".a.txt.tmp"];

/// bounded wait for an event that MUST arrive (only a failing run ever waits that long)
const MUST_MS: u64 = 8000;
/// how long a notification that must NOT arrive is waited for (reported, never a verdict by itself
/// unless the model predicts silence: then silence is what the unchanged code always gives)
const QUIET_MS: u64 = 250;
/// stop after this many failures (each costs a MUST_MS time-out)
const MAX_FAILS: usize = 6;

/// a scenario that does not finish is a finding too (deadlock): a watchdog reports it and ends the process
const HANG_MS: u64 = 60_000;
static CURRENT: std::sync::Mutex<Option<(String, Instant)>> = std::sync::Mutex::new(None);

fn begin(name: &str) {
    *CURRENT.lock().unwrap() = Some((name.to_string(), Instant::now()));
}

fn start_watchdog() {
    std::thread::spawn(|| loop {
        std::thread::sleep(Duration::from_millis(500));
        let cur = CURRENT.lock().unwrap().clone();
        if let Some((name, t0)) = cur {
            if t0.elapsed() > Duration::from_millis(HANG_MS) {
                println!("wfs\t{}\tFAIL\thang: the scenario did not finish within {} s (deadlock between a Notifier call and the watcher thread?)", name, HANG_MS / 1000);
                std::process::exit(3);
            }
        }
    });
}

fn wait_until(ms: u64, mut f: impl FnMut() -> bool) -> bool {
    let t0 = Instant::now();
    loop {
        if f() {
            return true;
        }
        if t0.elapsed() > Duration::from_millis(ms) {
            return false;
        }
        std::thread::sleep(Duration::from_millis(5));
    }
}

/// what the templates SHOULD be: the files under the watched path right now
fn disk_state(w: &Path) -> Vec<String> {
    NAMES.iter().map(|n| fs::read_to_string(w.join(n)).unwrap_or_else(|_| "<none>".into())).collect()
}

/// what the handed-out environment says they are
fn env_state(env: &Environment) -> Vec<String> {
    NAMES
        .iter()
        .map(|n| match env.get_template(n) {
            Ok(t) => t.render(()).unwrap_or_else(|e| format!("<render {:?}>", e.kind())),
            Err(e) if e.kind() == ErrorKind::TemplateNotFound => "<none>".into(),
            Err(e) => format!("<error {:?}>", e.kind()),
        })
        .collect()
}

fn apply(op: &str, w: &Path, out: &Path) {
    match op {
        "write" => fs::write(w.join("a.txt"), "a2").unwrap(),
        "write-nested" => fs::write(w.join("sub/c.txt"), "c2").unwrap(),
        "create" => fs::write(w.join("new.txt"), "n1").unwrap(),
        "delete" => fs::remove_file(w.join("b.txt")).unwrap(),
        "rename-inside" => fs::rename(w.join("b.txt"), w.join("new.txt")).unwrap(),
        "rename-out" => fs::rename(w.join("b.txt"), out.join("b.txt")).unwrap(),
        "rename-in" => fs::rename(out.join("in.txt"), w.join("in.txt")).unwrap(),
        "rename-dir" => fs::rename(w.join("sub"), w.join("sub2")).unwrap(),
        "rename-dir-out" => fs::rename(w.join("sub"), out.join("sub")).unwrap(),
        "atomic-save" => {
            fs::write(w.join(".a.txt.tmp"), "a3").unwrap();
            fs::rename(w.join(".a.txt.tmp"), w.join("a.txt")).unwrap();
        }
        "move-root" => fs::rename(w, out.join("moved-root")).unwrap(),
        "touch" => {
            let f = fs::OpenOptions::new().write(true).open(w.join("a.txt")).unwrap();
            f.set_modified(std::time::SystemTime::now() - Duration::from_secs(1000)).unwrap();
        }
        _ => panic!("bad op"),
    }
}

fn main() {
    start_watchdog();
    let base: PathBuf = std::env::temp_dir().join(format!("c20wfs-{}", std::process::id()));
    let _ = fs::remove_dir_all(&base);
    fs::create_dir_all(&base).unwrap();

    // does the sandbox deliver file notifications at all?
    let raw = Arc::new(AtomicUsize::new(0));
    let r2 = raw.clone();
    let mut rw = notify::recommended_watcher(move |_res: notify::Result<notify::Event>| {
        r2.fetch_add(1, Ordering::SeqCst);
    })
    .unwrap();
    let raw_ok = rw.watch(&base, notify::RecursiveMode::Recursive).is_ok() && {
        fs::write(base.join("probe.txt"), "x").unwrap();
        wait_until(3000, || raw.load(Ordering::SeqCst) > 0)
    };
    drop(rw);
    if !raw_ok {
        println!("wfs\tall\tskip\tno file notifications in this sandbox");
        fs::remove_dir_all(&base).ok();
        return;
    }

    let ops = [
        "write", "write-nested", "create", "delete", "rename-inside", "rename-out", "rename-in", "rename-dir", "rename-dir-out",
        "atomic-save", "move-root", "touch",
    ];
    let mut case_no = 0;
    // every missing notification costs a time-out: stop after a few failures
    let fails = std::cell::Cell::new(0usize);
    for (mode, fast, persistent) in [("full", false, false), ("fast", true, false), ("persistent", false, true)] {
        for op in ops {
            case_no += 1;
            begin(&format!("{}-{}", op, mode));
            let root = base.join(format!("case{}", case_no));
            let (w, out) = (root.join("w"), root.join("out"));
            fs::create_dir_all(w.join("sub")).unwrap();
            fs::create_dir_all(&out).unwrap();
            fs::write(w.join("a.txt"), "a1").unwrap();
            fs::write(w.join("b.txt"), "b1").unwrap();
            fs::write(w.join("sub/c.txt"), "c1").unwrap();
            fs::write(out.join("in.txt"), "i1").unwrap();

            let creates = Arc::new(AtomicUsize::new(0));
            let (c2, w2) = (creates.clone(), w.clone());
            let reloader = AutoReloader::new(move |n| {
                c2.fetch_add(1, Ordering::SeqCst);
                let mut env = Environment::new();
                env.set_loader(path_loader(&w2));
                n.set_fast_reload(fast);
                n.persistent_watch(persistent);
                n.watch_path(&w2, true);
                Ok(env)
            });
            let notified = Arc::new(AtomicUsize::new(0));
            let n2 = notified.clone();
            reloader.notifier().set_on_should_reload_callback(move || {
                n2.fetch_add(1, Ordering::SeqCst);
            });
            // load everything that exists (so that a stale cache is observable), twice: no reload in between
            let before = env_state(&reloader.acquire_env().unwrap());
            let again = env_state(&reloader.acquire_env().unwrap());
            let quiet = before == disk_state(&w) && again == before && creates.load(Ordering::SeqCst) == 1;
            // the reads above must not have produced notifications (access events are not requests)
            std::thread::sleep(Duration::from_millis(30));
            let n_before = notified.load(Ordering::SeqCst);

            apply(op, &w, &out);
            let got_note = wait_until(if op == "touch" { 300 } else { MUST_MS }, || notified.load(Ordering::SeqCst) > n_before);
            // let the remaining events of the same change arrive (rename = From + To + Both)
            std::thread::sleep(Duration::from_millis(40));
            let want = disk_state(&w);
            let after = env_state(&reloader.acquire_env().unwrap());
            let reflected = after == want;
            let c_after = creates.load(Ordering::SeqCst);
            let reload_kind_ok = if fast { c_after == 1 } else { !got_note || c_after >= 2 };
            let name = format!("{}-{}", op, mode);
            let detail = format!(
                "quiet-before={} notes-before={} notified={} reflected={} creates={} env={:?} disk={:?}",
                quiet, n_before, got_note, reflected, c_after, after, want
            );
            if op == "touch" {
                // not required to reload; must still be consistent
                println!("wfs\t{}\t{}\t{}", name, if reflected && quiet { "info" } else { "FAIL" }, detail);
            } else {
                let ok = quiet && n_before == 0 && got_note && reflected && reload_kind_ok;
                println!("wfs\t{}\t{}\t{}", name, if ok { "ok" } else { "FAIL" }, detail);
                if !ok {
                    fails.set(fails.get() + 1);
                }
            }
            if fails.get() >= MAX_FAILS {
                println!("wfs\tremaining-cases\tinfo\tskipped after {} failures", fails.get());
                fs::remove_dir_all(&base).ok();
                return;
            }
            // dead notifier with watch-fs: no-ops, no panic
            let n = reloader.notifier();
            drop(reloader);
            n.watch_path(&root, true);
            n.unwatch_path(&root);
            n.persistent_watch(true);
            n.request_reload();
            if !n.is_dead() {
                println!("wfs\tdead-notifier-{}\tFAIL\tnotifier alive after its reloader was dropped", name);
            }
        }
    }

    // ---- sequences: a reload must not silence LATER changes.  mode x where the path is registered x
    //      [request_reload + acquire, then three successive file changes, an acquire after each]
    let seqs: [(&str, [&str; 3]); 2] = [("s1", ["write", "rename-out", "create"]), ("s2", ["delete", "atomic-save", "rename-dir-out"])];
    for (mode, fast, persistent) in [("full", false, false), ("fast", true, false), ("persistent", false, true), ("fast+persistent", true, true)] {
        for site in ["creator", "outside"] {
            for (sname, ops) in &seqs {
                case_no += 1;
                begin(&format!("seq-{}-{}-{}", mode, site, sname));
                let root = base.join(format!("case{}", case_no));
                let (w, out) = (root.join("w"), root.join("out"));
                fs::create_dir_all(w.join("sub")).unwrap();
                fs::create_dir_all(&out).unwrap();
                fs::write(w.join("a.txt"), "a1").unwrap();
                fs::write(w.join("b.txt"), "b1").unwrap();
                fs::write(w.join("sub/c.txt"), "c1").unwrap();
                fs::write(out.join("in.txt"), "i1").unwrap();
                let creates = Arc::new(AtomicUsize::new(0));
                let (c2, w2) = (creates.clone(), w.clone());
                let in_creator = site == "creator";
                let reloader = AutoReloader::new(move |n| {
                    c2.fetch_add(1, Ordering::SeqCst);
                    let mut env = Environment::new();
                    env.set_loader(path_loader(&w2));
                    n.set_fast_reload(fast);
                    n.persistent_watch(persistent);
                    if in_creator {
                        n.watch_path(&w2, true);
                    }
                    Ok(env)
                });
                let notified = Arc::new(AtomicUsize::new(0));
                let n2 = notified.clone();
                reloader.notifier().set_on_should_reload_callback(move || {
                    n2.fetch_add(1, Ordering::SeqCst);
                });
                let name = format!("seq-{}-{}-{}", mode, site, sname);
                let mut problem: Option<String> = None;
                let first = env_state(&reloader.acquire_env().unwrap());
                if first != disk_state(&w) {
                    problem = Some("step0: first acquire does not reflect the disk".into());
                }
                if !in_creator {
                    // registered ONCE from outside (the documented use of persistent_watch)
                    reloader.notifier().watch_path(&w, true);
                }
                // a manual request before any file change: the reload it causes must keep the watcher
                let c0 = creates.load(Ordering::SeqCst);
                reloader.notifier().request_reload();
                let st = env_state(&reloader.acquire_env().unwrap());
                let c1 = creates.load(Ordering::SeqCst);
                if problem.is_none() && (st != disk_state(&w) || (fast && c1 != c0) || (!fast && c1 != c0 + 1)) {
                    problem = Some(format!("step0: request_reload + acquire: creates {}->{} env={:?}", c0, c1, st));
                }
                // documented: without persistent_watch and without fast reload a path registered from
                // outside is gone after a reload ("watch_path must be invoked again")
                let documented_loss = !in_creator && !fast && !persistent;
                for (k, op) in ops.iter().enumerate() {
                    if problem.is_some() {
                        break;
                    }
                    std::thread::sleep(Duration::from_millis(30));
                    let n_before = notified.load(Ordering::SeqCst);
                    let c_before = creates.load(Ordering::SeqCst);
                    apply(op, &w, &out);
                    let got_note = wait_until(if documented_loss { 300 } else { MUST_MS }, || notified.load(Ordering::SeqCst) > n_before);
                    std::thread::sleep(Duration::from_millis(40));
                    let want = disk_state(&w);
                    let after = env_state(&reloader.acquire_env().unwrap());
                    let c_after = creates.load(Ordering::SeqCst);
                    if documented_loss {
                        continue;
                    }
                    if !got_note {
                        problem = Some(format!("step{}:{}: no notification within {} ms (watcher gone?)", k + 1, op, MUST_MS));
                    } else if after != want {
                        problem = Some(format!("step{}:{}: next acquire does not reflect the disk env={:?} disk={:?}", k + 1, op, after, want));
                    } else if (fast && c_after != c_before) || (!fast && c_after <= c_before) {
                        problem = Some(format!("step{}:{}: wrong kind of reload, creator calls {}->{}", k + 1, op, c_before, c_after));
                    }
                }
                match problem {
                    None => println!("wfs\t{}\t{}\tsteps=4 creates={}", name, if documented_loss { "info" } else { "ok" }, creates.load(Ordering::SeqCst)),
                    Some(p) => {
                        println!("wfs\t{}\tFAIL\t{}", name, p);
                        fails.set(fails.get() + 1);
                    }
                }
                if fails.get() >= MAX_FAILS {
                    println!("wfs\tremaining-cases\tinfo\tskipped after {} failures", fails.get());
                    fs::remove_dir_all(&base).ok();
                    return;
                }
            }
        }
    }

    // ---- regression scenario of a race repaired by fix 5725511: fast reload is switched ON by someone else
    //      between prepare_and_mark_reload (which dropped the watcher because fast reload was off)
    //      and the create-or-clear decision.  Before the fix the second read saw fast reload on and
    //      did not run the creator: nobody re-registered, later file changes were not noticed.
    {
        use minijinja_autoreload::verif_hooks::{set_yield, Point};
        case_no += 1;
        begin("race-fast-switched-on-during-reload");
        let root = base.join(format!("case{}", case_no));
        let w = root.join("w");
        fs::create_dir_all(&w).unwrap();
        fs::write(w.join("a.txt"), "a1").unwrap();
        let w2 = w.clone();
        let reloader = Arc::new(AutoReloader::new(move |n| {
            let mut env = Environment::new();
            env.set_loader(path_loader(&w2));
            n.watch_path(&w2, true);
            Ok(env)
        }));
        let notified = Arc::new(AtomicUsize::new(0));
        let n2 = notified.clone();
        reloader.notifier().set_on_should_reload_callback(move || {
            n2.fetch_add(1, Ordering::SeqCst);
        });
        let _ = env_state(&reloader.acquire_env().unwrap());
        let armed = Arc::new(AtomicUsize::new(1));
        let (a2, nf) = (armed.clone(), reloader.notifier());
        set_yield(Some(Arc::new(move |p: Point| {
            if p == Point::AfterReset && a2.swap(0, Ordering::SeqCst) == 1 {
                nf.set_fast_reload(true); // "another thread", exactly in the window
            }
        })));
        reloader.notifier().request_reload();
        let _ = env_state(&reloader.acquire_env().unwrap());
        set_yield(None);
        std::thread::sleep(Duration::from_millis(30));
        let n_before = notified.load(Ordering::SeqCst);
        fs::write(w.join("a.txt"), "a2").unwrap();
        let got_note = wait_until(MUST_MS, || notified.load(Ordering::SeqCst) > n_before);
        std::thread::sleep(Duration::from_millis(40));
        let after = env_state(&reloader.acquire_env().unwrap());
        let ok = got_note && after == disk_state(&w);
        println!(
            "wfs\trace-fast-switched-on-during-reload\t{}\tnotified={} env[a.txt]={} disk[a.txt]={}",
            if ok { "ok" } else { "FAIL" }, got_note, after[0], disk_state(&w)[0]
        );
    }
    // ---- several watched paths / non-recursive / unwatch / bursts / contention on the notifier mutex
    extra_scenarios(&base, &mut case_no);

    // ---- the watcher's LIFETIME against the Lean model: operation sequences with persistent_watch and
    //      fast reload toggled at run time (given on the command line as a file of `site ops` lines; the
    //      expectation of every file change comes from the model: `X+` = a notification must arrive,
    //      `X-` = the model says nothing is watching)
    if let Some(path) = std::env::args().nth(1) {
        for line in fs::read_to_string(&path).unwrap_or_default().lines() {
            let f: Vec<&str> = line.split_whitespace().collect();
            if f.len() == 2 {
                case_no += 1;
                run_sequence(&base, case_no, f[0], f[1]);
            }
        }
    }
    fs::remove_dir_all(&base).ok();
}

struct Case {
    root: PathBuf,
    w: PathBuf,
    inc: PathBuf,
    creates: Arc<AtomicUsize>,
    notified: Arc<AtomicUsize>,
    reloader: Arc<AutoReloader>,
}

/// `w` (a.txt, b.txt, sub/c.txt) and `inc` (x.txt); the loader looks into both
fn make_case(base: &Path, case_no: usize, setup: impl Fn(&minijinja_autoreload::Notifier, &Path, &Path) + Send + Sync + 'static) -> Case {
    let root = base.join(format!("case{}", case_no));
    let (w, inc) = (root.join("w"), root.join("inc"));
    fs::create_dir_all(w.join("sub")).unwrap();
    fs::create_dir_all(&inc).unwrap();
    fs::write(w.join("a.txt"), "a1").unwrap();
    fs::write(w.join("b.txt"), "b1").unwrap();
    fs::write(w.join("sub/c.txt"), "c1").unwrap();
    fs::write(inc.join("x.txt"), "x1").unwrap();
    let creates = Arc::new(AtomicUsize::new(0));
    let (c2, w2, i2) = (creates.clone(), w.clone(), inc.clone());
    let reloader = Arc::new(AutoReloader::new(move |n| {
        c2.fetch_add(1, Ordering::SeqCst);
        let mut env = Environment::new();
        let (w3, i3) = (w2.clone(), i2.clone());
        env.set_loader(move |name| {
            for dir in [&w3, &i3] {
                if let Ok(s) = fs::read_to_string(dir.join(name)) {
                    return Ok(Some(s));
                }
            }
            Ok(None)
        });
        setup(&n, &w2, &i2);
        Ok(env)
    }));
    let notified = Arc::new(AtomicUsize::new(0));
    let n2 = notified.clone();
    reloader.notifier().set_on_should_reload_callback(move || {
        n2.fetch_add(1, Ordering::SeqCst);
    });
    Case { root, w, inc, creates, notified, reloader }
}

const NAMES2: [&str; 4] = ["a.txt", "b.txt", "sub/c.txt", "x.txt"];

impl Case {
    fn disk(&self) -> Vec<String> {
        NAMES2
            .iter()
            .map(|n| fs::read_to_string(self.w.join(n)).or_else(|_| fs::read_to_string(self.inc.join(n))).unwrap_or_else(|_| "<none>".into()))
            .collect()
    }
    fn env(&self) -> Vec<String> {
        let env = self.reloader.acquire_env().unwrap();
        NAMES2
            .iter()
            .map(|n| match env.get_template(n) {
                Ok(t) => t.render(()).unwrap_or_else(|e| format!("<render {:?}>", e.kind())),
                Err(e) if e.kind() == ErrorKind::TemplateNotFound => "<none>".into(),
                Err(e) => format!("<error {:?}>", e.kind()),
            })
            .collect()
    }
    /// a change that must be noticed: wait for the notification (bounded), then the next acquire must show the disk
    fn change_must_be_served(&self, what: &str, change: impl FnOnce()) -> Result<(), String> {
        let n_before = self.notified.load(Ordering::SeqCst);
        change();
        if !wait_until(MUST_MS, || self.notified.load(Ordering::SeqCst) > n_before) {
            return Err(format!("{}: no notification within {} ms", what, MUST_MS));
        }
        let (want, got) = (self.disk(), self.env());
        if got != want {
            return Err(format!("{}: next acquire does not reflect the disk env={:?} disk={:?}", what, got, want));
        }
        Ok(())
    }
}

fn report(name: &str, r: Result<(), String>) {
    match r {
        Ok(()) => println!("wfs\t{}\tok\t-", name),
        Err(e) => println!("wfs\t{}\tFAIL\t{}", name, e),
    }
}

fn extra_scenarios(base: &Path, case_no: &mut usize) {
    for (mode, fast, persistent) in [("full", false, false), ("fast", true, false), ("persistent", false, true)] {
        // (1) TWO watched paths registered by the creator: a change under either must be served, the
        //     first-registered one first, and again after a reload
        *case_no += 1;
        begin(&format!("two-paths-{}", mode));
        let c = make_case(base, *case_no, move |n, w, inc| {
            n.set_fast_reload(fast);
            n.persistent_watch(persistent);
            n.watch_path(w, true);
            n.watch_path(inc, true);
        });
        let r = (|| {
            if c.env() != c.disk() {
                return Err("first acquire does not reflect the disk".to_string());
            }
            c.change_must_be_served("change under the first registered path", || fs::write(c.w.join("a.txt"), "a2").unwrap())?;
            c.change_must_be_served("change under the second registered path", || fs::write(c.inc.join("x.txt"), "x2").unwrap())?;
            c.change_must_be_served("nested change under the first path", || fs::write(c.w.join("sub/c.txt"), "c2").unwrap())?;
            c.change_must_be_served("second change under the first path", || fs::write(c.w.join("b.txt"), "b2").unwrap())
        })();
        report(&format!("two-paths-{}", mode), r);

        // (2) non-recursive registration: a change directly under the path must be served
        *case_no += 1;
        begin(&format!("non-recursive-{}", mode));
        let c = make_case(base, *case_no, move |n, w, _| {
            n.set_fast_reload(fast);
            n.persistent_watch(persistent);
            n.watch_path(w, false);
        });
        let r = (|| {
            if c.env() != c.disk() {
                return Err("first acquire does not reflect the disk".to_string());
            }
            c.change_must_be_served("top-level change, non-recursive watch", || fs::write(c.w.join("a.txt"), "a2").unwrap())?;
            c.change_must_be_served("top-level create, non-recursive watch", || fs::write(c.w.join("b.txt"), "b2").unwrap())
        })();
        report(&format!("non-recursive-{}", mode), r);

        // (3) bursts: several events for one save, and the NEXT change right after the acquire (no pause):
        //     it must be noticed as well (nothing may be swallowed as "part of the same burst")
        *case_no += 1;
        begin(&format!("burst-{}", mode));
        let c = make_case(base, *case_no, move |n, w, _| {
            n.set_fast_reload(fast);
            n.persistent_watch(persistent);
            n.watch_path(w, true);
        });
        let r = (|| {
            if c.env() != c.disk() {
                return Err("first acquire does not reflect the disk".to_string());
            }
            c.change_must_be_served("burst of writes + atomic save", || {
                for k in 0..5 {
                    fs::write(c.w.join("a.txt"), format!("a-burst{}", k)).unwrap();
                }
                fs::write(c.w.join(".a.txt.tmp"), "a-saved").unwrap();
                fs::rename(c.w.join(".a.txt.tmp"), c.w.join("a.txt")).unwrap();
            })?;
            for k in 0..3 {
                c.change_must_be_served(&format!("change {} right after the acquire that served the burst", k), || {
                    fs::write(c.w.join("b.txt"), format!("b-after{}", k)).unwrap()
                })?;
            }
            Ok(())
        })();
        report(&format!("burst-{}", mode), r);
    }

    // (4) unwatch_path of ONE path keeps the other watched (persistent watcher registered from outside,
    //     and fast reload with registration in the creator)
    for (mode, fast, persistent) in [("fast", true, false), ("persistent", false, true)] {
        *case_no += 1;
        begin(&format!("unwatch-one-of-two-{}", mode));
        let c = make_case(base, *case_no, move |n, w, inc| {
            n.set_fast_reload(fast);
            n.persistent_watch(persistent);
            n.watch_path(w, true);
            n.watch_path(inc, true);
        });
        let r = (|| {
            if c.env() != c.disk() {
                return Err("first acquire does not reflect the disk".to_string());
            }
            c.reloader.notifier().unwatch_path(&c.inc);
            c.change_must_be_served("change under the path that is still watched", || fs::write(c.w.join("a.txt"), "a2").unwrap())?;
            c.change_must_be_served("second change under it", || fs::write(c.w.join("b.txt"), "b2").unwrap())
        })();
        report(&format!("unwatch-one-of-two-{}", mode), r);
    }

    // (4b) the registration calls go into the watcher (they wait for its thread) while that thread is
    //      delivering events (it takes the notifier mutex): neither may wait for the other for ever.
    //      File changes keep coming from a background thread while the paths are registered again and
    //      again (what a creator does on every reload with persistent_watch / what an outside thread
    //      does), with reloads in between.  Completion is an event that must happen (watchdog).
    for (mode, fast, persistent) in [("persistent", false, true), ("fast", true, false), ("full", false, false)] {
        *case_no += 1;
        begin(&format!("register-while-events-flow-{}", mode));
        let c = make_case(base, *case_no, move |n, w, inc| {
            n.set_fast_reload(fast);
            n.persistent_watch(persistent);
            n.watch_path(w, true);
            n.watch_path(inc, true);
        });
        let stop = Arc::new(std::sync::atomic::AtomicBool::new(false));
        let (s2, w2) = (stop.clone(), c.w.clone());
        let writer = std::thread::spawn(move || {
            let mut k = 0u64;
            while !s2.load(Ordering::SeqCst) {
                k += 1;
                fs::write(w2.join("b.txt"), format!("b-flow{}", k)).unwrap();
                if k % 8 == 0 {
                    std::thread::sleep(Duration::from_millis(1));
                }
            }
        });
        let r = (|| {
            for round in 0..150 {
                c.reloader.notifier().watch_path(&c.w, true);
                c.reloader.notifier().watch_path(&c.inc, true);
                if round % 4 == 0 {
                    c.reloader.notifier().request_reload();
                }
                drop(c.reloader.acquire_env().unwrap());
            }
            stop.store(true, Ordering::SeqCst);
            writer.join().unwrap();
            // quiescent again: one more change must be served
            c.change_must_be_served("change after the registrations", || fs::write(c.w.join("a.txt"), "a-final").unwrap())
        })();
        stop.store(true, Ordering::SeqCst);
        report(&format!("register-while-events-flow-{}", mode), r);
    }

    // (4c) `watch_path` from SEVERAL THREADS at once, none of them the creator (paths registered from outside:
    //      persistent_watch, or fast reload so that no reload drops the watcher): the first registrations race
    //      for creating the watcher; whoever wins, EVERY registered path must be watched afterwards (model:
    //      MJ.WatcherReg, concurrent_watch_paths_share_one_watcher).  Several rounds, each on a fresh reloader.
    for (mode, fast, persistent) in [("persistent", false, true), ("fast", true, false)] {
        begin(&format!("concurrent-registrations-{}", mode));
        let mut r: Result<(), String> = Ok(());
        for round in 0..4 {
            *case_no += 1;
            let c = make_case(base, *case_no, move |n, _, _| {
                n.set_fast_reload(fast);
                n.persistent_watch(persistent);
            });
            r = (|| {
                if c.env() != c.disk() {
                    return Err("first acquire does not reflect the disk".to_string());
                }
                let barrier = Arc::new(std::sync::Barrier::new(4));
                let other = c.root.join("other");
                fs::create_dir_all(&other).unwrap();
                let regs: Vec<(PathBuf, bool)> = vec![(c.w.clone(), false), (c.w.join("sub"), false), (c.inc.clone(), true), (other, true)];
                let hs: Vec<_> = regs
                    .into_iter()
                    .map(|(path, rec)| {
                        let (b, n) = (barrier.clone(), c.reloader.notifier());
                        std::thread::spawn(move || {
                            b.wait();
                            n.watch_path(&path, rec);
                        })
                    })
                    .collect();
                for h in hs {
                    h.join().map_err(|_| "a registering thread panicked".to_string())?;
                }
                c.change_must_be_served(&format!("round {}: change under the path registered by thread 0", round), || fs::write(c.w.join("a.txt"), "a2").unwrap())?;
                c.change_must_be_served(&format!("round {}: change under the path registered by thread 1", round), || fs::write(c.w.join("sub/c.txt"), "c2").unwrap())?;
                c.change_must_be_served(&format!("round {}: change under the path registered by thread 2", round), || fs::write(c.inc.join("x.txt"), "x2").unwrap())?;
                c.change_must_be_served(&format!("round {}: second change under thread 0's path", round), || fs::write(c.w.join("b.txt"), "b2").unwrap())
            })();
            if r.is_err() {
                break;
            }
        }
        report(&format!("concurrent-registrations-{}", mode), r);
    }

    // (5) contention on the notifier mutex: the freshness callback (user code, "usually stats files") runs
    //     UNDER it.  A file change that is reported meanwhile has to wait for the mutex; it must not be
    //     dropped.  (the sleep only gives the watcher thread time to get there; every wait that decides
    //     the verdict is for an event that must happen)
    for (mode, fast) in [("full", false), ("fast", true)] {
        *case_no += 1;
        begin(&format!("change-while-notifier-mutex-held-{}", mode));
        let c = make_case(base, *case_no, move |n, w, _| {
            n.set_fast_reload(fast);
            n.watch_path(w, true);
        });
        let gate = Arc::new((std::sync::Mutex::new(0u8), std::sync::Condvar::new()));
        let g2 = gate.clone();
        c.reloader.notifier().set_callback(move || {
            let (m, cv) = &*g2;
            let mut g = m.lock().unwrap();
            if *g == 1 {
                *g = 2;
                cv.notify_all();
                while *g != 3 {
                    g = cv.wait(g).unwrap();
                }
            }
            false
        });
        let r = (|| {
            if c.env() != c.disk() {
                return Err("first acquire does not reflect the disk".to_string());
            }
            *gate.0.lock().unwrap() = 1;
            let r1 = c.reloader.clone();
            let t1 = std::thread::spawn(move || drop(r1.acquire_env().unwrap()));
            {
                let (m, cv) = &*gate;
                let mut g = m.lock().unwrap();
                let deadline = Instant::now() + Duration::from_millis(MUST_MS);
                while *g != 2 {
                    let now = Instant::now();
                    if now >= deadline {
                        *g = 3;
                        cv.notify_all();
                        return Err("the freshness callback was not polled".to_string());
                    }
                    g = cv.wait_timeout(g, deadline - now).unwrap().0;
                }
            }
            let n_before = c.notified.load(Ordering::SeqCst);
            fs::write(c.w.join("a.txt"), "a-contended").unwrap();
            std::thread::sleep(Duration::from_millis(150));
            {
                let (m, cv) = &*gate;
                *m.lock().unwrap() = 3;
                cv.notify_all();
            }
            t1.join().unwrap();
            if !wait_until(MUST_MS, || c.notified.load(Ordering::SeqCst) > n_before) {
                return Err("no notification for a change reported while the notifier mutex was held".to_string());
            }
            let (want, got) = (c.disk(), c.env());
            if got != want {
                return Err(format!("change reported while the notifier mutex was held is not served: env={:?} disk={:?}", got, want));
            }
            Ok(())
        })();
        report(&format!("change-while-notifier-mutex-held-{}", mode), r);
        let _ = &c.root;
    }
}

/// one operation sequence; ops (comma separated): `P0|P1` persistent_watch, `F0|F1` set_fast_reload,
/// `W` watch_path from outside, `R` request_reload + acquire, `A` acquire, `X+|X-` file change (+ = the
/// model says the paths are watched: a notification must arrive; - = nothing is watching) + acquire.
/// The change is the removal of one file: exactly ONE event that the closure accepts (no trailing
/// events that would request further reloads later), so the creator calls are comparable, too.
/// site `c` = the creator registers the path, `o` = it does not.
/// prints `wfsseq\t<site>\t<ops>\t<X results>|C=<creator calls>`
fn run_sequence(base: &Path, case_no: usize, site: &str, ops: &str) {
    begin(&format!("lifetime-sequence {} {}", site, ops));
    let in_creator = site == "c";
    let c = make_case(base, case_no, move |n, w, _| {
        if in_creator {
            n.watch_path(w, true);
        }
    });
    let names: Vec<String> = (1..=9).map(|k| format!("d{}.txt", k)).collect();
    for n in &names {
        fs::write(c.w.join(n), format!("content of {}", n)).unwrap();
    }
    let disk = |c: &Case| -> Vec<String> { names.iter().map(|n| fs::read_to_string(c.w.join(n)).unwrap_or_else(|_| "<none>".into())).collect() };
    let envs = |c: &Case| -> Vec<String> {
        let env = c.reloader.acquire_env().unwrap();
        names
            .iter()
            .map(|n| match env.get_template(n) {
                Ok(t) => t.render(()).unwrap_or_else(|e| format!("<render {:?}>", e.kind())),
                Err(e) if e.kind() == ErrorKind::TemplateNotFound => "<none>".into(),
                Err(e) => format!("<error {:?}>", e.kind()),
            })
            .collect()
    };
    let mut res: Vec<String> = vec![];
    let mut problem: Option<String> = None;
    if envs(&c) != disk(&c) {
        problem = Some("first acquire does not reflect the disk".into());
    }
    let mut k = 0;
    for op in ops.split(',') {
        match op {
            "P0" | "P1" => c.reloader.notifier().persistent_watch(op == "P1"),
            "F0" | "F1" => c.reloader.notifier().set_fast_reload(op == "F1"),
            "W" => c.reloader.notifier().watch_path(&c.w, true),
            "A" => drop(envs(&c)),
            "R" => {
                c.reloader.notifier().request_reload();
                if envs(&c) != disk(&c) && problem.is_none() {
                    problem = Some("acquire after request_reload does not reflect the disk".into());
                }
            }
            "X+" | "X-" => {
                k += 1;
                let n_before = c.notified.load(Ordering::SeqCst);
                fs::remove_file(c.w.join(&names[(k - 1) % names.len()])).unwrap();
                let must = op == "X+";
                let got = wait_until(if must { MUST_MS } else { QUIET_MS }, || c.notified.load(Ordering::SeqCst) > n_before);
                res.push(if got { "n".into() } else { "-".into() });
                let (want, have) = (disk(&c), envs(&c));
                if got && have != want && problem.is_none() {
                    problem = Some(format!("change {}: notified but the next acquire does not reflect the disk env={:?} disk={:?}", k, have, want));
                }
            }
            _ => problem = Some(format!("bad op {}", op)),
        }
    }
    println!(
        "wfsseq\t{}\t{}\t{}|C={}{}",
        site,
        ops,
        res.join(""),
        c.creates.load(Ordering::SeqCst),
        problem.map(|p| format!("|problem={}", p)).unwrap_or_default()
    );
}
