"""C16 — values round-trip through serde, tojson emits valid HTML-safe JSON (DESIGN.md §3 C16)."""
import json, struct, collections

READY = True

META = {
    "technique": "Lean 4 proof (serde data model by shape: de ∘ ser = id; handle registry; JSON writer for whole values in all formatter styles + independent JSON reader: read ∘ tojson ∘ write = id; HTML-safe alphabet) + differential runs of a shape-driven Serialize/DeserializeSeed pair, derived types, and three independent JSON readers (Python json, serde_json, the Lean reader); second generation: serde's buffering read path, Serde<T> call arguments, Value as deserialisation target, serde's std-type impls, serde_json's own JSON of the same datum as reference, an exhaustive family for the tojson post-processing, regenerated method / arm tables of both serde impls; third generation: the dispatch of deserialize.rs on its source value regenerated arm by arm with first-match semantics in Lean and proved to be a function of the value's kind, every Deserializer method on every representation probed against an executable Lean model, C16_main with the code/model gap as named ties, the digits of a float token proved to lie in the double's rounding interval",
    "category": "proof",
    "text": "Kernel-checked theorems about an executable model of value/serialize.rs (ValueSerializer), value/deserialize.rs (Deserializer for Value driven by the derived visitor of a shape, including serde's lenient primitive conversions) and the value-handle registry: every well-formed datum of every shape (bools, 8..64-bit integers, f32/f64 bit patterns, chars, strings, bytes, options of non-optional payloads, unit, seqs, tuples, maps, unit/newtype/tuple/field structs, enums with unit/newtype/tuple/struct variants, nested arbitrarily) deserialises from its serialisation to itself; de decides (ok/error) every object-free value for every shape; an embedded Value comes back identical whatever the registry held before, and the two-tier handle registry (its fast-path condition regenerated from the source) refines a finite map for every sequence of inserts and removes. For JSON: the text of every value that has a JSON image (nested arrays/objects, keys by string form, none/undefined/non-finite floats null, bytes as numbers, integers of every width, finite floats by ryu's shortest text) written by serde_json's compact writer, the JinjaJsonFormatter, or the pretty writer with any indent, and post-processed by tojson (table extracted from filters.rs) or not (auto-escaping), is read back to exactly that image by an independent strict JSON reader; tojson output never contains < > & '; towards an external serializer a value announces a sequence length only when exactly that many elements follow (serde's contract, which serde_json relies on), for lists, tuples, one-shot iterators, make_iterable adapters and custom objects with every Enumerator answer. The model is tied to /repo by running the same random shapes/data through the real Serializer/Deserializer and through the model, and by predicting the real tojson / auto-escape output character for character (member order of the BTreeMap and IndexMap builds, float text), which is also parsed by Python's json (bit-exact floats) and serde_json. Further theorems: no byte of the UTF-8 encoding of tojson output is one of < > & '; which map keys have a JSON string form and which make the serialiser refuse; the deserializer model cannot tell a value from the copy serde's buffering (untagged / internally tagged enums, flatten) makes of it, so the round trip holds through the buffer; a datum handed to a function / filter / test / method parameter of type Serde<T> arrives as the original (never taken from keyword arguments or from nothing), for Option<Serde<T>> whenever T cannot serialise to none; plain data read back into a Value (impl Deserialize for Value) is its normal form (undefined as none, no safe flag, tuples as lists) and keeps its JSON image; IndexMap build: new keys last, existing keys keep their position; every method of serde's Serializer / Deserializer traits (regenerated from the locked serde_core) is accounted for in both impls (explicit, forwarded to deserialize_any, or the trait's unsupported default for 128-bit integers) and the scalar arms of ValueSerializer, the arms of deserialize_any and of impl Serialize for Value are the ones the model transcribes. Session 4: every `match` of deserialize.rs on the source value (deserialize_any / _option / _enum / _unit_struct / _newtype_struct of the owned deserializer, unit_variant / newtype_variant_seed / tuple_variant / struct_variant of the variant access) and Value::kind() are regenerated arm by arm (SERDE_DE_DISPATCH: selectors repr:X / obj:X / kind:X / some / absent / *, anything else - a guard that is not the object's repr(), an unknown pattern - is opaque and fails); Lean resolves them with Rust's first-match semantics on each of the 16 representations (ValueRepr x ObjectRepr) and on the absent payload and proves that the result is what the dispatch written by serde-visible kind (`spec`) says (deserializer_dispatch_as_modelled), hence that two representations of one kind - SmallStr / Arc<str> / safe string, none / undefined - are always dispatched alike (deserializer_dispatch_is_by_kind; seeded C16-8 now also breaks this theorem). An executable model `probe` of all 30 trait methods + the 4 variant accesses on every kind is run against the real code (stream rk: 34 methods x every representation x owned / borrowed deserializer, a visitor recording the visit_* call and payload). C16_main states the property about the code under four named ties (ser_as_model, de_as_model, tojson_as_model, autoescape_as_model) and the specification CorrectlyRounded of the JSON reader's number parsing; float_token_roundtrip proves that the token printed for any finite double is its sign plus a body that a digit-by-digit reader evaluates to a decimal inside the double's rounding interval; float_digits_read_back proves, for every finite non-zero double, that the decimal d*10^k chosen for it lies in its rounding interval (open / closed as round-to-nearest-even makes it), float_digit_search_terminates that the exact search never runs out of steps.",
    "design_ref": "DESIGN.md §3 C16",
    "level_note": "Trusted: Lean kernel; hand transcription of serialize.rs/deserialize.rs/ValueHandleRegistry into MJ/Model/Serde.lean and of serde_json's writer/formatters, ryu's format64 layout and Value::cmp on map keys into MJ/Model/Json.lean (validated by the correspondence streams, sampled; every emitted text is predicted exactly); serde's own primitive/Option/seq/map visitors and derive output are represented by the harness' Seed visitors (and by 13 really derived types + 4 families of std types); serde's Content buffering: the filling of the buffer from a Value (Content::deserialize = deserialize_any with the ContentVisitor, by kind) and the visitor calls its deserialize_any replays are transcribed (toContent / ofContent) and proved to compose to `normV` (content_buffer_is_normal_form, content_buffer_roundtrip); the variant selection of untagged / internally / adjacently tagged enums and flatten's FlatMapDeserializer (serde's private de module) are NOT transcribed - for them the model assumes that ContentDeserializer reads the copy like `de` reads a value, accepting at most more (validated by the buf stream through five derive forms on round-trip data). The printed float token denotes the same double: PROVED in session 4 (float_token_roundtrip) for every finite double - (a) the exact digit search stops at a candidate within its 800 steps (float_digit_search_terminates: at 10^-325 the rounding interval is wider than three units and the search reaches that power in time), (b) the candidate d*10^k lies in the double's rounding interval, open / closed as round-to-nearest-even makes it (float_digits_read_back), (c) ryu's layout of the digits, all five cases of format64, is a token that an independent digit-by-digit reader in Lean (readTok: integer part, fraction, exponent) evaluates to d*10^k (readTok_layout); hence every reader satisfying the specification CorrectlyRounded returns the double (float_token_reads_back, used by C16_main). What this rests on: the transcription of ryu's output into shortestDec / layoutF (validated: every float text of every stream is predicted character for character, and the ff stream - every binade boundary with both neighbours, decimal powers, 2^53 neighbourhood, random patterns, 11k quick / 130k thorough - also evaluates found / in-interval in the driver and reads the real token back with Rust's str::parse and Python's float()); CorrectlyRounded is the reader's specification (its consistency - rounding intervals of different doubles are disjoint - is not proved in Lean). STILL ONLY VALIDATED: the four ties of C16_main (named there with the streams / tables that check each); serde's derive output (Seed visitors + 13 derived types), Content buffering (normV; buf stream). OUTSIDE THE MODEL: the probe model covers nested values built by the harness (64-bit integers where they fit); integers in a 128-bit representation that fit 64 bits are dispatched to visit_i128 / visit_u128, which serde's 8..64-bit visitors refuse - recorded behaviour (the serializer never makes such values of 64-bit data), no oracle. MOVED FROM VALIDATED TO PROVED in session 3 (redone in session 4): the dispatch of all nine functions of deserialize.rs that look at the source value, as a table regenerated from the source with a theorem over it (before: deserialize_any's arms and the text of deserialize_option compared literally, deserialize_enum and the variant access hand-transcribed and only run); normV as the image of serde's Content buffer (before: an unexplained normal form); representation-independence of the deserializer (by-kind theorem); float_token_roundtrip in full (search termination, digits inside the rounding interval, layout denotes the digits) - before: Python's float() on sampled cases; the property about the code as one theorem with its hypotheses named (C16_main).",
}

SITE_TOP = lambda case: case.split()[1] if len(case.split()) > 1 else "?"


# ------------------------------------------------------------------ value descriptions → expected JSON image
def parse_vd(toks, i):
    t = toks[i]
    if t in ("undef", "none", "X"):
        return ("null",), i + 1
    h, rest = t[0], t[1:]
    if h == "T":
        return ("bool", True), i + 1
    if h == "F":
        return ("bool", False), i + 1
    if h in "iu":
        return ("int", int(rest)), i + 1
    if h == "d":
        return ("float", int(rest)), i + 1
    if h in "sSO":
        return ("str", bytes.fromhex(rest).decode("utf-8")), i + 1
    if h == "y":
        return ("list", [("int", b) for b in bytes.fromhex(rest)]), i + 1
    if h == "Z":
        n = int(toks[i + 1]); i += 2
        xs = []
        for _ in range(n):
            x, i = parse_vd(toks, i)
            xs.append(x)
        # the Empty / NonEnumerable answers yield nothing
        return ("list", [] if rest in ("ce", "cn") else xs), i
    if h == "W":
        n = int(toks[i + 1]); i += 2
        ms = []
        for _ in range(n):
            k, i = parse_vd(toks, i)
            v, i = parse_vd(toks, i)
            ms.append((k, v))
        return ("dict", [] if rest == "wn" else ms), i
    if h in "LP":
        n = int(toks[i + 1]); i += 2
        xs = []
        for _ in range(n):
            x, i = parse_vd(toks, i)
            xs.append(x)
        return ("list", xs), i
    if h == "M":
        n = int(toks[i + 1]); i += 2
        ms = []
        for _ in range(n):
            k, i = parse_vd(toks, i)
            v, i = parse_vd(toks, i)
            ms.append((k, v))
        return ("dict", ms), i
    raise ValueError("bad value token " + t)


def f64_of_bits(bits):
    return struct.unpack(">d", struct.pack(">Q", bits))[0]


def bits_of_f64(x):
    return struct.unpack(">Q", struct.pack(">d", x))[0]


def finite(bits):
    return (bits >> 52) & 0x7FF != 0x7FF


class NoImage(Exception):
    """the value has a map key without JSON string form: the engine must refuse"""


def image_matches(exp, got):
    """does the parsed JSON `got` equal the JSON image of the described value?"""
    k = exp[0]
    if k == "null":
        return got is None
    if k == "bool":
        return got is exp[1]
    if k == "int":
        return type(got) is int and got == exp[1]
    if k == "float":
        if not finite(exp[1]):
            return got is None          # non-finite floats as null
        return type(got) is float and bits_of_f64(got) == exp[1]
    if k == "str":
        return type(got) is str and got == exp[1]
    if k == "list":
        return type(got) is list and len(got) == len(exp[1]) and all(image_matches(a, b) for a, b in zip(exp[1], got))
    if k == "dict":
        if type(got) is not dict or len(got) != len(exp[1]):
            return False
        used = set()
        for key, val in exp[1]:
            name = None
            if key[0] == "str":
                name = key[1]
            elif key[0] == "int":
                name = str(key[1])
            elif key[0] == "bool":
                name = "true" if key[1] else "false"
            elif key[0] == "float":
                if not finite(key[1]):
                    raise NoImage()
                for cand in got:               # the key's string form must read back as the same float
                    try:
                        if cand not in used and bits_of_f64(float(cand)) == key[1] and cand.strip() == cand:
                            name = cand
                            break
                    except ValueError:
                        pass
            else:
                raise NoImage()
            if name is None or name not in got or name in used:
                return False
            used.add(name)
            if not image_matches(val, got[name]):
                return False
        return True
    return False


def has_bad_key(exp):
    if exp[0] == "list":
        return any(has_bad_key(x) for x in exp[1])
    if exp[0] == "dict":
        for key, val in exp[1]:
            if key[0] in ("null", "list", "dict") or (key[0] == "float" and not finite(key[1])):
                return True
            if has_bad_key(val):
                return True
    return False


def _reject_constant(name):
    raise ValueError("non-standard JSON constant " + name)


def py_parse(text):
    return json.loads(text, parse_constant=_reject_constant)


# ------------------------------------------------------------------ the `rk` stream: what the property itself demands
_INT_METHS = {"u8": (0, 2**8 - 1), "u16": (0, 2**16 - 1), "u32": (0, 2**32 - 1), "u64": (0, 2**64 - 1),
              "i8": (-2**7, 2**7 - 1), "i16": (-2**15, 2**15 - 1), "i32": (-2**31, 2**31 - 1), "i64": (-2**63, 2**63 - 1)}


def rk_expected(meth, rep, how, desc):
    """For a source in the representation the serializer itself produces for a primitive datum, and the method serde's
    own `Deserialize` impl of that datum's type calls (or `deserialize_any` / `_ignored_any` / `_option` /
    `_newtype_struct`): the set of visitor calls that hand the datum back (a standard visitor accepts an in-range
    integer as `visit_u64` or `visit_i64`).  None = the property says nothing about this combination."""
    if " " in desc or how not in ("ref", "i64", "u64", "vd"):
        return None
    wrap = lambda xs: xs
    if meth == "option" and desc != "none":
        wrap, meth = (lambda xs: {"some(" + x + ")" for x in xs}), "any"
    elif meth == "newtype_struct":
        wrap, meth = (lambda xs: {"newtype(" + x + ")" for x in xs}), "any"
    if rep == "none":
        return wrap({"unit", "none"}) if meth in ("any", "unit", "unit_struct", "option", "ignored_any") else None
    if rep == "bool":
        return wrap({"bool:" + desc}) if meth in ("any", "bool", "ignored_any") else None
    if rep in ("u64", "i64"):
        n = int(desc[1:])
        if meth in ("any", "ignored_any") or (meth in _INT_METHS and _INT_METHS[meth][0] <= n <= _INT_METHS[meth][1]):
            acc = set()
            if n >= 0:
                acc.add(f"u64:{n}")
            if n < 2**63:
                acc.add(f"i64:{n}")
            return wrap(acc)
        return None
    if rep == "f64":
        return wrap({"f64:" + desc[1:]}) if meth in ("any", "f64", "ignored_any") else None
    if rep in ("smallStr", "string") and desc[0] == "s":
        text = bytes.fromhex(desc[1:]).decode("utf-8")
        if meth in ("any", "str", "string", "identifier", "ignored_any") or (meth == "char" and len(text) == 1):
            return wrap({"str:" + desc[1:]})
        if meth == "enum:unit":
            return {"enum(str:" + desc[1:] + ";unit:ok)"}
        return None
    if rep == "bytes":
        return wrap({"bytes:" + desc[1:]}) if meth in ("any", "bytes", "byte_buf", "ignored_any") else None
    return None


# ------------------------------------------------------------------ run
def check_lines(r, lines, model):
    rk_groups = collections.defaultdict(list)
    for i, line in enumerate(lines):
        f = line.split("\t")
        case = f[0]
        stream = case.split(" ", 1)[0]
        m = model[i].split("\t") if model is not None else None
        r.hist["stream"][stream] += 1
        if stream in ("rt", "x"):
            top = SITE_TOP(case)
            r.hist["shape"][top] += 1
            de = "err" if f[2].startswith("err") else f[2]
            r.hist[stream + "_result"][de.split(" ")[0]] += 1
            r.count(case, len(case.split()) > 4)
            if stream == "rt" and f[3] != "eq":
                r.oracle_failure(case, f"serialised to [{f[1]}], deserialised to [{f[2]}]: not the original", f"rt:{top}:{de.split(' ')[0]}")
            if m is not None:
                if m[0] == "bad-case":
                    r.broken.append("model driver could not read case " + case)
                elif m[1] == "?":
                    r.hist["model"]["unmodelled:" + stream] += 1
                    if f[1] != m[0]:
                        r.model_disagreement(case, f[1], m[0])
                elif f[1] != m[0] or de != m[1]:
                    r.model_disagreement(case, f[1] + " | " + de, m[0] + " | " + m[1])
                else:
                    r.hist["model"]["agree:" + stream] += 1
        elif stream == "derived":
            r.count(case, True)
            res = f[1]
            r.hist["derived"][case.split()[1]] += 1
            if res != "ok":
                r.oracle_failure(case, res[:400], "derived:" + case.split()[1] + ":" + res.split(":")[0])
        elif stream == "derivedx":
            # tagged / untagged enums, flatten, renames, Cow, serde_json::Value, Serde<T> arguments: extra oracle;
            # 128-bit integers and Option<Option<T>> are outside the statement (recorded only)
            r.count(case, True)
            ty = case.split()[1]
            res = f[1]
            r.hist["derivedx"][ty + ":" + res.split(":")[0]] += 1
            if ty in ("Wide", "OptOpt", "Borrowed"):
                if res.startswith("panic") or (ty == "Borrowed" and res.startswith("ne")):
                    r.oracle_failure(case, res[:300], "derivedx:" + ty + ":panic")
            elif res != "ok":
                r.oracle_failure(case, res[:400], "derivedx:" + ty + ":" + res.split(":")[0])
        elif stream == "reg":
            # n handles alive at once, resolved in the given order: every resolved handle must give back the
            # value it was created for (first resolution), a second resolution finds nothing
            r.count(case, True)
            _, n, order = case.split()
            n = int(n)
            order = [] if order == "-" else [int(x) for x in order.split(",")]
            r.hist["reg_live_handles"][str(min(n, 40) // 10 * 10) + "+"] += 1
            seen, want = set(), []
            for i in order:
                want.append("_" if i in seen else str(i + 1))
                seen.add(i)
            if f[1] == "panic" or f[2].split(",") != (want if want else [""]):
                r.oracle_failure(case, f"values resolved through the handle registry: got [{f[2][:120]}], expected [{','.join(want)[:120]}]", "reg:resolve")
            if m is not None and (m[0] != f[1] or m[1] != f[2]):
                r.model_disagreement(case, f[1] + " | " + f[2], m[0] + " | " + m[1])
            elif m is not None:
                r.hist["model"]["agree:reg"] += 1
        elif stream == "embed":
            r.count(case, True)
            _, ctx, kind, _seed = case.split()
            r.hist["embed_ctx"][ctx] += 1
            if f[1] != "same":
                r.oracle_failure(case, f[1][:300], f"embed:{ctx}:{kind}")
        elif stream == "json":
            toks = case.split()
            mode = toks[1]
            cls = "tojson" if mode.startswith("tojson") else "autoescape" if mode.startswith("auto") else "serde_json"
            # an object whose iterator lies about its length is outside the statement: only the model tie applies
            liar = any(t.startswith("Zl") for t in toks)
            exp, _ = parse_vd(toks, 2)
            out, alpha, sj = f[1], f[2], f[3]
            r.count(case, len(toks) > 3 or len(toks[2]) > 1)
            r.hist["json_mode"][mode] += 1
            failed = out.startswith("err:") or out == "panic"
            if m is not None:
                if m[0] == "bad-case":
                    r.broken.append("model driver could not read case " + case[:120])
                elif m[0] == "?":
                    r.hist["model"]["unmodelled:json"] += 1
                elif m[0] in ("refuse", "panic"):
                    want = "panic" if m[0] == "panic" else "err:"
                    if not out.startswith(want):
                        r.model_disagreement(case, out[:200], "model: " + m[0])
                    else:
                        r.hist["model"]["agree:json:" + m[0]] += 1
                elif failed or m[2] != "impl:same" or (m[1] != "back:ok" and not liar):
                    r.model_disagreement(case, out[:300], "\t".join(m)[:300])
                else:
                    r.hist["model"]["agree:json:same"] += 1
            if liar:
                r.hist["json_result"]["lying-object"] += 1
                continue
            if failed:
                r.hist["json_result"]["refused" if has_bad_key(exp) else "error"] += 1
                if out == "panic" or not has_bad_key(exp):
                    r.oracle_failure(case, f"{mode} failed ({out}) on a value that has a JSON image", f"json:{cls}:error")
                continue
            text = bytes.fromhex(out).decode("utf-8")
            if cls == "tojson":
                bad = [c for c in text if c in "<>&'"]
                if bad or alpha != "alpha:ok":
                    r.oracle_failure(case, f"tojson output contains {bad[:3]!r}", "tojson:alphabet")
            try:
                got = py_parse(text)
            except ValueError as e:
                r.hist["json_result"]["invalid"] += 1
                r.oracle_failure(case, f"{mode} output is not valid JSON ({e}): {text[:120]!r}", f"json:{cls}:invalid")
                continue
            try:
                same = image_matches(exp, got)
            except NoImage:
                r.oracle_failure(case, f"{mode} emitted text for a value whose map key has no string form: {text[:120]!r}", f"json:{cls}:badkey-emitted")
                continue
            if not same:
                r.hist["json_result"]["wrong-image"] += 1
                r.oracle_failure(case, f"{mode} output parses to a different value: {text[:160]!r}", f"json:{cls}:image")
                continue
            r.hist["json_result"]["ok"] += 1
            if sj == "sj:bad":
                r.oracle_failure(case, f"serde_json reads {text[:160]!r} differently from the value's image", f"json:{cls}:serde_json")
        elif stream == "ser":
            # `impl Serialize for Value` through the shape-recording serializer: the serde length contract
            r.count(case, True)
            log, verdict = f[1], f[2]
            r.hist["ser_contract"][verdict.split(":")[1]] += 1
            if verdict != "contract:ok" and not any(t.startswith("Zl") for t in case.split()):
                what = verdict[len("contract:bad:"):] if verdict.startswith("contract:bad:") else log[:100]
                site = "ser:contract:" + ("seq" if "serialize_seq" in what else "map" if "serialize_map" in what else "error")
                r.oracle_failure(case, "Value::serialize broke the serde length contract: " + what, site)
            tv = f[3] if len(f) > 3 else "tv:skip"
            r.hist["to_value"][tv[3:]] += 1
            if tv in ("tv:bad", "tv:panic") and not any(t.startswith("Zl") for t in case.split()):
                r.oracle_failure(case, "serde_json::to_value(&value) differs from the value's JSON image (" + tv + ")", "ser:to_value")
            if m is not None and m[0] != log:
                r.model_disagreement(case, log, m[0])
            elif m is not None:
                r.hist["model"]["agree:ser"] += 1
        elif stream == "lde":
            r.count(case, True)
            r.hist["lde_result"][f[1].split(" ")[0]] += 1
            if f[1] == "panic" or f[1].startswith("owned/"):
                r.oracle_failure(case, "deserialising from a lazily produced value: " + f[1][:200], "lde:" + f[1].split(" ")[0])
            if m is not None and m[0] == "?":
                r.hist["model"]["unmodelled:lde"] += 1
            elif m is not None and m[0] != f[1]:
                r.model_disagreement(case, f[1], m[0])
            elif m is not None:
                r.hist["model"]["agree:lde"] += 1
        elif stream in ("tpl", "tplraw"):
            r.count(case, True)
            out = f[1]
            mode = case.split()[1] if stream == "tpl" else "raw"
            cls = "autoescape" if mode == "auto_json" else "tojson"
            if out.startswith("err:") or out == "panic":
                r.hist["tpl_result"]["error"] += 1
                r.oracle_failure(case, f"template-built value failed to render as JSON ({out})", f"tpl:{cls}:error")
                continue
            text = bytes.fromhex(out).decode("utf-8")
            if mode != "auto_json" and stream == "tpl" and any(c in "<>&'" for c in text):
                r.oracle_failure(case, f"tojson output contains one of < > & ': {text[:80]!r}", "tojson:alphabet")
            try:
                got = py_parse(text)
            except ValueError as e:
                r.hist["tpl_result"]["invalid"] += 1
                r.oracle_failure(case, f"output is not valid JSON ({e}): {text[:120]!r}", f"tpl:{cls}:invalid")
                continue
            if stream == "tpl":
                if f[2] != "-" and got != json.loads(bytes.fromhex(f[2]).decode("utf-8")):
                    r.hist["tpl_result"]["wrong-image"] += 1
                    r.oracle_failure(case, f"output parses to a different value than iterating the value yields: {text[:120]!r}", f"tpl:{cls}:image")
                    continue
                if f[3].startswith("contract:bad"):
                    r.oracle_failure(case, "Value::serialize broke the serde length contract: " + f[3][13:], "ser:contract:seq")
            r.hist["tpl_result"]["ok"] += 1
        elif stream == "buf":
            # serde's buffering read path (untagged by value / by reference after a failed alternative, flatten,
            # internally tagged, adjacently tagged): the datum must come back through each of them
            r.count(case, len(case.split()) > 4)
            top = SITE_TOP(case)
            for name, res in zip(("untagged", "untagged_ref", "flatten", "tagged", "adjacent"), f[1:6]):
                r.hist["buf_" + name]["n/a" if res == "-" else "ok" if res.startswith("ok ") and "(want" not in res else "bad"] += 1
                if res != "-" and (not res.startswith("ok ") or "(want" in res):
                    r.oracle_failure(case, f"through serde's {name} buffering the datum came back as [{res[:200]}]", f"buf:{name}:{top}")
            if m is not None:
                if m[0] == "bad-case":
                    r.broken.append("model driver could not read case " + case[:120])
                elif m[0] == "?":
                    r.hist["model"]["unmodelled:buf"] += 1
                elif m[0] != f[1].split(" (want")[0]:
                    r.model_disagreement(case, f[1][:200], m[0][:200])
                else:
                    r.hist["model"]["agree:buf"] += 1
        elif stream == "arg":
            # `Serde<T>` as the type of a call argument
            form = case.split()[1]
            r.hist["arg_form"][form] += 1
            if f[1] == "skip":
                r.count(case, False)
                r.hist["arg_result"]["not-expressible"] += 1
                continue
            r.count(case, True)
            canon, seen, tail, verdict = f[1], f[2], f[3], f[4]
            r.hist["arg_result"][verdict] += 1
            if verdict != "eq":
                r.oracle_failure(case, f"argument {canon[:80]} converted through Serde<T> ({form}): got [{seen[:160]}] then {tail}", f"arg:{form}:{tail.split(':')[0]}")
            if m is not None:
                if m[0] == "bad-case":
                    r.broken.append("model driver could not read case " + case[:120])
                elif m[1] == "?":
                    r.hist["model"]["unmodelled:arg"] += 1
                else:
                    entries = [x for x in seen.split(" | ") if x]
                    absent = form == "opt" and canon == "none"
                    if m[0] != canon or (not absent and any(e != m[1] for e in entries)) or (absent and entries != ["absent"]):
                        r.model_disagreement(case, canon[:100] + " | " + seen[:160], m[0][:100] + " | " + m[1][:160])
                    else:
                        r.hist["model"]["agree:arg"] += 1
        elif stream == "vv":
            # `Value` itself as the target: from a value (owned / borrowed), as a field of a derived type, from JSON text
            mode = case.split()[1]
            got, want = f[1], f[2]
            if got.startswith("skip:") or any(t.startswith("Zl") for t in case.split()):
                r.count(case, False)
                r.hist["vv_result"]["skipped"] += 1
                continue
            r.count(case, len(case.split()) > 3)
            r.hist["vv_result"]["ok" if got == want else "differs"] += 1
            if got != want:
                r.oracle_failure(case, f"read back into a Value ({mode}): got [{got[:160]}], expected [{want[:160]}]", f"vv:{mode}:{got.split(' ')[0][:1]}")
            if m is not None and m[0] not in ("-",):
                if m[0] == "bad-case":
                    r.broken.append("model driver could not read case " + case[:120])
                elif m[0] == "?":
                    r.hist["model"]["unmodelled:vv"] += 1
                elif m[0] != got:
                    r.model_disagreement(case, got[:200], m[0][:200])
                else:
                    r.hist["model"]["agree:vv"] += 1
        elif stream == "sjson":
            # a serialised datum printed as JSON against serde_json's own JSON of the datum
            r.count(case, len(case.split()) > 5)
            mode = case.split()[1]
            res = f[1].split(":")[0]
            r.hist["sjson_result"][res] += 1
            # (`only-engine`: serde_json refuses the datum itself - an `Option` as map key - while the value's key has a
            # string form; the text was valid JSON)
            if res not in ("same", "both-refuse", "only-engine"):
                detail = f[1]
                if res in ("differs", "invalid"):
                    parts = f[1].split(":", 2)
                    detail = res + " engine=" + bytes.fromhex(parts[1]).decode("utf-8", "replace")[:160] + (" serde_json=" + bytes.fromhex(parts[2]).decode("utf-8", "replace")[:160] if len(parts) > 2 else "")
                r.oracle_failure(case, "JSON of a serialised datum vs serde_json's JSON of the datum: " + detail[:400], f"sjson:{mode}:{res}")
        elif stream == "pp":
            # exhaustive family for the post-processing of tojson
            n = int(f[1]) if f[1].isdigit() else 0
            r.count(case, True)
            r.extra["pp_strings"] = r.extra.get("pp_strings", 0) + n
            if f[3] != "ok":
                parts = f[3].split(":")
                what = parts[1] if len(parts) > 1 else "?"
                inp = bytes.fromhex(parts[2]).decode("utf-8", "replace") if len(parts) > 2 else "?"
                outp = bytes.fromhex(parts[3]).decode("utf-8", "replace") if len(parts) > 3 else "?"
                site = "tojson:alphabet" if what == "alphabet" else "pp:" + what
                r.oracle_failure(case + " input=" + (parts[2] if len(parts) > 2 else "?"), f"tojson of the string {inp!r} gave {outp!r} ({what})", site)
            if m is not None:
                if m[0] != f[1] or m[1] != f[2]:
                    r.model_disagreement(case, f[1] + " " + f[2], "\t".join(m))
                else:
                    r.hist["model"]["agree:pp"] += 1
        elif stream == "warm":
            r.count(case, True)
            r.hist["warm"][f[1].split(":")[0]] += 1
            if f[1] != "same":
                n = int(case.split()[1])
                cls = "lt256" if n < 256 else "lt65536" if n < 65536 else "ge65536"
                r.oracle_failure(case, f"after {n} embedded values on the thread: {f[1][:200]}", "warm:" + cls)
        elif stream == "rk":
            # every Deserializer method on every representation of a value
            _, meth, rh, desc = case.split(" ", 3)
            rep, how = rh.split("/")
            r.count(case, True)
            r.hist["rk_repr"][rep] += 1
            r.hist["rk_result"][f[1].split("(")[0].split(":")[0].split("[")[0].split("{")[0].split(" ")[0]] += 1
            if f[1] == "panic" or f[1].startswith("owned/borrowed-differ"):
                r.oracle_failure(case, f"Deserializer::deserialize_{meth} on a {rep} value: {f[1][:200]}", f"rk:{meth}:" + f[1].split(" ")[0])
            # one template value in several storages (a string built from &str / String / Arc<str>: SmallStr up to
            # 22 bytes, else Arc<str>): the storage is no part of the value, so every method must answer alike
            if how in ("ref", "owned", "arc"):
                rk_groups[(meth, desc)].append((how, case, f[1]))
            want = rk_expected(meth, rep, how, desc)
            if want is not None:
                r.hist["rk_oracle"]["stated"] += 1
                if f[1] not in want:
                    r.oracle_failure(case, f"deserialize_{meth} on the {rep} value the serializer makes of this datum hands the visitor [{f[1][:160]}], not the datum ({' / '.join(sorted(want))[:160]})", f"rk:{meth}:{rep}")
            if m is not None:
                if m[0] == "bad-case":
                    r.broken.append("model driver could not read case " + case[:120])
                elif m[0] != f[1]:
                    r.model_disagreement(case, f[1][:200], m[0][:200])
                else:
                    r.hist["model"]["agree:rk"] += 1
        elif stream == "ff":
            # the token printed for a finite double
            r.count(case, True)
            r.hist["ff_result"][f[2] if len(f) > 2 else "?"] += 1
            text = bytes.fromhex(f[1]).decode("utf-8", "replace") if f[1] != "err" else "err"
            bits = int(case.split()[1].lstrip("-")) | ((1 << 63) if case.split()[1].startswith("-") else 0)
            try:
                py_back = bits_of_f64(float(text)) == bits
            except ValueError:
                py_back = False
            if len(f) < 3 or f[2] != "rt:ok" or not py_back:
                r.oracle_failure(case, f"the token {text!r} printed for the double with bits {bits} does not denote it (Rust reader: {f[2] if len(f) > 2 else '?'}, Python reader: {'same' if py_back else 'other'})", "ff:denotes")
            if m is not None:
                if m[0] == "bad-case":
                    r.broken.append("model driver could not read case " + case[:120])
                elif m[0] != f[1]:
                    r.model_disagreement(case, text, bytes.fromhex(m[0]).decode("utf-8", "replace"))
                elif m[1:] != ["found:T", "in:T"]:
                    r.model_disagreement(case, text, "the model's digit search: " + " ".join(m[1:]))
                else:
                    r.hist["model"]["agree:ff"] += 1
        else:
            r.broken.append("unknown harness line: " + line[:80])
        if i % 1500 == 0:
            r.sample({"case": case[:200], "result": "\t".join(f[1:])[:200]})
    for (meth, desc), members in rk_groups.items():
        ref = [x for x in members if x[0] == "ref"]
        if not ref:
            continue
        for how, case, res in members:
            if res != ref[0][2]:
                r.oracle_failure(case, f"deserialize_{meth} answers [{res[:160]}] for this string but [{ref[0][2][:160]}] for the same string in the storage Value::from(&str) gives it", f"rk:{meth}:storage")


def run(r):
    r.rule = ("random shapes of the serde data model to depth 4 with boundary-heavy data (quiet NaNs with sign and payload, exact-tie doubles, float map keys, long and non-ASCII names) "
              "+ hand-picked anchors + wide composites (structs / variants / maps with more than 12 entries, 1500-element sequences, 3000 bytes), each also through serde's buffering read path "
              "(untagged by value / by reference after a failed alternative, flatten, internally and adjacently tagged), through Serde<T> arguments in 12 call forms, and printed as JSON against "
              "serde_json's own JSON of the datum; values read back into `Value` (owned, borrowed, as a field, from JSON text, from 40 primitive deserializers); serde's impls for std types "
              "(IpAddr / SocketAddr, Duration / SystemTime, Result / Bound / Range*, NonZero / Wrapping / Reverse / Cell / RefCell / PhantomData, sets / deques / lists / arrays / 12-tuples / CString / PathBuf); "
              "threads whose handle counter was advanced to 0 .. 131073 (thorough 2^24) before; the tojson post-processing on every 1- and 2-byte ASCII prefix x distance {0,1,7} (thorough 0..17) "
              "x 4 special bytes x 2 tails and every 1-byte prefix x distance 0..70 (thorough 130), outputs hashed against the model's; both map implementations (BTreeMap and IndexMap builds) in every tier; "
              "every method of the Deserializer trait and the four variant accesses (34) x every representation of a value (SmallStr / Arc<str> / safe strings around the 22-byte capacity, U64 / I64 / U128 / I128 at every width boundary, floats, bytes, none / undefined, invalid, plain objects, value vectors / tuples / 9 custom sequence and iterable objects, value maps / 6 custom map objects with variant-shaped contents) x owned / borrowed deserializer with a call-recording visitor; the printed token of 11k finite doubles (every binade boundary +- 1 ulp, decimal powers +- 1 ulp, 2^53 neighbourhood, random; thorough 130k) against Rust's and Python's readers; "
              "cross-shape deserialisation, "
              "13 derived types, embedded values in 22 contexts x 18 kinds (incl. shapes for which serde buffers several embedded values: flatten + enum struct/tuple variants, internally tagged wrappers, a buffering adapter), the handle registry with up to 40 handles alive at once resolved in creation / reverse / random order, with omissions and repeats (fresh thread per case), lazily produced sequences/maps of 24 kinds (one-shot iterators, "
              "make_iterable adapters, custom Objects with every Enumerator answer) at top level and nested through every JSON mode, a "
              "shape-recording serializer (serde length contract) and as deserialisation sources, 50 template-built lazy expressions, "
              "objects lying about their length (model tie only), invalid values, nesting to depth 200, representation/attribute variants of derived types "
              "(tagged/untagged enums, flatten, renames, Cow, serde_json::Value, Serde<T> arguments), conversions that fail or panic midway, "
              "JSON texts of random values/strings in 20 modes (tojson compact/indents/in html/Expression API, auto-escape by template name, "
              "autoescape block into an io::Write, serde_json::to_string / to_string_pretty / to_value directly) and 9 more entry points (escape filter under JSON auto-escaping, .yaml / .json.j2 names, "
              "a user formatter delegating to the default one, an auto-escape callback, tojson(false) / tojson(indent=true) / tojson(8)) "
              "(+ every single character below U+0100 and the separator/surrogate-neighbour characters); a case is non-trivial when the "
              "shape/value is composite")
    r.assumptions = [
        "serde's own visitors for primitives/Option and #[derive] output behave like the harness' Seed visitors (13 really derived types are run as well)",
        "map keys that differ as serialised model values differ as engine map keys (float-free keys of one shape)",
        "f32 signalling NaNs are quieted by the f32→f64 conversion (hardware); they are outside the round-trip domain",
        "map keys without a JSON string form (none, sequences, bytes, non-finite floats) make tojson fail instead of emitting text",
        "the digits ryu prints for a double are those of the model's exact-arithmetic search and its layout is layoutF (validated on every float case: text predicted exactly); that this token denotes the double is proved (float_token_roundtrip) and additionally checked by Rust's and Python's readers",
        "integers held in a 128-bit representation although they fit 64 bits are not distinguished by the model",
        "serde_json's Serializer / PrettyFormatter are transcribed into MJ/Model/JsonSer.lean from the locked sources (the `len == Some(0)` shortcut and the indent counter are re-extracted on every run; the transcription is validated by predicting every emitted text, including those of objects that lie about their length)",
        "iterators behind Enumerator::Iter/RevIter report honest size hints (lower <= count <= upper) and Object::enumerator_len is not overridden with a wrong answer (the serde length contract theorem is stated for such objects)",
        "lazily produced values used as keys of an ordered map and plain objects as deserialisation sources are out of scope",
        "a safe string printed directly under JSON auto-escaping is written verbatim (safe = already escaped by definition)",
        "quiet f32 NaNs keep sign and payload through `as f64` / `as f32` (x86-64 / aarch64 hardware conversions; compared bit-exactly)",
        "serde's ContentDeserializer differs from `de` on the buffered copy only by accepting more (unit / unit struct from an empty map or sequence, struct variant from a sequence)",
        "one string in another storage (built from &str, String or Arc<str>) is the same template value: every Deserializer method must answer alike (oracle of the rk stream); safe strings, undefined and custom objects as sources are compared with the model only",
        "zero-copy targets (&str, &[u8]) and 128-bit integer targets are refused by the deserializer (visit_str / visit_bytes only; deserialize_i128 / _u128 are the trait's unsupported defaults): outside the statement, recorded (derivedx Borrowed / Wide)",
    ]
    r.regen_tables(["SERDE_DE_DISPATCH", "SERDE_METHODS", "SERDE_ARMS", "SERDE_ARGTYPE", "TOJSON_REPLACEMENTS", "TOJSON_TRUE_INDENT", "VALUE_SERIALIZE_LENGTHS", "ENUMERATOR_QUERY_LEN", "SERDE_JSON_COMPOUND", "SERIALIZATION_FLAG_GUARD", "VALUE_HANDLE_REGISTRY", "JINJA_JSON_SEPARATORS", "VALUE_HANDLE_MARKER", "SERDE_JSON_ESCAPE"])
    r.lean_prove("MJ.Props.C16", "MJ/Audit/C16.lean", extra_targets=["drive_c16"])
    # both map implementations are built and run side by side: the default build (BTreeMap) at the tier's size,
    # the `preserve_order` build (IndexMap: insertion order must then be reproduced exactly) at quick size
    from concurrent.futures import ThreadPoolExecutor

    def one(features, tier):
        exe = r.cargo_build("c16", features=features) if features else r.cargo_build("c16")
        if exe is None:
            return None
        rc, out, err = r.harness(exe, ["gen", tier])
        if rc != 0:
            r.broken.append(f"harness c16 {features or ''} exited {rc}: {err[-300:]}")
            return None
        return out

    def with_model(out, dargs, what):
        if out is None:
            return None
        lines = out.splitlines()
        model = r.driver("drive_c16", out, args=dargs)
        if model is None or len(model) != len(lines):
            r.broken.append("model driver output does not line up with the harness cases" + what)
            model = None
        return lines, model

    with ThreadPoolExecutor(max_workers=2) as ex:
        main = ex.submit(one, None, r.tier)
        po = ex.submit(one, ["preserve_order"], "quick")
        main, po = main.result(), po.result()
    main = with_model(main, (), "")
    po = with_model(po, ("index",), " (preserve_order)")
    if main is not None:
        check_lines(r, main[0], main[1])
    if po is not None:
        check_lines(r, po[0], po[1])
        r.extra["preserve_order_cases"] = len(po[0])


def replay(r, path):
    d = json.load(open(path))
    exe = r.cargo_build("c16")
    for case in [d.get("case")] + d.get("more_cases", []):
        if not case:
            continue
        rc, out, err = r.harness(exe, ["one"] + case.split())
        print("engine:", out.strip())
        model = r.driver("drive_c16", out)
        print("model :", model[0] if model else None)
    return 0
