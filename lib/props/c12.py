"""C12 — stricter undefined modes only add errors; the documented matrix holds (DESIGN.md §3 C12)."""
import json, collections

READY = True

META = {
    "technique": "Lean 4 proof (helper matrix by kernel evaluation of rows regenerated from utils.rs; every mode-dependent "
                 "part of the VM model is a free-monad computation over helper questions, so monotonicity is one generic "
                 "lemma lifted to runs of an abstract machine; argument-conversion layer and builtin signatures extracted "
                 "from argtypes.rs / filters.rs / tests.rs / functions.rs) + 4-mode differential runs of generated programs "
                 "and of every builtin with possibly-undefined operands",
    "category": "proof",
    "text": "Kernel-checked theorems: the UndefinedBehavior helpers and the inline mode tests of Emit / Slice / "
            "Environment::format (rows re-extracted on every run) are the documented matrix and monotone in Chainable <= "
            "Lenient <= SemiStrict <= Strict; any computation that consults the mode only by asking those helpers is "
            "monotone, mode-independent in its result, and a stricter mode can only add the UndefinedError of one of its "
            "questions (comp_mono, comp_agree, comp_only_adds_undefined_errors); the VM model (about 60 instructions incl. "
            "macros, call blocks, caller(), kwargs, loop.*, includes of named templates, blocks, template inheritance with "
            "super(), running nested calls inside the machine) is built from such computations, so any run that succeeds under a mode "
            "ends in the identical state and observed output under every weaker mode, for every choice of the abstract "
            "mode-independent operations (mono_vm, mono_programs over real instruction streams accepted by the decidable "
            "inFragment check that the driver evaluates per program; vm_strict_failure: an error added by a stricter mode is "
            "the helper question of the failing instruction); the argument conversion layer interpreted from the extracted "
            "ArgType table (arg_conversion_table / _mono) and every registered builtin called through its extracted "
            "signature (builtin_mono_of_sig; pure_builtin_independent_after_conversion for the builtins whose source never "
            "reaches the mode; builtin_sites_as_modelled lists the ones that do); the per-site matrix (print / iterate / `*args` / truth / access / defined / default). Ties: the model runs "
            "the REAL compiled instruction streams of the generated programs (outputs compared under all four modes, three "
            "custom formatters included); the signature layer predicts, for every builtin call of the call/sweep streams, "
            "which modes fail in the conversion and that pure bodies agree across the modes that pass it (compared with the "
            "engine); regenerated tables of helper calls per instruction arm and per builtin; the control-flow tree of the "
            "Emit arm is regenerated too: the undefined check dominates every write and every exit of the arm, the only "
            "condition in front of it is the choice of the formatter (emit_arm_check_dominates), the hand model of Emit is "
            "the interpretation of that tree (emit_arm_is_model), and whether Emit fails does not depend on the output "
            "routing -- live, capturing, discarding, null (emit_check_independent_of_output; the model carries the capture "
            "stack with its discarding levels, BeginCapture(Discard), ExportLocals and module objects, so child templates "
            "after extends and import / from-import run inside the machine). The property itself is "
            "evaluated on the real engine: pairwise monotonicity of the four results of every case, plus the documented "
            "matrix on dedicated site templates -- each of them in every output context (top level, block, macro, call "
            "block, set block, filter block, autoescape block, loop body / else, with, if; top level of a child template "
            "after extends = discarding, child block, parent block through super(), included template, import-as module, "
            "from-import module = discarding, captures nested inside the discarding ones) and entry form (render, "
            "render_captured, render_captured_to a writer / a sink, render_named_str, State::render_block(_to_write), "
            "Expression::eval with its null output), with the default and with custom formatters. The matrix is also "
            "judged as a PRODUCT (stream sx / sxa / sxv): ~60 producers of a non-silent undefined (missing variable, missing "
            "attribute / key / index of context values, look-ups whose container and key are literals = compile-time "
            "constants, literal container with a run-time key, values stored in literal containers, ternary / and / or "
            "results, results of filters and functions, variables bound by set / with / for / unpacking / macro parameters / "
            "call-block parameters / loop.previtem / namespace attributes) x ~85 consuming constructs (print forms; for, "
            "for-else, for-if, unpacking for, recursive for, RE-ENTERING a recursive loop with loop(x) -- emitted, inside an "
            "expression, below the first level, inside set / set-block / a filter / a nested loop --, `*args` in every spread "
            "position; if / elif / not / and / or / ternary / for-if / break / continue truth tests; attribute, item, chained "
            "and filter access; `~`; defined / undefined / default), the class belonging to the consumer; its diagonal also "
            "in every output context / entry form (cx) and through the 9 other entry points (entry), where the error pattern of "
            "the class is now judged too (errors by their innermost kind: a failing loop(x) wraps the UndefinedError). "
            "blind_twin_sites_justified: the crate-wide regenerated table of every call of a mode-blind twin of the helpers "
            "(Value::try_iter / is_true / get_attr / get_item(_opt) / get_attr_fast / get_item_by_index without the mode, "
            "is_undefined guards; per file, fn, twin with its count) equals the hand-justified table outside the value layer, "
            "`asks the helper` justifications are backed by a helper call found in the same function, builtin-body excuses "
            "occur only in the builtin files (never VM / compiler), and the constant folder has no look-up twin.",
    "design_ref": "DESIGN.md §3 C12",
    "level_note": "Trusted: Lean kernel; lib/tables/c12.py (translator: helper match rows, inline mode tests, the control-flow "
                  "tree of the Emit arm, every mention of the mode in minijinja/src + minijinja-contrib/src with its class, helper-call "
                  "lists per instruction arm and per builtin, ArgType impl classification, signatures of the builtins and of what "
                  "minijinja-contrib registers and their reachability of the mode by regex + local call graph; every call of a mode-blind twin "
                  "`.try_iter(` / `.is_true(` / `.get_attr(` / `.get_item(` / `.get_item_opt(` / `.get_attr_fast(` / `.get_item_by_index(` / "
                  "`.is_undefined(` not made on the mode, per file / enclosing fn, unit-test modules stripped). The reasons in "
                  "MJ/Proofs/UndefTwins.lean (twinJustification) are hand-written; what is proved is that the table and the reasons "
                  "cover each other exactly and that the structural side conditions hold (a helper call in the same fn, builtin "
                  "excuses only in builtin files, no look-up twin in the constant folder); the value layer (minijinja/src/value/ except "
                  "argtypes.rs) is exempt wholesale. The "
                  "mode-independent operations are hand models validated by the correspondence stream only, or abstract "
                  "parameters (Ops). The 26 builtins whose source reaches the mode are hand-modelled as their helper questions in "
                  "source order (nested filter/test calls included) followed by an abstract mode-independent rest; that question "
                  "structure is tied to the source by the extracted per-builtin helper lists and validated against the engine for "
                  "every call of the call/sweep streams, not derived from the source. MOVED FROM VALIDATED (oracle streams only) TO "
                  "PROVED (inside the model of mono_vm / step_mono, executed on the real instruction streams and compared): (1) "
                  "the output routing -- capture stack with discarding levels, BeginCapture(Discard), the top level of a child "
                  "template after extends, import-as and from-import with ExportLocals and module objects (attribute access and "
                  "method calls on a module), CallBlock skipped while discarding; Emit's check proved independent of it "
                  "(emit_check_independent_of_output) and the Emit arm tied by its regenerated control-flow tree "
                  "(emit_arm_check_dominates, emit_arm_is_model); (2) auto-escaping and safe strings -- PushAutoEscape / "
                  "PopAutoEscape, .html templates, write_escaped with the regenerated HTML escape table, safe captures / macro "
                  "results / super(), the filters safe / escape / e / upper / lower / trim / string / first / last / default and the "
                  "tests safe / escaped on safe strings, and join under auto-escaping: join_safe formats every non-safe item "
                  "with State::format = Environment::format, which is its only question to the mode "
                  "(join_safe_consults_mode_only_by_env_format; this is the site of seeded C12-4); (3) `*args` calls -- "
                  "UnpackLists asks try_iter per batch (after fix e1cde55, see below), calls with a dynamic argument count; (4) the "
                  "argument conversion layer for ANY signature: it asks assert_value_not_undefined only "
                  "(conversion_consults_mode_only_by_assert_not_undef), so it has exactly the two behaviours Strict = SemiStrict and "
                  "Lenient = Chainable and never fails at a question under the latter (conversion_mode_classes); which parameter "
                  "types can consult the mode at all (param_consults_iff) and, from the regenerated table of the parameter types of all "
                  "95 builtins and the 15 filters / globals of minijinja-contrib, exactly which parameters of which builtin do "
                  "(builtin_params_consulting_mode: a builtin that starts to take an argument through a checking conversion, or a "
                  "contrib function whose source starts to reach the mode, breaks it); the contrib filters / globals and pycompat's "
                  "method callback are exercised like the builtins (streams callx / sweepx / pyx) and predicted from their "
                  "signatures. (5) session 4: WHICH sites may decide without the mode -- the crate-wide blind-twin table "
                  "(blind_twin_sites_justified); before, only the mentions of the mode were tabulated (all_mode_sites_monotone), so a site "
                  "that stopped mentioning the mode in favour of the twin (seeded C12-6, C12-7) left every table intact. "
                  "STILL OUTSIDE THE MODEL (oracle streams only): recursive loops (the sx stream judges loop(x) re-entry by the matrix; the Lean VM has no FastRecurse), tuples, floats, custom objects, bytes, "
                  "one-shot iterators, the JSON / custom auto-escape formats (escape with a custom format goes through "
                  "Environment::format), the bodies of replace / format / indent / title / capitalize with mixed safe and plain "
                  "operands (abstract Ops.pureBody), the bodies of the contrib functions, filters/tests added by the embedding "
                  "application (their conversion layer is covered by (4)), the public Rust API (api stream). DEFECT FOUND AND FIXED "
                  "(e1cde55): `f(*u)` spread an undefined with Value::try_iter, ignoring the mode -- the one iteration site of the "
                  "language outside the matrix; found by the new `iterate` site rows, UnpackLists now asks try_iter like "
                  "merge_kwargs does for `**u`. Observations (not violations of the statement): slicing an undefined fails under "
                  "Strict only, SemiStrict gives [] like Lenient -- monotone, and slicing is not a row of the documented matrix, but "
                  "the one-line description of SemiStrict ('like Strict except truthiness') does not mention it; `{{ u|escape }}` "
                  "(a `&Value` parameter, write_escaped without a check) renders '' under every mode although rustdoc lists 'string "
                  "coercion in filters: fails' for Strict / SemiStrict; the filters that iterate their receiver with Value::try_iter "
                  "(join, first, reverse, length ...) treat an undefined receiver the same under every mode, while list / min / max / "
                  "sort / unique / batch / slice / sum / select* / map ask the mode.",
}

MODES = ["chainable", "lenient", "semistrict", "strict"]
SITE_STREAMS = ("site", "sitea", "fmt", "fmtv", "fmtc")
# the site matrix as a product (producers of an undefined x consuming constructs): plain / `.html` / visible formatter / `.json`
SX_STREAMS = ("sx", "sxa", "sxv", "sxj")
MODEL_STREAMS = ("site", "sitea", "fmt", "fmtv", "fmtc", "prog", "proga", "progv", "progc")
NEEDED = ["C12_MODE_SITES", "C12_ARG_TYPES", "C12_BUILTIN_SIGS", "C12_CONTRIB_SIGS", "C12_MODES", "C12_HANDLE_UNDEFINED", "C12_IS_TRUE", "C12_ASSERT_ITERABLE", "C12_ASSERT_VALUE_NOT_UNDEFINED",
          "C12_TRY_ITER", "C12_VM_EMIT", "C12_VM_EMIT_SHAPE", "C12_ROW_FNS", "C12_VM_SLICE", "C12_ENV_FORMAT", "C12_VM_SITES", "C12_BUILTIN_NAMES", "C12_BLIND_TWINS"]

# the documented matrix per site class: which modes must fail with UndefinedError
MATRIX = {
    "print": [False, False, True, True],
    "iterate": [False, False, True, True],
    "coerce": [False, False, True, True],   # rustdoc of UndefinedBehavior: "string coercion in filters/functions: fails"
    "truth": [False, False, False, True],
    "access": [False, True, True, True],
    "never": [False, False, False, False],
}


def dec(r):
    if r.startswith("ok:"):
        try:
            return "ok:" + bytes.fromhex(r[3:]).decode("utf-8", "replace")
        except ValueError:
            return r
    if r.startswith("panic:"):
        try:
            return "panic:" + bytes.fromhex(r[6:]).decode("utf-8", "replace")[:80]
        except ValueError:
            return r
    return r


def shape(rs):
    return "".join("O" if x.startswith("ok:") else ("P" if x.startswith("panic:") else "E") for x in rs)


def cls(r):
    """result class compared between engine and model: exact output, or UndefinedError vs any other error"""
    if r.startswith("ok:"):
        return r
    return "err:UndefinedError" if r == "err:UndefinedError" else "err:other"


def root(r):
    """`err:BadInclude/UndefinedError` (outermost kind / innermost kind) -> `err:UndefinedError`"""
    if r.startswith("err:") and "/" in r:
        return "err:" + r.split("/", 1)[1]
    return r


def top(r):
    """`err:BadInclude/UndefinedError` -> `err:BadInclude` (what Error::kind() reports)"""
    if r.startswith("err:") and "/" in r:
        return r.split("/", 1)[0]
    return r


def builtin_of(stream, label):
    if stream.startswith("po-"):
        stream = stream[3:]
    if stream in ("call", "sweep", "callh", "sweeph", "callx", "sweepx"):
        p = label.split(":")
        return p[0] + ":" + p[1]
    return None


def judge(r, stream, label, src, rs):
    """the property on the engine's four results; returns number of failures reported"""
    case = f"{stream}\t{src}"
    n = 0
    # (1) pairwise monotonicity: Ok under a stricter mode => identical Ok under every weaker one
    for j in range(4):
        if rs[j].startswith("ok:"):
            for i in range(j):
                if rs[i] != rs[j]:
                    who = builtin_of(stream, label) or (label.split(":")[0] + ":" + src if stream in SITE_STREAMS + SX_STREAMS or stream.startswith(("stmt", "api", "entry", "cx.")) else "program")
                    weak = rs[i] if not rs[i].startswith(("ok:", "panic:")) else rs[i].split(":")[0] + ":different-output" if rs[i].startswith("ok:") else "panic"
                    r.oracle_failure(case, f"{MODES[j]} renders {dec(rs[j])!r} but the weaker mode {MODES[i]} gives {dec(rs[i])!r}",
                                     f"mono:{stream}:{who}:{MODES[j]}-ok/{MODES[i]}-{weak}")
                    n += 1
    # (2) the documented site matrix (in the `cx.` streams: in every output context and entry form; an error raised in
    # an included / imported template or in a block is judged by its innermost kind)
    if stream == "entry":
        # the site templates through the other entry points / configurations: the error pattern of the class
        entry, klass = label.split(":")
        na = "ok:" + "not-an-expression".encode().hex()
        if klass in MATRIX and not (entry == "expression" and (klass == "print" or rs[0] == na)):
            for i, must_fail in enumerate(MATRIX[klass]):
                if must_fail != (root(rs[i]) == "err:UndefinedError") or (not must_fail and not rs[i].startswith("ok:")):
                    r.oracle_failure(case, f"site class `{klass}` through entry `{entry}`: under {MODES[i]} the site must "
                                           f"{'fail with UndefinedError' if must_fail else 'succeed'}, engine gives {dec(rs[i])!r}",
                                     f"site:entry.{entry}:{klass}:{src}:{MODES[i]}")
                    n += 1
    if stream in SITE_STREAMS + SX_STREAMS or stream.startswith("cx."):
        klass, exp_hex = label.split(":")
        if klass in MATRIX:
            # `*`: the visible / counting formatters print other text; only ok-vs-error is judged there
            want_out = None if exp_hex == "*" else "ok:" + ("" if exp_hex == "-" else exp_hex)
            for i, must_fail in enumerate(MATRIX[klass]):
                want = "err:UndefinedError" if must_fail else (want_out or "ok:<any output>")
                if (root(rs[i]) != want) if (must_fail or want_out) else (not rs[i].startswith("ok:")):
                    r.oracle_failure(case, f"site class `{klass}`: under {MODES[i]} expected {dec(want)!r}, engine gives {dec(rs[i])!r}",
                                     f"site:{stream}:{klass}:{src}:{MODES[i]}")
                    n += 1
    return n


def run(r):
    r.rule = ("the site matrix as a product producer-of-undefined x consuming construct (streams sx, sxa = .html, sxv = visible "
              "formatter; quick: the plain variable and the constant look-ups meet every consumer, the other producers a third, "
              "rotated by VERIF_SEED; thorough: the full product); site templates (documented matrix; default formatter and three custom formatters: delegating, one that prints "
              "undefined as U and none as N, one counting its invocations); the same site templates in 27 output contexts x 8 "
              "entry forms x formatters (stream cx.<context>.<entry>.<formatter>: the matrix is judged in each, errors raised "
              "inside an included / imported template or a block by their innermost kind); every builtin filter/test/function with a "
              "valid call in which each argument position (and pairs, arities, kwargs, block forms) is replaced by undefined / "
              "silent undefined / none / [x, undefined] / {'k': undefined} / a missing attribute; every builtin x receiver x "
              "argument lists of arity 0..2 (thorough: 3) over a pool of 11 operands; ~130 statement forms with an undefined "
              "operand (include/extends/import/macro/call/autoescape/unpacking/recursive loops/loop.*/namespace/functions/"
              "methods/literals), also through the visible and counting formatters and auto-escaped; every builtin call and the sweep "
              "once more in a `.html` template (auto-escaping on) with safe strings as the other operands (safe joiner / safe "
              "items / safe format string ...); the public State / Value API (State::format, apply_filter, perform_test, "
              "call_macro, render_block, lookup; Value::call, call_method, get_attr, get_item, try_iter) called from a Rust "
              "function with 11 operands, plain and auto-escaped; the site templates through 9 other entry points / "
              "configurations (loader, template_from_str, render_captured, compile_expression, render_block, custom syntax, "
              "debug off, auto-escape callback, call_macro); seeded random programs (1/3 also through "
              "the visible, 1/6 through the counting formatter) of the core "
              "fragment (print, if/elif/else, for/else, set, set-block, with, attribute/item chains, slices, not/and/or, "
              "ternary with and without else, comparisons and chains, in, ~, + - *, tests, filters; the `rich` half adds macros, "
              "filter blocks, loop.*, range, dict(**), more builtins). Each case = 4 renders. A case is non-trivial when the "
              "four results are not all identical (the mode matters).")
    r.assumptions = ["the question structure of the mode-reaching builtins is as hand-modelled (tied by the extracted helper-call lists, "
                     "validated on the enumerated operand pool, not proved from their source)",
                     "the extracted signatures / ArgType classification / reachability tables describe the source (regex translator)",
                     "the mode-independent part of each modelled instruction is as validated by the correspondence on the generated programs",
                     "Environment::set_undefined_behavior is the only way the mode reaches the engine (state.undefined_behavior())"]
    st = r.regen_tables(NEEDED)
    r.lean_prove("MJ.Props.C12", "MJ/Audit/C12.lean", extra_targets=["drive_c12"])
    exe = r.cargo_build("c12")
    if exe is None:
        return

    # the builtins the harness exercises are the ones defaults.rs registers
    rc, out, err = r.harness(exe, ["names"])
    covered = collections.defaultdict(set)
    for line in out.splitlines():
        k, n = line.split("\t")
        covered[k].add(n)
    registered = st["items"].get("C12_BUILTIN_NAMES") or {}
    for k in ("filter", "test", "function"):
        missing = sorted(set(registered.get(k, [])) - covered[k])
        if missing:
            r.broken.append(f"builtin {k}s registered in defaults.rs but not exercised by the harness: {missing}")
    contrib = (st["items"].get("C12_CONTRIB_SIGS") or {}).get("rows", [])
    for k in ("filter", "test", "function"):
        missing = sorted({x["name"] for x in contrib if x["kind"] == k} - covered["contrib-" + k])
        if missing:
            r.broken.append(f"{k}s registered by minijinja-contrib but not exercised by the harness: {missing}")
    r.extra["builtins_covered"] = {k: len(v) for k, v in covered.items()}
    safe_fns = set()
    sp = st["items"].get("SAFE_PRODUCER_SITES") or {}
    sp_sites = [x for v in (sp.values() if isinstance(sp, dict) else [sp]) if isinstance(v, list) for x in v if isinstance(x, str)]
    for site in sp_sites:
        parts = site.split("::")
        if parts[0] == "minijinja/src/filters.rs":
            safe_fns.add({"join_safe": "join", "strip_trailing_newline": "indent"}.get(parts[1], parts[1]))
    r.extra["filters_with_a_safe_string_branch (C02 table)"] = sorted(safe_fns)

    rc, out, err = r.harness(exe, ["gen", r.tier])
    if rc != 0:
        r.broken.append(f"harness c12 exited {rc}: {err[-300:]}")
        return
    lines = out.splitlines()
    cases = {}
    sig_cases = {}
    n_prog_lines = 0
    model_in = ["matrix"]
    sensitivity = collections.defaultdict(set)
    html_seen = set()
    for line in lines:
        if line.startswith("ctx\t"):
            model_in.append(line)
            continue
        f = line.split("\t")
        if len(f) != 9:
            r.broken.append(f"malformed harness line: {line[:120]}")
            continue
        stream, cid, label, src, rs, prog = f[0], f[1], f[2], f[3], f[4:8], f[8]
        cases[cid] = (stream, label, src, rs)
        sh = shape(rs)
        r.count(f"{stream}\t{src}", nontrivial=len(set(rs)) > 1)
        r.hist["stream"][stream] += 1
        r.hist["shape (chainable,lenient,semistrict,strict; O=ok E=error P=panic)"][sh] += 1
        for x in rs:
            if not x.startswith("ok:"):
                r.hist["error kinds"][x.split(":")[0] + ":" + (x.split(":")[1] if x.startswith("err:") else "")] += 1
        if stream in SITE_STREAMS + SX_STREAMS:
            r.hist["site class"][label.split(":")[0]] += 1
        if stream.startswith("cx."):
            _, cxname, entry, fk = stream.split(".")
            r.hist["site class"][label.split(":")[0]] += 1
            r.hist["output context of the site (cx stream)"][cxname] += 1
            r.hist["entry form (cx stream)"][entry] += 1
            r.hist["formatter (cx stream; 0 default, 1 delegating, 2 visible, 3 counting)"][fk] += 1
        b = builtin_of(stream, label)
        if b:
            sensitivity[b].add(sh)
            if stream == "callh":
                html_seen.add(b)
        if stream == "entry":
            r.hist["entry point / configuration"][label.split(":")[0]] += 1
        nfail = judge(r, stream, label, src, rs)
        if prog.startswith("B ") and stream in ("call", "sweep", "callx", "sweepx"):
            b = prog.split(" ")
            name = bytes.fromhex(b[2]).decode()
            sig_cases[cid] = (b[1], name)
            # `sigx`: looked up in the table of what minijinja-contrib registers
            model_in.append("\t".join(["sigx" if stream.endswith("x") else "sig", cid, b[1], name] + b[3:]))
        elif prog != "-" and not prog.startswith("B "):
            model_in.append(line)
            n_prog_lines += 1
        if stream in ("site", "prog") and (len(r.samples) < 4 or (len(set(rs)) > 1 and len(r.samples) < 10 and stream == "prog")):
            r.sample({"stream": stream, "template": src[:300], "results": [dec(x)[:80] for x in rs]})
    not_html = sorted(f for f in safe_fns if f in covered["filter"] and "filter:" + f not in html_seen)
    if not_html:
        r.broken.append(f"filters with a safe-string branch that the auto-escape stream does not exercise: {not_html}")
    r.extra["mode_sensitive_builtins"] = sorted(b for b, s in sensitivity.items() if any(len(set(x)) > 1 for x in s))
    r.extra["mode_insensitive_builtins"] = sorted(b for b, s in sensitivity.items() if all(len(set(x)) == 1 for x in s))

    # the same cases with minijinja's `preserve_order` feature (IndexMap-backed maps): monotonicity only
    if r.tier == "thorough":
        exe_po = r.cargo_build("c12", features=["preserve_order"])
        if exe_po is not None:
            rc, out_po, err = r.harness(exe_po, ["gen", "quick"])
            if rc != 0:
                r.broken.append(f"harness c12 (preserve_order) exited {rc}: {err[-300:]}")
            else:
                for line in out_po.splitlines():
                    f = line.split("\t")
                    if len(f) != 9:
                        continue
                    r.count("po\t" + f[0] + "\t" + f[3], nontrivial=len(set(f[4:8])) > 1)
                    r.hist["stream"]["preserve_order:" + f[0]] += 1
                    judge(r, "po-" + f[0], f[2] if f[0] in ("call", "sweep", "callh", "sweeph", "callx", "sweepx") else "po", f[3], f[4:8])

    # correspondence: the Lean VM model on the real instruction streams
    model = r.driver("drive_c12", "\n".join(model_in) + "\n")
    if model is None:
        return
    matrix = [m.split("\t")[1:] for m in model if m.startswith("matrix\t")]
    r.extra["helper_matrix_from_tables"] = {m[0]: dict(zip(MODES, m[1:])) for m in matrix}
    body = [m for m in model if not m.startswith("matrix\t")]
    if "bad-ctx" in body:
        r.broken.append("model driver could not parse the shared context")
        return
    if len(body) != len(model_in) - 2:
        r.broken.append(f"model driver printed {len(body)} result lines for {len(model_in) - 2} cases")
        return
    agree = 0
    frag = collections.defaultdict(lambda: [0, 0, 0])    # stream -> [in fragment, executed and agreeing, total]
    good_ok = {}                                          # builtin -> the valid call renders under all modes
    for cid, (kind, name) in sig_cases.items():
        stream, label, src, rs = cases[cid]
        if label.endswith(":good") and all(x.startswith("ok:") for x in rs):
            good_ok[kind + ":" + name] = True
    sig_checked = collections.Counter()
    for m in body:
        f = m.split("\t")
        cid = f[0]
        stream, label, src, rs = cases[cid]
        if cid in sig_cases:
            # ---- the conversion layer predicted from the extracted signature vs. the engine
            kind, name = sig_cases[cid]
            if f[1:] == ["no-sig"]:
                r.broken.append(f"no extracted signature for the registered builtin {kind} `{name}`")
                continue
            conv, purity, asks = f[1:5], f[5], f[6:10]
            body_modes = [i for i in range(4) if conv[i] == "body"]
            case = f"{stream}\t{src}"
            single = label.split(":")[-1]
            if stream in ("call", "callx") and good_ok.get(kind + ":" + name) and len(label.split(":")) == 3 and "=" in single \
                    and "," not in single and "+" not in single and not single.startswith("extra"):
                # (i) one argument of a valid call replaced: a predicted conversion error is the engine's error
                for i in range(4):
                    if conv[i] == "conv-err" and rs[i] != "err:UndefinedError":
                        r.model_disagreement(case, [dec(x) for x in rs], ["signature: " + c for c in conv])
                        break
                sig_checked["conversion error predicted from the signature (single substitution)"] += 1
            if purity == "pure" and len(body_modes) > 1:
                # (ii) a body that never reaches the mode: the modes that pass the conversion agree, up to the
                # Emit of an undefined result (ok under chainable/lenient, UndefinedError under semistrict/strict)
                sub = [rs[i] for i in body_modes]
                ok_shape = len(set(sub)) == 1
                if not ok_shape and kind != "test":
                    len_ = [rs[i] for i in body_modes if i < 2]
                    strict_ = [rs[i] for i in body_modes if i >= 2]
                    ok_shape = (len(set(len_)) == 1 and len_ and len_[0].startswith("ok:")
                                and all(x == "err:UndefinedError" for x in strict_))
                if not ok_shape:
                    r.model_disagreement(case, [dec(x) for x in rs], ["signature: " + c for c in conv] + [purity])
                sig_checked["pure body: modes passing the conversion agree"] += 1
            if purity == "touching" and len(asks) == 4:
                # (iii) a mode-reaching builtin through its hand-modelled questions (nested calls included): a mode in
                # which a question fails is an error in the engine; the modes in which none fails agree (up to the Emit
                # of an undefined result)
                bad = any(asks[i] == "ask-err" and rs[i].startswith("ok:") for i in range(4))
                passing = [i for i in range(4) if asks[i] == "pass"]
                sub = [rs[i] for i in passing]
                ok_shape = len(set(sub)) <= 1
                if not ok_shape and kind != "test":
                    len_ = [rs[i] for i in passing if i < 2]
                    strict_ = [rs[i] for i in passing if i >= 2]
                    ok_shape = (len(set(len_)) == 1 and len_ and len_[0].startswith("ok:")
                                and all(x == "err:UndefinedError" for x in strict_))
                if bad or not ok_shape:
                    r.model_disagreement(case, [dec(x) for x in rs], ["questions: " + a for a in asks])
                sig_checked["mode-reaching builtin: the hand-modelled questions predict the failing modes"] += 1
            continue
        if len(f) != 6:
            if f[1:] == ["-"]:
                continue
            r.broken.append(f"model driver could not parse the program of `{src[:80]}`: {f[1:]}")
            continue
        ms, infrag = f[1:5], f[5] == "in-fragment"
        frag[stream][2] += 1
        if infrag:
            frag[stream][0] += 1
        if any(x.startswith("model-error") for x in ms):
            r.broken.append(f"model reached an impossible state on `{src[:80]}`: {ms}")
            continue
        if any(x.startswith("unsupported:") for x in ms):
            what = next(x for x in ms if x.startswith("unsupported:"))
            r.hist["model coverage"][("in the theorem fragment, not executable: " if infrag else "outside the fragment: ")
                                     + "_".join(what[12:].split("_")[:2])] += 1
            continue
        if [cls(x) for x in ms] != [cls(top(x)) for x in rs]:
            r.model_disagreement(f"{stream}\t{src}", [dec(x) for x in rs], [dec(x) for x in ms])
        else:
            agree += 1
            frag[stream][1] += 1
            r.hist["model coverage"]["executed and agreeing: " + stream] += 1
    r.extra["model_cases_agreeing"] = agree
    r.extra["programs (stream: [accepted by inFragment = hypotheses of mono_programs established, executed by the model with "
            "identical results, total])"] = {k: v for k, v in frag.items()}
    r.extra["signature_predictions_checked"] = dict(sig_checked)
    gen = [v for k, v in frag.items() if k.startswith("prog")]
    tot = sum(v[2] for v in gen)
    if tot:
        r.extra["generated_programs_in_fragment_fraction"] = round(sum(v[0] for v in gen) / tot, 4)
        r.extra["generated_programs_executed_fraction"] = round(sum(v[1] for v in gen) / tot, 4)
        if sum(v[0] for v in gen) < 0.8 * tot:
            r.broken.append(f"only {sum(v[0] for v in gen)} of {tot} generated programs are inside the model's fragment")
    if agree < 500:
        r.broken.append(f"only {agree} programs were executed by the Lean model (correspondence too thin)")


def replay(r, path):
    d = json.load(open(path))
    exe = r.cargo_build("c12")
    rcode = 0
    for case in [d.get("case")] + d.get("more_cases", []):
        if not case:
            continue
        stream, src = case.split("\t", 1)
        rc, out, err = r.harness(exe, ["one", stream, src])
        f = out.rstrip("\n").split("\n")[-1].split("\t")
        rs = f[4:8]
        print("template:", src)
        for m, x in zip(MODES, rs):
            print(f"  engine {m:10}: {dec(x)}")
        if f[8] != "-":
            model = r.driver("drive_c12", out)
            if model:
                for m, x in zip(MODES, model[-1].split("\t")[1:]):
                    print(f"  model  {m:10}: {dec(x)}")
        for j in range(4):
            if rs[j].startswith("ok:") and any(rs[i] != rs[j] for i in range(j)):
                print(f"  NOT MONOTONE: {MODES[j]} succeeds, a weaker mode differs")
                rcode = 1
        # the documented matrix of the site class recorded in the failure signature `site:<stream>:<class>:..`
        sig = d.get("site", "").split(":")
        klass = sig[2] if len(sig) > 2 and sig[0] == "site" else None
        if klass in MATRIX:
            for i, must_fail in enumerate(MATRIX[klass]):
                if must_fail != (root(rs[i]) == "err:UndefinedError") or (not must_fail and not rs[i].startswith("ok:")):
                    print(f"  MATRIX: site class `{klass}` must {'fail' if must_fail else 'succeed'} under {MODES[i]}, engine gives {dec(rs[i])}")
                    rcode = 1
    return rcode
