"""C01 — loading and rendering a template never crashes the host process (DESIGN.md §3 C01).

Partial by nature.  Proved (Lean, re-checked on every run against tables regenerated from /repo):
the arithmetic kernels never panic and bound their allocations; every cycle of the parser's call
graph (except the recorded `elif` recursion) passes `with_recursion_guard!`.  Searched (crash
oracle, worker processes under a 2 GiB address-space cap, main thread and 2 MiB thread): native
stack, allocator, the long tail of builtins, mutated templates, error formatting.
"""
import json, os, re, collections
from common import REPO

READY = True

META = {
    "technique": "Lean 4 proofs about executable models (integer kernels, parser call graph regenerated from source, parser nesting accounting, a verified operand-stack certificate checker run on every real instruction stream = translation validation), scope-stack programs of compiler/meta.rs and kinded-stack programs of codegen.rs's pending_block regenerated from the source text and checked by verified checkers, a regenerated table of ALL potential crash sites of the crate against a hand-made classification), tied by differential runs through the public API and a verif_hooks observation of the VM's operand stack; plus a crash oracle (child processes, signals, panic hook) over builtins x boundary arguments, format strings from a grammar, grammar-aware template mutants, nesting-depth probes (incl. chains stacked through every grouping primary, derived from the nesting model), width probes around every integer constant of compiler/ and vm/, engine objects read after their scope ended, systematic construct compositions (every statement kind in every container kind to depth 2 exhaustively, deeper sampled, with user statements before/after at every level, loaded through seven API paths + undeclared_variables + render), accumulate-loop probes on a 256 KiB stack, the whole minijinja-contrib surface, every builtin x value kind (strings in every safety state) in every argument position x undefined behaviour, and every t/e stream under a configuration axis (undefined behaviour x trim_blocks/lstrip_blocks/keep_trailing_newline x six syntax configurations x debug/recursion-limit/json-name)",
    "category": "proof",
    "text": "PARTIAL. Proved: (i) kernels — the models of functions::range (incl. exactness of every item), Loop::cycle and the loop attributes, ops::mul string/tuple/list repetition, filters::indent/tojson indent, format width/precision and zero padding of grouped numbers, filters::batch/slice count arithmetic, the filter/test local ids of codegen get_local_id vs the VM caches of get_or_lookup_local (MAX_LOCALS from both files), lexer advance/syntax_error u16 columns + debug caret line, ops::slice never reach a Rust panic for any input in the machine ranges, every infallible allocation sized by a template-chosen number is bounded by a named constant regenerated from the sources, MergeSeq nesting stays within MAX_DEPTH; (ii) parser — on the call graph regenerated from parser.rs every chain of Parser method calls that avoids with_recursion_guard! has fewer than 16 edges (every cycle guarded, native parser depth < (MAX_RECURSION+1)*16 frames) except the elif self-recursion (recorded finding); the parser's expr_nesting accounting computes exactly the longest loop-built chain on any path, so whatever parses has AST depth <= 2*MAX_EXPR_NESTING + 3*MAX_RECURSION + 1 = 2451 (elif chains excluded); (iii) VM operand stack — checkStk_sound: if the verified checker accepts a certificate for an instruction stream then in EVERY reachable state of the abstract stack machine (all branches, iteration counts, loop(...) recursion depths, arbitrary pushed values) no instruction pops/peeks/indexes what is not there (Stack::pop/peek unwrap, get_call_args/drop_top/reverse_top lengths, dynamic argument counts incl. the filtered-loop idiom as a counted segment, args[0] of method calls, build_macro's list); the check runs the verified checker on every stream the real compiler produces for ~10^5 templates. (iv) load-time assignment tracker (compiler/meta.rs, behind find_macro_closure for every macro / call block and behind undeclared_variables): on the scope-stack programs regenerated from the source every function — every arm of track_walk — pops only what it pushed and ends at its entry height on every path, hence for EVERY AST `assign` (`last_mut().unwrap()`) is never reached with an empty scope stack (meta_scopes_no_panic, meta_walk_arm_height_unchanged; Scopes.exec_sound is the general soundness theorem of the checker); (v) code generator: on the kinded-stack programs regenerated from codegen.rs every method agrees with its (inferred, then checked) signature, hence the `unreachable!()` of end_scope / end_condition / sc_bool and `assert!(pending_block.is_empty())` of finish are unreachable for every AST (codegen_pending_block_safe); (vi) Instructions::get_line / get_span index in range for every table and pc, SmallStr slices in range and its u8 length lossless; (vii) the regenerated table of ALL 493 potential crash sites of the crate's non-test code (unwrap, expect, unreachable!/panic!/assert!, indexing, slicing, integer `as` casts, syntactic arithmetic; 271 rows = file::function::kind) equals the hand-made classification row by row with the same counts (all_panic_sites_classified) — class a (proved in a kernel model, theorem named): 67 rows / 146 sites, b (guarded in the same function, guard text regenerated and compared: panic_guards_as_tabled): 27 / 36, c (outside the quantifier: poisoned mutex, allocation of fixed types, host macros, macro syntax): 20 / 27, d (crash-oracle streams only): 157 / 284; a new unwrap()/index/cast/arithmetic site, or one that moves, breaks the theorem with a pointer to the row. (viii) integer arithmetic of the VM (MJ/Model/IntOps.lean: ops::add/sub/mul/rem/int_div/pow/neg on integers of every width coerced to i128, filters::abs): intOps_no_panic for ALL pairs of integers, intOps_exact (a returned value is the exact Euclidean result and fits i128); callArgs_fit_u16 (the static argument count of every call the parser accepts — limit regenerated from parse_args — fits the u16 of the call instructions, the assert of compile_call_args cannot fail); debugWindow_no_panic (the source-line window of the debug output); reprStr_no_panic (MJ/Model/ReprStr.lean: python_string_debug_fmt flushes only slices between character boundaries, for every string and every escaping rule). (ix) C01_statement / C01_main: the property as stated over an abstract engine follows from eight NAMED gap hypotheses (structure Gaps: sites_complete, classA_model_is_code, classB_guard_adequate, classC_outside_quantifier, classD_searched, callee_searched, stack_searched, alloc_bounded) and the proved tie all_panic_sites_classified. Searched, not proved: that the class-d sites and everything that is not a syntactic site (native stack, allocator, callee panics inside std / dependencies) never crash.",
    "design_ref": "DESIGN.md §3 C01, §4",
    "level_note": "What is PROVED (kernel-checked, axioms propext/Classical.choice/Quot.sound only): MJ.C01.*_no_panic / *_alloc_le / range_items_exact / mergeSeq_depth_bounded about the hand-transcribed kernels in MJ/Model/Kernels.lean (+ Slice.lean via C09), validated against the real code on their whole boundary boxes through templates/Expression::eval/formatting::format (value and panic/no-panic outcome compared with drive_c01); MJ.C01.parser_cycles_guarded by `decide +kernel` on the call graph that lib/tables/c01.py regenerates from parser.rs, with MJ.CallGraph.runBound_sound / chain_length_lt; MJ.C01.nesting_exact / nesting_error_exact / ast_depth_bound about MJ/Model/Nesting.lean (hand model of the guard counter and of the expr_nesting save/reset/bump/max protocol; the protocol's presence in every loop function is checked textually by the extractor, the accept/reject verdicts of the real parser are compared with the model on derivations around the limit, unparsed to source); MJ.C01.checkStk_sound (MJ/Model/Stk.lean, MJ/Proofs/Stk.lean): soundness of the operand-stack certificate checker for the abstract machine of one eval_impl activation incl. loop recursion (relative stacks, floors of recursive loops). MJ.C01.meta_scope_table_balanced / meta_walk_arms_balanced / meta_scopes_no_panic / meta_walk_arm_height_unchanged (MJ/Model/Scopes.lean, MJ/Proofs/Scopes.lean: big-step semantics of scope-stack programs incl. mutual recursion, silent Vec::pop, mem::replace isolation; the programs are REGENERATED by lib/tables/c01.py + lib/c01_rustscan.py from the text of meta.rs — push/pop/assign/if/match/for/closures; the shapes of AssignmentTracker::{push,pop,assign,is_assigned} and the one-scope initial stack are checked textually; functions without scope operations are over-approximated by any number of their need/call events in any order); MJ.C01.codegen_pending_block_table_ok / codegen_pending_block_safe (MJ/Model/KStack.lean, MJ/Proofs/KStack.lean: programs over stacks of PendingBlock kinds with per-method signatures, regenerated from codegen.rs incl. early returns rewritten structurally, the sub-generator of {% block %} and a driver `compile_stmt* ; finish` as entry points; only the KIND discipline is modelled, the `unreachable!()` arms that depend on WHICH instruction a remembered index points to stay class d); MJ.C01.getLine_no_panic / getSpan_no_panic (about C13's model MJ/Model/Loc.lean, binary search contract Ok(i) ⇒ i < len, Err(i) ⇒ i ≤ len), smallStr_no_panic / smallStr_char_fits (MJ/Model/Sites.lean, capacity regenerated); MJ.C01.all_panic_sites_classified / panic_guards_as_tabled / panic_evidence_given / panic_site_class_counts by `decide +kernel` on MJ.Gen.panicSites vs MJ/Model/PanicSites.lean (the classification is a HAND judgement per row: class a means the named theorem covers the arithmetic / access of that function in its kernel model, class b that the tabled guard is adequate — the theorem only guarantees that the table is complete, that counts and guards have not changed, and that evidence is named; the scanner is syntactic: `arith` counts every binary + - * / % << >> and compound assignment incl. float and checked contexts, method-call panics such as RefCell borrows or slice::copy_from_slice are not sites). MOVED FROM VALIDATED TO PROVED in this round: the scope stack of meta.rs (1 site, was oracle only and the seeded C01-5 was missed), pending_block kind discipline (4 sites), get_line/get_span (6 sites), SmallStr (5 sites). MOVED FROM VALIDATED TO PROVED in session 4: the integer arms of ops::add/sub/mul/rem/int_div/pow/neg and filters::abs (MJ.C01.intOps_no_panic for all integer pairs, intOps_exact; hand transcription MJ/Model/IntOps.lean incl. the plain `a * a` / `b % 2` of the unit-base fallback and `(x as i128).abs()`; checkedPow decides |a| >= 2, e >= 128 without computing the power — a definitional shortcut of the model, not proved equal to a^e; correspondence: stream `k intop` = 6 binary operators x 33x33 boundary integers of all four representations + neg/abs, value compared with drive_c01; `k intoplit` the same through literals = constant folding, oracle only) — 6 rows / 12 sites from d/b to a; compile_call_args assert + casts (MJ.C01.callArgs_fit_u16 with Gen.parserMaxArgs regenerated; probes `d w:<kind> 65535/65536` for every counted construct) — 2 rows / 4 sites; python_string_debug_fmt (MJ.C01.reprStr_no_panic, all strings, all escaping rules; correspondence `k reprstr`: all strings of length <= 3 over a 16-character alphabet of every escaping class and UTF-8 width, number of bytes written compared) — 3 rows / 6 sites; render_debug_info line-window arithmetic (MJ.C01.debugWindow_no_panic for every line number and every source below 2^63 lines; correspondence `k dbgwin`: the line numbers the real debug output prints for every error line of 1..9-line templates and both ends of a 50-line one) — 2 rows / 7 sites; C01_statement + C01_main (the gap as named hypotheses, see text). The classification follows /repo HEAD (debug.rs render_debug_info lost its 6 unwraps in fix 959b12c). NOT proved: the code generator's output — covered by translation validation (the verified checker accepts every real stream of the run: fixtures, builtin-call templates, compiling mutants, depth-probe templates), not by a theorem about codegen.rs; the effect table mapping Instruction -> abstract instruction is a hand transcription (harness stk_tok, exhaustive match) tied dynamically by the verif_hooks::opstack hook (every dispatched instruction of every render: observed height transition vs table). What is ONLY SEARCHED (bounded, sampled; a finding is a witness, absence of findings is not a proof): native stack use of the AST walkers, of Value Display/serialize/Drop on deeply nested run-time values and of VM re-entry (AST depth is bounded by theorem, frame sizes are not modelled), allocator behaviour, the frame/capture stacks (C05), every builtin filter/test/function/loop/namespace/macro call on a boundary value zoo, format-string grammar, template mutants, error formatting; only the harness' dev profile (opt-level 1, overflow checks + debug assertions) in the quick tier, release added in thorough. Assumed: the guard macro has the extracted shape (checked textually), size_of::<Value>() = 24 (checked at run time), 64-bit target, allocation failure below the named limits does not occur (2 GiB cap in the workers), a loop object is only called where the model allows recursion (any CallFunction with one argument / FastRecurse may enter any recursive loop of the stream). Hangs (timeouts) are reported in the histogram, not counted as crashes.",
}

NEEDED_TABLES = ["PARSER_CALL_GRAPH", "RECURSION_GUARD_SHAPE", "RANGE_LIMIT", "UNTRUSTED_SIZE_HINT_CAP", "MAX_EXPR_NESTING",
                 "FMT_MAX_PRECISION", "FMT_MAX_WIDTH_IS_REPEAT_LIMIT", "MAX_REPEATED_STRING_LEN", "MAX_RECURSION_PARSER", "NEST_PROTOCOL", "MERGESEQ_MAX_DEPTH", "MAX_LOCALS", "VM_LOCAL_SLOTS", "META_SCOPE_PROGRAMS", "PANIC_SITES", "SMALL_STR_CAP", "CODEGEN_KSTACK", "PARSER_MAX_ARGS"]


TRIVIAL_ERRORS = ("TooManyArguments", "UnknownTest", "UnknownFilter", "UnknownFunction")


def classify(case, result):
    """(is_failure, site, what) for one result line"""
    f = case.split(" ")
    kind = f[0]
    if result.startswith("timeout"):
        return False, None, "timeout"
    bad = result.startswith(("panic", "signal", "exit:")) or ":batch-only:" in result
    if not bad:
        return False, None, None
    if result.startswith("panic-fmt:"):
        cls = "panic-fmt@" + result[len("panic-fmt:"):]
    elif result.startswith("panic:"):
        cls = "panic@" + result[len("panic:"):]
    elif ":batch-only:" in result:
        cls = "signal-in-batch-only"
    else:
        cls = "signal"            # the signal number depends on how the stack overflow / abort is delivered
    if kind == "k":
        site = f"kernel:{f[1]}:{cls}"
    elif kind == "d":
        site = f"depth:{f[1]}:{cls}"
    elif kind == "f":
        site = f"format:{'printf' if f[1] == 'p' else 'strformat'}:{cls}"
    elif kind == "c":
        site = f"compose:{f[1]}:{cls}"
    elif kind in ("t", "e"):
        label = f[1].replace("namespace:cycle2", "namespace:cycle")   # same family, run on the 2 MiB thread only
        if label.startswith("mut"):
            site = f"template:{cls}"
        else:
            site = f"builtin:{label}:{cls}"
    else:
        site = f"other:{cls}"
    return True, site, f"{result}"


def norm_impl_for_model(case, r):
    k = case.split(" ")[1]
    if k == "lexcol":
        if r.startswith("err:SyntaxError:"):
            return "ok:" + ":".join(r.split(":")[2:])
        return "panic" if r.startswith("panic") else r
    if r.startswith("err:"):
        return "err"
    if r.startswith("panic"):
        return "panic"
    return r


def run_profile(r, exe, profile, model_cache):
    rc, out, err = r.harness(exe, ["gen", r.tier], timeout=6000)
    if rc != 0:
        r.broken.append(f"harness c01 ({profile}) exited {rc}: {err[-300:]}")
        return
    lines = out.splitlines()
    by_case = collections.OrderedDict()
    for line in lines:
        parts = line.split("\t")
        if len(parts) != 3:
            r.broken.append(f"harness c01 ({profile}): malformed line {line[:80]!r}")
            continue
        mode, case, res = parts
        by_case.setdefault(case, {})[mode] = res
    # model for the kernel stream
    kcases = [c for c in by_case if c.startswith("k ") and c not in model_cache]
    if kcases:
        model = r.driver("drive_c01", "\n".join(kcases) + "\n")
        if model is None or len(model) != len(kcases):
            r.broken.append("model driver output does not line up with the kernel cases")
        else:
            for c, ml in zip(kcases, model):
                mc, mres = ml.split("\t")
                if mc != c:
                    r.broken.append("model driver echoed a different case")
                    break
                model_cache[c] = mres
    n_seen = 0
    amplify = []
    for case, modes in by_case.items():
        f = case.split(" ")
        stream = {"k": "kernels", "d": "depth", "t": "templates", "e": "expressions", "f": "format-grammar", "c": "compose"}.get(f[0], "other")
        if f[0] in ("t", "e"):
            stream = "mutants" if f[1].startswith("mut") else "builtins"
        for mode, res in sorted(modes.items()):
            cls = res.split(":")[0]
            # non-trivial: the real code ran to a value, or to an error other than the arity / unknown-name
            # rejections that never reach the builtin's body
            nontrivial = cls == "ok" or (cls == "err" and res.split(":")[1] not in TRIVIAL_ERRORS)
            r.count(f"{profile} {mode} {case}", nontrivial)
            r.hist[f"stream[{profile}]"][stream] += 1
            r.hist[f"outcome[{profile},{mode}]"][cls] += 1
            if cls == "err":
                r.hist["error_kind"][res.split(":")[1]] += 1
            if f[0] in ("t", "e") and not f[1].startswith("mut"):
                r.hist["builtin_family"][f[1].split(":")[0]] += 1
            if f[0] in ("t", "e") and mode == "main" and f[2].isdigit() and int(f[2]) >= 4:
                # configuration axis of the case: ctx + 4 * (ub + 4 * (ws + 8 * (syn + 6 * misc)))
                cfg = int(f[2]) // 4
                r.hist["config_undefined_behavior"][("lenient", "chainable", "semi_strict", "strict")[cfg % 4]] += 1
                ws = (cfg // 4) % 8
                r.hist["config_whitespace"]["+".join(n for b, n in ((1, "trim_blocks"), (2, "lstrip_blocks"), (4, "keep_trailing_newline")) if ws & b) or "default"] += 1
                r.hist["config_syntax"][("default", "erb", "line-statements", "prefix-overlap", "multi-byte", "ws-marker-delims")[(cfg // 32) % 6]] += 1
                r.hist["config_misc"][("default", "debug-off", "recursion-limit-3", "json-name")[(cfg // 192) % 4]] += 1
            if f[0] == "k":
                r.hist["kernel"][f[1]] += 1
            if f[0] == "c" and mode == "main":
                path = f[4].split("|")[0].split(".")
                r.hist["compose_family"][f"{f[1]} depth {len(path) - 1}"] += 1
                r.hist["compose_api"][f[2]] += 1
                r.hist["compose_outcome"][cls + (":" + res.split(":")[1] if cls == "err" else "")] += 1
                if f[1] != "expr":
                    for st in path[-1].split("+"):
                        r.hist["compose_statement"][st] += 1
                    for k in path[:-1]:
                        r.hist["compose_container"][k] += 1
            if res.startswith("tie-mismatch"):
                # the operand-stack heights the real VM went through contradict the effect table
                r.model_disagreement(f"{profile}/{mode} {case}", res, "transition allowed by stk_tok / MJ.Stk")
                r.hist["opstack_dynamic_tie"]["mismatch"] += 1
            elif mode == "main" and f[0] in ("t", "e", "c") and cls in ("ok", "err"):
                r.hist["opstack_dynamic_tie"]["renders whose every dispatched instruction matched the table"] += 1
            bad, site, what = classify(case, res)
            if what == "timeout":
                r.hist["timeouts"][f"{f[0]} {f[1]}"] += 1
            if bad:
                r.oracle_failure(case, f"[{profile}/{mode}] {what}", site)
            # correspondence with the Lean model (kernel stream)
            if f[0] == "k" and case in model_cache and model_cache[case] != "-":
                impl = norm_impl_for_model(case, res)
                if impl != model_cache[case] and not res.startswith(("signal", "timeout")):
                    r.model_disagreement(f"{profile}/{mode} {case}", res, model_cache[case])
                r.hist["model_compared"][f[1]] += 1
        # chains stacked through a grouping primary beyond the limit: the nesting model rejects them
        if f[0] == "d" and f[1].startswith("stk:"):
            for mode, res in sorted(modes.items()):
                r.hist["stacked_chain_probes"][res.split(":")[0] + (":" + res.split(":")[1] if res.startswith("err:") else "")] += 1
                if not res.startswith(("err:SyntaxError", "signal", "timeout", "panic", "exit:")):
                    r.model_disagreement(f"{profile}/{mode} {case}", res, "err:SyntaxError (the longest path has more than MAX_EXPR_NESTING loop-built nodes)")
        # a `nest` disagreement where the real parser accepts what the model refuses: amplify it
        if f[0] == "k" and f[1] == "nest" and model_cache.get(case) == "err-chain" and any(v == "ok" for v in modes.values()):
            amplify.append(f[2])
        # the two threads must agree on everything but crashes
        vals = set(modes.values())
        if len(vals) > 1 and not any(v.startswith(("signal", "timeout", "exit:", "tie-mismatch")) or ":batch-only:" in v for v in vals):
            r.hist["main_vs_2MiB_thread_differ"][f"{f[0]} {f[1]}"] += 1
        n_seen += 1
        if n_seen % 4099 == 1 and len(r.samples) < 11:
            r.sample({"profile": profile, "case": case if len(case) < 300 else case[:300] + "…", "engine": modes,
                      "model": model_cache.get(case, "(not modelled)")})
    r.extra.setdefault("cases_per_profile", {})[profile] = len(by_case)
    # directed search: a leak of the chain accounting compounds when the derivation is substituted into
    # its own leaves — load and evaluate the amplified inputs in the crash oracle
    if amplify:
        amp_cases = []
        for d in amplify[:8]:
            nleaves = len(re.findall(r"(?<!\*)x", d))
            for pos in range(min(nleaves, 4)):
                for k in (8, 40):
                    amp_cases.append(f"k nestamp {pos} {k} {d}")
        rc, out, err = r.harness(exe, ["stdin"], inp="\n".join(amp_cases) + "\n", timeout=3000)
        for line in out.splitlines():
            parts = line.split("\t")
            if len(parts) != 3:
                continue
            mode, case, res = parts
            r.count(f"{profile} {mode} {case}", True)
            r.hist["directed_search_after_nest_disagreement"][res.split(":")[0]] += 1
            bad, site, what = classify(case, res)
            if bad:
                r.oracle_failure(case, f"[{profile}/{mode}] amplified nest disagreement: {what}", site)
            elif res == "ok":
                r.model_disagreement(f"{profile}/{mode} {case}", res, "err-chain")


def fetch_streams(r, exe, box):
    """(runs in a thread beside the crash oracle) dump the instruction streams and run the verified checker"""
    rc, out, err = r.harness(exe, ["streams", r.tier], timeout=6000)
    box["rc"], box["err"] = rc, err
    if rc != 0:
        return
    box["lines"] = [l for l in out.splitlines() if l.startswith("S\t")]
    box["ncomp"] = [l for l in out.splitlines() if l.startswith("N\t")]
    if box["lines"]:
        box["res"] = r.driver("drive_c01", "\n".join(box["lines"]) + "\n")


def validate_streams(r, box):
    """translation validation of the operand-stack discipline: the VERIFIED checker (checkStk on the
    certificate proposed by the untrusted inferStk) on every instruction stream the real compiler
    produces for the templates of the case list that compile"""
    if box.get("rc") != 0:
        r.broken.append(f"harness c01 streams exited {box.get('rc')}: {(box.get('err') or '')[-300:]}")
        return
    lines, ncomp, res = box.get("lines") or [], box.get("ncomp") or [], box.get("res")
    r.extra["opstack_templates_compiled"] = int(ncomp[0].split("\t")[1]) if ncomp else None
    if not lines:
        r.broken.append("harness produced no instruction streams")
        return
    if res is None or len(res) != len(lines):
        r.broken.append("checker driver output does not line up with the dumped streams")
        return
    rejected = 0
    for line, ml in zip(lines, res):
        _, case, name, toks = line.split("\t")
        verdict = ml.split("\t")[3]
        tl = toks.split(" ")
        pops = any(t.startswith(("e:1", "e:2", "e:4", "call", "cdyn", "bd", "bl", "ul", "sw", "add", "pl", "jf", "fr", "bm")) for t in tl)
        r.count("stream " + toks, pops)
        r.hist["opstack_verdict"][verdict.split(" ")[0]] += 1
        for tag, key in (("bd", "dynamic BuildList (filtered loop)"), ("cdyn", "dynamic call (splat args)"), ("pl:1", "recursive loop"),
                         ("fr", "FastRecurse"), ("bm", "macro body"), ("sw", "Swap")):
            if any(t.startswith(tag) for t in tl):
                r.hist["opstack_idioms"][key] += 1
        if verdict.startswith("ok"):
            m = re.search(r"maxheight=(\d+)", verdict)
            if m:
                r.hist["opstack_max_height"][min(int(m.group(1)), 20)] += 1
        else:
            rejected += 1
            if rejected <= 5:
                r.broken.append(f"operand-stack certificate rejected for stream `{name}` of case `{case[:200]}`: {verdict[:300]}")
    r.extra["opstack_streams_checked"] = len(lines)
    r.extra["opstack_streams_rejected"] = rejected


def compare_panic_sites(r, gen):
    """the regenerated table of potential crash sites against the hand-made classification
    (lean/MJ/Model/PanicSites.lean): the theorem `all_panic_sites_classified` decides, this twin only
    turns a mismatch into a pointer (file, function, kind, source lines)"""
    from common import LEAN
    path = os.path.join(LEAN, "MJ", "Model", "PanicSites.lean")
    rows = re.findall(r'⟨"((?:[^"\\]|\\.)*)", (\d+), \.([abcd]), "((?:[^"\\]|\\.)*)"⟩', open(path, encoding="utf-8").read())
    unq = lambda t: t.replace('\\"', '"').replace("\\\\", "\\")
    cls = {unq(k): (int(n), c, unq(e)) for k, n, c, e in rows}
    table = {k: (n, g) for k, n, g in gen.get("table", [])}
    lines = gen.get("lines", {})
    per = collections.Counter()
    sites = collections.Counter()
    for k, (n, c, e) in cls.items():
        per[c] += 1
        sites[c] += n
    r.extra["panic_sites"] = {"rows": len(table), "sites": sum(n for n, _ in table.values()),
                              "classified_rows": dict(per), "classified_sites": dict(sites),
                              "classes": {"a": "proved unreachable in a kernel model (theorem named)", "b": "guarded in the same function (guard text tabled and regenerated)",
                                          "c": "outside the property's quantifier (poisoned mutex, allocation of fixed types, host macros, macro syntax)", "d": "crash-oracle streams only"}}
    msgs = []
    for k, (n, g) in table.items():
        if k not in cls:
            msgs.append(f"new potential crash site(s): {k} x{n} at minijinja/src/{k.split('::')[0]} line(s) {lines.get(k)} — not classified")
        elif cls[k][0] != n:
            msgs.append(f"potential crash sites changed: {k} now x{n} (classified x{cls[k][0]}) at minijinja/src/{k.split('::')[0]} line(s) {lines.get(k)}")
        elif cls[k][1] == "b" and cls[k][2] != g:
            msgs.append(f"guard of a class-b crash site changed: {k}: source has `{g}`, tabled `{cls[k][2]}` (line(s) {lines.get(k)})")
    for k in cls:
        if k not in table:
            msgs.append(f"classified crash site no longer in the source: {k} (remove the row or follow the move)")
    # class-a rows name a theorem; the ones of this property must be among the audited obligations
    audited = set(re.findall(r"^#print axioms\s+(\S+)", open(os.path.join(LEAN, "MJ", "Audit", "C01.lean")).read(), re.M))
    for k, (n, c, e) in cls.items():
        if c == "a":
            thms = re.findall(r"MJ\.[A-Za-z0-9_.]+", e)
            if not e.startswith("MJ.") or not thms:
                msgs.append(f"class-a crash site {k} does not name its theorem")
            for t in thms:
                t = t.rstrip(".")
                if t.startswith("MJ.C01.") and t not in audited:
                    msgs.append(f"class-a crash site {k} names `{t}`, which is not an audited obligation of MJ/Audit/C01.lean")
    for m in msgs[:8]:
        r.broken.append(m + "; theorem all_panic_sites_classified / panic_guards_as_tabled does not hold for the regenerated table")
    r.extra["panic_sites"]["mismatches"] = len(msgs)


def run(r):
    r.rule = ("kernel stream: exhaustive boundary boxes (range 19x19x15, repetition, indent/tojson/format widths, batch/slice counts, "
              "lexer columns) compared with the Lean model; builtins: every name registered in defaults.rs x receiver zoo x argument "
              "lists (none, each zoo value, sampled pairs/triples/kwargs); mutants: seeds from fuzz/ and tests/inputs + grammar-aware "
              "mutations; depth probes: 63 constructs x depths; compositions: 33 statement kinds x 15 container kinds nested to depth 2 exhaustively (depth 3+ sampled) x user statements before/after at every level, ordered sibling pairs in every container, 34 expression kinds nested to depth 2 (deeper sampled), loaded through 7 API paths, undeclared_variables(true/false), rendered; accumulate-loop probes (4000 rounds, thorough 10000) on a 256 KiB stack; each case on the main thread and on a 2 MiB thread in child processes (pool of 16 worker slots, heavy cases first) "
              "under a 2 GiB cap; session 4: kp = every builtin filter/test/function/pycompat method (+ map/select/reject by name) x receiver of every value kind (strings plain / safe from the host / |safe / set-block capture / macro result / |e) x {no argument, every kind as the only argument} exhaustively, every kind in 2nd/3rd and keyword position (names read from kwargs.get in the sources), under the other undefined behaviours whenever an undefined value is involved; configuration axis ctx + 4*cfg on every t/e case (mutants: half of them rewritten into one of six syntax configurations and damaged with its delimiters, line prefixes, whitespace of every width around every delimiter; every seed under every syntax, every seed x 15 kinds of whitespace (every UTF-8 width, every line break) around its delimiters with the whitespace switches rotating); intop 6 operators x 33x33 integers + neg/abs; reprstr all strings <= 3 over 16 characters; escape grammar (octal/hex/unicode escapes at their boundaries, ordered surrogate pairs); format conversions: every type x flag x width x precision x 20 one-argument sets; value probes (intval / loopindex / longstr / vars / bigint) around every integer constant, rendered under each auto-escape mode (none, html, json: each has its own output path); debug-output line window (dbgwin); "
              "a case is non-trivial when the real code ran to a value or to an error other than TooManyArguments/Unknown* (distinct per profile/thread)")
    r.assumptions = [
        "operand stack: the per-instruction effect table is the exhaustive match `stk_tok` of harness/src/bin/c01.rs (hand transcription of vm/mod.rs eval_impl), tied dynamically: the verif_hooks::opstack hook reports (activation, pc, stack height) for every dispatched instruction of every render of the oracle run and every transition is compared with the table; recursion into a loop may target any recursive loop of the stream; nested evaluations (macro calls, blocks, includes) run their own activation on their own stack",
        "with_recursion_guard! increments depth for the duration of the guarded call and refuses above MAX_RECURSION (shape checked textually by the extractor)",
        "size_of::<Value>() = 24 and 64-bit usize (checked at run time by `c01 info`)",
        "allocations below the named limits succeed (workers run under a 2 GiB address-space cap)",
        "the dev profile of the harness (opt-level 1, overflow checks, debug assertions) stands for 'debug'; opt-level-0 frame sizes are not observed",
    ]
    st = r.regen_tables(NEEDED_TABLES)
    # the elif self-recursion is the excluded region of the parser theorem: report it from the table
    graph = (st.get("items") or {}).get("PARSER_CALL_GRAPH") or {}
    unguarded_self = [a for a, b, g in graph.get("edges", []) if a == b and not g]
    r.extra["parser_unguarded_self_recursion"] = unguarded_self
    scopes = (st.get("items") or {}).get("META_SCOPE_PROGRAMS") or {}
    r.extra["meta_scope_arms"] = scopes.get("arms")
    for name in scopes.get("unbalanced", []):
        r.broken.append(f"compiler/meta.rs {name}: the scope stack is not balanced on every path (push/pop counts {scopes.get('arms', {}).get(name)}); "
                        "theorems meta_scope_table_balanced / meta_walk_arms_balanced do not hold for the regenerated table")
    kst = (st.get("items") or {}).get("CODEGEN_KSTACK") or {}
    r.extra["codegen_pending_block_signatures"] = {n: f"{v['pre']} -> {v['post']}" for n, v in (kst.get("signatures") or {}).items() if v["pre"] or v["post"]}
    for name in kst.get("unchecked", []):
        r.broken.append(f"compiler/codegen.rs CodeGenerator::{name}: pending_block is not used with matching kinds / not balanced on every path "
                        f"(inferred signature {kst['signatures'].get(name)}); theorem codegen_pending_block_table_ok does not hold for the regenerated table")
    compare_panic_sites(r, (st.get("items") or {}).get("PANIC_SITES") or {})
    # the Lean build and the build of the harness do not depend on each other
    import threading
    built = {}
    th = threading.Thread(target=lambda: built.update(exe=r.cargo_build("c01")))
    th.start()
    r.lean_prove("MJ.Props.C01", "MJ/Audit/C01.lean", extra_targets=["drive_c01"])
    th.join()
    exe = built.get("exe")
    if exe is None:
        return
    rc, out, err = r.harness(exe, ["info"])
    info = dict(l.split("\t") for l in out.splitlines() if "\t" in l)
    r.extra["build_info"] = info
    if info.get("size_of_value") != "24" or info.get("pointer_width") != "64":
        r.broken.append(f"model assumes size_of::<Value>() = 24 on a 64-bit target, the build reports {info}")
    # the translation validation of the instruction streams (one process + the Lean checker) runs beside
    # the crash oracle (worker pool)
    box = {}
    tv = threading.Thread(target=fetch_streams, args=(r, exe, box))
    tv.start()
    model_cache = {}
    run_profile(r, exe, "debug", model_cache)
    tv.join()
    validate_streams(r, box)
    if r.tier == "thorough":
        exe_rel = r.cargo_build("c01", release=True)
        if exe_rel is not None:
            run_profile(r, exe_rel, "release", model_cache)
    r.extra["first_model_disagreements"] = r.model_disagreements[:12]
    for name in unguarded_self:
        if name != "parse_if_cond":
            r.oracle_failure(f"parser call graph: {name} -> {name}", "unguarded self-recursion in the parser", f"callgraph:{name}:unguarded-self-recursion")


def replay(r, path):
    d = json.load(open(path))
    exe = r.cargo_build("c01")
    for case in [d.get("case")] + d.get("more_cases", []):
        if not case:
            continue
        case = re.sub(r"^(debug|release)/(main|t2m) ", "", case)
        rc, out, err = r.harness(exe, ["one"] + case.split(" "))
        print("case:", case)
        rc2, shown, _ = r.harness(exe, ["show"] + case.split(" "))
        print("source:", shown.strip()[:2000])
        for l in out.splitlines():
            print("engine:", l.split("\t")[0], l.split("\t")[-1])
        if case.startswith("k "):
            model = r.driver("drive_c01", case + "\n")
            print("model:", model[0].split("\t")[-1] if model else None)
    return 0
