"""C19 — a failing output sink stops the render with the sink's own error (DESIGN.md §3 C19)."""
import json, os, re, time
from concurrent.futures import ThreadPoolExecutor
import common

READY = True

META = {
    "technique": "Lean 4 proof over an output state machine (sink script x write_all x WriteWrapper x capture stack x VM op sequence x user-code strategies), parametric in the facts of the source (CodeFacts) which are read off regenerated tables (write sites, result flow of every output handle, Output creations, adapter guards/stores, boundary arms) + differential fault injection at every write call of real renders, model input = the engine's real operation log",
    "category": "proof",
    "text": "Kernel-checked theorems for EVERY sequence of output operations and EVERY per-call sink behaviour (accept all / k bytes / half / zero / Err of any kind incl. Interrupted, the Err being ANY error token: bare kind, raw OS error, string / custom payload, a payload that is itself an engine error of any kind incl. WriteFailure with a source chain, a nested io::Error): the bytes the sink accepted are a prefix of the string the plain render builds; a call at which the sink failed is the last call it sees; the API then returns WriteFailure whose source is exactly the sink's error token, untouched (whatever include/super nesting was unwound, whatever the token looks like: boundary_returns_token_untouched, source_is_never_unwrapped), never Ok, never another kind, never a panic; without a sink failure result and bytes equal the plain render's; captured/discarded regions and evaluations on an Output of their own (macros, caller(), Expression::eval, block rendering from a function: Prog.own) never reach the sink. The adapter is sticky (sticky_after_error): once it holds an error no later write of the engine or of user code of ANY behaviour (UserCode strategies that see each write result and continue, swallow, return Ok) reaches the sink or changes the slot, and C19 holds with such user code (C19_with_user_strategies). write_failure / take_err / check, the check/take_err arms of both APIs and the sticky guards of WriteWrapper's methods are tied to tables regenerated from output.rs, template.rs, vm/state.rs (a branch that inspects the io::Error before wrapping it, a missing guard, a missing check breaks a `decide` theorem). The model is tied to /repo by running real templates (fixed set + generated: macros, call blocks, set/filter blocks, includes, imports, inheritance with super, recursive loops, autoescape, big values, custom objects) through Template::render_captured_to and State::render_block_to_write (direct, from a template function, with a well-behaved / a careless custom formatter that also returns look-alike WriteFailure errors of its own) into an instrumented io::Write that fails at every k-th write call with every behaviour and with its io::Error built in 11 ways (bare ErrorKind, from_raw_os_error incl. EINTR, String, own error type, minijinja::Error payload of kind InvalidOperation / UndefinedError / WriteFailure / TemplateNotFound / with a source chain / a WriteFailure whose own source is an io::Error that reads exactly like the sink's, another io::Error as payload), on the hooked and on the unhooked build; the oracle demands kind()==WriteFailure and that source() IS the sink's error: same kind, same raw OS code, same payload object by address (plus id and construction read off the returned error and compared with the model's token). The REAL sequence of output operations of every render (feature-guarded hook verif_hooks::output) and the failure script are fed to the Lean model: the model's capture stack must route every real write where the engine did and pop the values the engine popped, and run(ops, sink) must reproduce the sink's calls, accepted bytes, checksums, log digest, result token and the number of operations executed; the log of every failing run must be the clean log cut at the failing write; the log of the plain String render must equal the writer run's. A second family of programs is generated as terms of the model's structured layer (set/filter blocks, macros and call blocks on their own Output, includes, inheritance with super, loops, errors, a template function rendering a block), unparsed to templates, and the big-step exec of the term is compared with the engine (APIs full, fmt, fn), its flattening must equal the real operation log. The property itself is evaluated on the real observations. Session 3: every fact of the source the model rests on is a switch of a parametric model (CodeFacts: sticky guard and error store per adapter method, check/take_err per entry point, propagation per write site) whose values are READ OFF regenerated tables (codeFacts); code_facts_hold proves them all on, each_code_fact_is_needed exhibits a violating render for every switch that is off, and the model driver answers the flat correspondence stream with renderToF codeFacts (the model instantiated with what the source says now). every_write_result_propagates: no write call (67 sites) and no other use of a handle of the output (127 uses of &mut Output / &mut Formatter / dyn fmt::Write / builders / wrapper structs / Outputs created in place, crate-wide) drops, inspects or unwraps the Result; every_entry_point_checks_wrapper: every Output::new of the crate is over a String, the null writer, or a WriteWrapper whose evaluation result goes through check (Ok arm) and take_err (Err arm). render_stops_at_failing_write: the evaluation ends at the failing base write (nothing behind it executed) - for every op sequence; forwarding_user_code_is_engine_ops: user code that forwards (`?` after every write) is part of the op sequence, so C19 holds for it without the panic escape. C19_main: C19_statement for any engine that is the model instantiated with codeFacts (H_ops, the one validated hypothesis). The oracle also demands that rendering STOPS: the engine's operation log must end at the failed write (user code of the harness that goes on / swallows is flagged by the harness itself and relaxes this exactly as far as it went). Coverage ties: every ValueRepr variant (regenerated) must be emitted into a failing writer, every instruction whose arm of the evaluation loop touches the output (regenerated) must occur in the programs.",
    "design_ref": "DESIGN.md §3 C19",
    "level_note": "Trusted: Lean kernel; the regex-level extractors of lib/tables/c19.py (a shape they do not understand is classified `unknown`/`inspected` and fails a theorem, it is never taken for `propagate`); hand transcription of std::io::Write::write_all and of the emit/capture/include/super skeleton of vm/mod.rs into MJ/Model/Output.lean. STILL ONLY VALIDATED (named hypothesis H_ops = EngineIsModel of C19_main): that for every program the engine performs ONE sequence of output operations and calls of user code, independent of the base writer, each issued by a write site of the table, through one of the two functions that build a WriteWrapper - validated by the hook log of every run (same operations for String and io::Write base writers; the log of every failing run is the clean log cut at the failing write and, since session 3, ENDS there unless user code of the harness went on; run(ops, sink) reproduces the sink's calls, bytes, digest, result token, operations executed) and by fault injection at every write call of every program, on the hooked and the unhooked build. NOT MODELLED: std's fmt machinery (Formatter adapters, padding, Display of numbers, DebugList/DebugMap stop at the first fmt::Error) - validated by failure injection at every piece and by the stop predicate; serde_json; the routing annotation of the hook is computed from the capture stack (the raw target pointer is covered only through the sink's calls). OUTSIDE THE PROPERTY: user formatters / Object::render that swallow a fmt::Error make the engine go on until its next write (`rendering stops` then holds only at the sink: sticky adapter + check, C19_with_user_strategies); a sink that violates io::Write's contract (n > buf.len()) or answers Interrupted forever. Round 3: the Emit layer (write_escaped chunking, HtmlEscape pieces with the escape table regenerated from source, fast paths, user code failing by itself) is inside the model and compared piece by piece with the engine; Interrupted-retry is a theorem; the sink-level streams are re-run against minijinja compiled WITHOUT verif_hooks and must equal the hooked build. MOVED FROM VALIDATED TO PROVED in session 3: (1) `the VM stops at the first fmt::Error because every emit site propagates it` was validated by the hook log only; now every_write_result_propagates is a decided theorem over two regenerated tables (C19_WRITE_SITES 67 rows incl. the forwarding writes of render_guarded's tracker; C19_RESULT_FLOW 127 rows: every call that is handed a handle of the output, every closure value, every bound result incl. `inspected` results such as `if rv.is_err()`), engine_loop_is_run proves that the loop with the table's classification IS run (stops at the first error), render_stops_at_failing_write proves for ALL op sequences that nothing behind the failing base write is executed, and sink_claims_for_any_site_classification proves that even a site that drops its fmt::Error cannot break the sink-level claims. (2) `both entry points check the adapter` was pinned as a literal table; now every_entry_point_checks_wrapper quantifies over every Output::new/Output::null of the crate (C19_OUTPUT_CREATIONS, base writer classified, one level of callers resolved) and over the boundary sites, codeFacts.api reads the arms per entry point, both_entry_points_are_renderTo proves that Template::render_captured_to and State::render_block_to_write are the same renderTo, and each_code_fact_is_needed shows the violating render when an arm is missing at ONE entry point (seeded C19-7). (3) the adapter's guard/store were pinned literals; now they are switches of WriteWrapper.writeBytesF read off the tables, with the non-sticky / non-storing behaviour modelled and shown to violate C19. (4) well-behaved user code (`?` after every write: UserCode.forwards) was covered only by the `or the user code panicked later` form; now forwarding_user_code_is_engine_ops / C19_with_forwarding_user_code give full strength. (5) C19_statement (about an engine: all programs x all sink behaviours) and C19_main make the remaining gap one named hypothesis (H_ops). Not possible to prove in Lean: H_ops itself (it is a statement about rustc's semantics of vm/mod.rs, not about a table).",
}


def api_class(api):
    return api.split(":")[0]


def script_class(script):
    toks = script.split(",")
    last = toks[-1]
    if len(toks) >= 2 and toks[-1].startswith("Eot.7"):
        return "mixed"
    if toks[0] == "F":
        return "flush-fails"
    if last.endswith("*40"):
        return "permanent-failure"
    if len(toks) >= 7 and toks[-1].startswith("Ewb.") and "S0" in toks:
        return "alternating-failure"
    if last == "P":
        return "sink-panics"
    if "*" in last:
        return "persistent:" + last.split("*")[0][:3]
    if last.startswith("E"):
        return "err:" + last[1:3]
    return {"S0": "zero", "S1": "short1", "H": "half"}.get(last, last)


def strip_stop(fields):
    """the oracle fields without `stop=` (read off the operation log, which only the hooked build has)"""
    return " ".join(x for x in fields.split(" ") if not x.startswith("stop="))


def kv(s):
    return dict(x.split("=", 1) for x in s.split(" ") if "=" in x)


FORMS = ["s", "k", "r", "c", "mi", "mu", "mw", "mt", "mc", "mx", "i"]
N_SHARDS = 8            # fixed (not the number of cores): the order of the lines must not depend on the machine
N_SHARDS_UNHOOKED = 3


def expected_failure(fail):
    """the `res` the property demands for the first failing call observed by the probe:
    WriteFailure whose source has the kind, the identity and the construction of the sink's error"""
    if fail.startswith("zero@"):
        return "wf:wz:0:k"      # write_all's own WriteZero error (a constant of std, no payload)
    if fail.startswith("panic@"):
        return "panic"          # a panicking sink unwinds through the render
    if fail.startswith("flush@"):
        return "wf:ot:424242:s" # (the engine does not flush; if it did, this would be the sink's error)
    kind, rest = fail.split(":", 1)
    return "wf:%s:%s" % (kind, rest.split("@")[0])


def fail_form(fail):
    if fail.startswith("zero@"):
        return "writezero"
    if "@" in fail and fail.count(":") >= 2:
        return fail.split("@")[0].split(":")[2]
    return fail.split("@")[0]


def judge(r, case, api, clean_res, m, o):
    """evaluate the property on one real observation; returns number of failures reported"""
    ac = api_class(api)
    res = m["res"]
    n = 0
    if res == "panic" and not o["fail"].startswith("panic@") and clean_res != "panic":
        r.oracle_failure(case, "render into the writer panicked", "panic:" + ac); n += 1
    if o["prefix"] != "1":
        r.oracle_failure(case, "bytes accepted by the writer are not a prefix of the plain render's string", "delivered-not-prefix:" + ac); n += 1
    if o["after"] != "0":
        r.oracle_failure(case, "%s write call(s) after the writer reported %s" % (o["after"], o["fail"]), "write-after-error:" + ac); n += 1
    if o.get("stop") == "0":
        # "rendering stops": the engine's operation log goes on behind the failed write although no user code
        # of the harness dropped the error (uf: what the harness's user code did in this run)
        r.oracle_failure(case, "the render went on after the writer reported %s: operations behind the failed write (user code flags %s)" % (o["fail"], o.get("uf")),
                         "continues-after-error:" + ac); n += 1
    if o["fail"].startswith("badscript"):
        r.broken.append("harness script builds an io::Error of another kind than it names: %s %s" % (case, o["fail"]))
    elif o["fail"] != "none":
        want = expected_failure(o["fail"])
        if res != want:
            r.oracle_failure(case, "writer failed with %s but the call returned %s (kind %s); expected WriteFailure with that io::Error as source" % (o["fail"], res, o["kind"]),
                             "error-mapping:%s:%s" % (ac, res.split(":")[0] if not res.startswith("wf:") else "wrong-source")); n += 1
        elif want != "panic" and o["src"] != "same":
            # kind, id and construction read the same, but it is another object than the one the sink returned
            r.oracle_failure(case, "writer failed with %s; the returned WriteFailure's source() is not the writer's io::Error itself (%s)" % (o["fail"], o["src"]),
                             "error-mapping:%s:source-identity" % ac); n += 1
        if ac == "fn" and o["outer"] != want:
            r.oracle_failure(case, "error of render_block_to_write returned from a function surfaced as %s" % o["outer"], "fn-outer-propagation"); n += 1
        elif ac == "fn" and want != "panic" and o["osrc"] != "same":
            r.oracle_failure(case, "error of render_block_to_write returned from a function: the outer render's error has another source (%s)" % o["osrc"], "fn-outer-propagation:source-identity"); n += 1
    else:
        if res != clean_res:
            r.oracle_failure(case, "writer never failed but the call returned %s (clean run: %s)" % (res, clean_res), "spurious:%s:%s" % (ac, res.split(":")[0])); n += 1
        elif o["full"] != "1":
            r.oracle_failure(case, "writer never failed, call returned %s, but not all bytes were delivered" % res, "incomplete:" + ac); n += 1
    return n


def run(r):
    r.rule = ("fixed programs (59: text, loops, macros/call blocks, set/filter blocks, includes, imports, 2- and 3-level inheritance "
              "with super, recursive loops, autoescape html/json, big values, custom object, runtime errors, block rendering from a "
              "function, a value of every representation nested and one by one incl. invalid values, objects and formatters that go on after a failed write) + generated programs from a template grammar (VERIF_SEED); per program x API (render_captured_to, same "
              "with custom formatter, render_block_to_write per block, render_block_to_write inside a function): failure at every "
              "write call k < W of the clean run with BrokenPipe/Other/WouldBlock/Interrupted, the io::Error built in 11 ways "
              "rotating over the positions (every construction meets every API; all 11 at every position of the small fixed "
              "programs), one error with an engine-error payload at every position, 1-byte and half short writes, "
              "zero-length write; plus persistent short writes, late/never-reached failures, random mixed scripts ending in a "
              "hard failure; a third family generated as terms of the model's structured layer and unparsed to templates "
              "(APIs full, fmt, fn); 8 expressions evaluated on Output::null. Model input = the engine's real output-operation log. "
              "The harness runs as 8 (program, API) shards + 1 emit stream + 3 unhooked shards in parallel. "
              "Per case the oracle evaluates: prefix, nothing after the failure, WriteFailure with THE sink's error as source, clean == plain, and "
              "`rendering stops` (the engine's operation log ends at the failed write). "
              "A case is non-trivial when it is distinct and the clean run makes at least one write call")
    r.assumptions = [
        "the sink honours io::Write::write's contract n <= buf.len() and does not answer Interrupted forever",
        "std's fmt machinery (Formatter adapters, Display of numbers, DebugList/DebugMap) stops at the first fmt::Error — validated by failure injection at every piece, not modelled",
        "user supplied formatters and Object::render implementations propagate the fmt::Error of the writer they are given",
    ]
    tables = r.regen_tables(["C19_VALUE_REPRS", "C19_OUT_INSTRUCTIONS", "C19_WRITE_SITES", "C19_WRITER_APIS", "C19_WRAPPER_SITES", "C19_SMALL_INT_LIMIT", "C19_UNHOOKED_BODIES", "C19_WRITEWRAPPER_METHODS", "C19_TRACKER_UPDATE", "HTML_ESCAPE_TABLE",
                    "C19_BOUNDARY_BODIES", "C19_BOUNDARY_SITES", "C19_WRITEWRAPPER_STICKY", "C19_RESULT_FLOW", "C19_OUTPUT_CREATIONS"])
    t0 = time.time()
    # the proof build and the two harness builds are independent: run them side by side
    with ThreadPoolExecutor(max_workers=3) as ex:
        f_lean = ex.submit(r.lean_prove, "MJ.Props.C19", "MJ/Audit/C19.lean", ["drive_c19"])
        f_exe = ex.submit(r.cargo_build, "c19")
        f_exe2 = ex.submit(r.cargo_build, "c19", False, (), True)
        f_lean.result()
        exe, exe2 = f_exe.result(), f_exe2.result()
    if exe is None:
        return
    t1 = time.time()
    drive = os.path.join(common.LEAN, ".lake", "build", "bin", "drive_c19")
    have_driver = os.path.exists(drive)
    if any("lake build" in b for b in r.broken):
        # a broken proof or tie stops the combined build; the model driver may still be fine
        have_driver = r.lean_build(["drive_c19"])[0] and os.path.exists(drive)
    if not have_driver:
        r.broken.append("model driver drive_c19 does not build")

    def shard(exe_, args, with_model):
        """one harness process and (hooked build) the model driver on its output"""
        rc, out, err = r.harness(exe_, ["gen", r.tier] + args)
        if rc != 0:
            return (rc, err[-300:], [], None)
        lines = out.splitlines()
        model = None
        if with_model and have_driver:
            rc2, mout, merr = common.sh([drive], inp=out, timeout=3000)
            if rc2 == 0:
                model = mout.splitlines()
            else:
                return (0, "driver exited %d: %s" % (rc2, merr[-300:]), lines, None)
        return (0, "", lines, model)

    jobs = [(exe, ["shard=%d/%d" % (i, N_SHARDS)], True) for i in range(N_SHARDS)] + [(exe, ["emits"], True)]
    if exe2 is not None:
        jobs += [(exe2, ["sub", "shard=%d/%d" % (i, N_SHARDS_UNHOOKED)], False) for i in range(N_SHARDS_UNHOOKED)]
    with ThreadPoolExecutor(max_workers=len(jobs)) as ex:
        results = list(ex.map(lambda j: shard(*j), jobs))
    r.checker_cmds.append("harness c19 gen <tier> shard=i/%d | drive_c19 (in parallel), c19 gen <tier> emits | drive_c19" % N_SHARDS)
    lines, model = [], []
    for (rc, msg, ls, ms) in results[:N_SHARDS + 1]:
        if rc != 0:
            r.broken.append(f"harness c19 exited {rc}: {msg}")
            return
        if msg:
            r.broken.append("model driver drive_c19: " + msg)
        lines += ls
        if model is not None and ms is not None and len(ms) == len(ls):
            model += ms
        else:
            if have_driver and model is not None:
                r.broken.append("model driver output does not line up with the harness cases")
            model = None
    out2_lines = None
    if exe2 is not None:
        out2_lines = []
        for (rc, msg, ls, ms) in results[N_SHARDS + 1:]:
            if rc != 0:
                r.broken.append(f"unhooked harness c19 exited {rc}: {msg}")
                out2_lines = None
                break
            out2_lines += ls
    t2 = time.time()
    clean_res, cur_w = {}, 0
    hooked = {}        # case key -> (sink-level fields, oracle fields) of the hooked build
    n_prog = n_skip = n_fail_cases = n_ok_cases = n_routed = n_prefix = n_emit = n_emit_det = 0
    apis_with_failures = set()
    reprs_emitted = set()
    opcodes_seen = set()
    forms_by_api = {}
    skipped_pids = set()
    for i, line in enumerate(lines):
        f = line.split("\t")
        tag, key = f[0], f[1]
        if tag == "skip":
            if key.split(" ")[0] not in skipped_pids:
                skipped_pids.add(key.split(" ")[0])
                n_skip += 1
                r.hist["skipped"][f[2]] += 1
            continue
        if tag == "emit":
            kf = key.split(" ")
            r.count("emit " + key[:300], True)
            n_emit += 1
            if model is not None:
                mf = model[i].split("\t")[2].split(" ")
                r.hist["emit_layer"]["%s %s %s %s" % (kf[1], kf[2], kf[3], "determined" if mf[0] == "det=1" else "copied")] += 1
                if len(mf) != 2 or mf[1] != f[2]:
                    r.model_disagreement("emit " + key[:200], f[2][:300], " ".join(mf)[:300])
                elif mf[0] == "det=1":
                    n_emit_det += 1
            continue
        if tag == "null":
            o = kv(f[2])
            r.count("null " + key, True)
            r.hist["null_output"][o["res"]] += 1
            if o["new_null"] != "1" or o["nondiscard"] != "0":
                r.broken.append("Expression::eval did not evaluate on a discarding Output::null(): %s %s" % (key, f[2]))
            continue
        pid, api = key.split(" ")[0:2]
        if tag == "prog":
            n_prog += 1
            o = kv(f[2])
            clean_res[(pid, api)] = o["res"]
            cur_w = int(o["w"])
            r.hist["api"][api_class(api)] += 1
            r.hist["clean_W"][min(cur_w // 10 * 10, 200)] += 1
            fam = {"f": "fixed", "g": "generated", "s": "structured"}[pid[0]]
            r.hist["program"][fam] += 1
            r.hist["real_ops_per_render"][min(int(o["route"].split(":")[1]) // 20 * 20, 400)] += 1
            r.hist["captures_per_render"][min(int(o["route"].split(":")[2]), 20)] += 1
            r.hist["emit_of_captured_value"][min(int(o["capemit"]), 10)] += 1
            r.hist["string_apis"][o["strapis"]] += 1
            r.count("prog " + key[:200], cur_w > 0)
            case0 = "%s %s -" % (pid, api)
            r.hist["env_config"][o.get("cfg", "?")] += 1
            if cur_w > 0:
                for x in o.get("reprs", "-").split("+"):
                    reprs_emitted.add(x)
                    r.hist["emitted_value_repr"][x] += 1
                opcodes_seen |= set(o.get("ins", "-").split("+"))
            r.hist["clean_result"][o["res"] + "/plain:" + o["plain"]] += 1
            if o["res"] == "panic" and o["plain"] != "panic":
                r.oracle_failure(case0, "clean render into a writer panicked", "panic:" + api_class(api))
            elif o["res"] == "panic":
                # not about the sink: the plain render panics in the same way (user Display returning Err under html escaping)
                r.extra.setdefault("panics_without_sink_involvement", []).append(case0)
            elif o["same"] != "1":
                r.oracle_failure(case0, "with a never-failing writer the result/bytes differ from the plain render (res=%s plain=%s)" % (o["res"], o["plain"]),
                                 "clean-differs-from-plain:" + api_class(api))
            if o["strapis"] == "differ":
                r.oracle_failure(case0, "Environment::render_str/render_named_str differ from Template::render", "string-apis-differ")
            # ties of the model's assumptions to the engine (no property failure by themselves)
            if o["plainops"] != "same":
                r.broken.append("the engine's output operations depend on the base writer (String vs io::Write): " + case0)
            if o["sinkcalls"] != "same":
                r.broken.append("the sink's calls of a clean run are not the non-empty base writes of the operation log: " + case0)
            if model is not None:
                mm = kv(model[i].split("\t")[2])
                if (mm.get("chunks"), mm.get("bytes"), mm.get("sum"), mm.get("route")) != (o["w"], o["bytes"], o["sum"], o["route"]):
                    r.model_disagreement(case0, " ".join(f[2].split(" ")[:4]), model[i].split("\t")[2])
                elif mm.get("flat") != o["flat"]:
                    r.model_disagreement(case0, "structured program: expected flatten = real ops: " + o["flat"], "flat=" + str(mm.get("flat")))
                r.hist["structured_flatten"][mm.get("flat")] += 1
                psyn = key.split(" ")[4] if len(key.split(" ")) > 4 else "-"
                if psyn != "-":
                    for tok, name in (("M", "own-output (macro, caller)"), ("S", "set block"), ("F", "filter block / captured super"), ("N0(", "include"),
                                      ("N1(", "super"), ("D(", "discarded child output"), ("L", "loop"), ("X", "runtime error")):
                        if any(t.startswith(tok) for t in psyn.split(".")):
                            r.hist["structured_constructs"][name] += 1
                n_routed += int(o["route"].split(":")[1])
            continue
        if tag != "case":
            r.broken.append("unparsable harness line: " + line[:100])
            continue
        script = key.split(" ")[2]
        m, o = kv(f[2]), kv(f[3])
        r.count(key, cur_w > 0)
        r.hist["script"][script_class(script)] += 1
        r.hist["result"][m["res"].split(":")[0] + (":" + m["res"].split(":")[1] if m["res"].startswith("wf:") else "")] += 1
        if o["flush"] != "0":
            r.hist["flush_calls"][api_class(api)] += 1
        if o["fail"] != "none":
            n_fail_cases += 1
            apis_with_failures.add(api_class(api))
            r.hist["error_form"][fail_form(o["fail"])] += 1
            forms_by_api.setdefault(api_class(api), set()).add(fail_form(o["fail"]))
            r.hist["source_identity"][o["src"]] += 1
            pos = int(o["fail"].split("@")[1])
            r.hist["failure_position"]["first" if pos == 0 else ("last" if pos + 1 >= cur_w else "middle")] += 1
        else:
            n_ok_cases += 1
        if m["ops"].startswith("MISMATCH"):
            r.broken.append("operation log of a run is not the clean run's log cut at the failing write: %s %s" % (key, m["ops"]))
        else:
            n_prefix += 1
        hooked[key] = (f[2].rsplit(" ops=", 1)[0], strip_stop(f[3]))
        r.hist["stops_at_failed_write"]["%s uf=%s" % (o.get("stop"), o.get("uf"))] += 1
        judge(r, key, api, clean_res.get((pid, api), "?"), m, o)
        if model is not None:
            mf = model[i].split("\t")
            if len(mf) < 3 or mf[2] != f[2]:
                r.model_disagreement(key, f[2], mf[2] if len(mf) > 2 else model[i])
        if i % 11003 == 0:
            r.sample({"case": key, "engine": f[2], "observed": f[3]})
    # ---- the same streams against minijinja compiled WITHOUT verif_hooks (what real users compile):
    # hooked build == unhooked build, and the property on the unhooked observations
    n_unhooked = n_unhooked_user = 0
    forms_unhooked = set()
    forms_unhooked_api = {}
    if exe2 is not None:
        if out2_lines is not None:
            for line in out2_lines:
                f = line.split("\t")
                if f[0] == "prog":
                    o = kv(f[2])
                    pid, api = f[1].split(" ")[0:2]
                    if o["res"] != clean_res.get((pid, api)) or o["same"] != "1" and o["res"] != "panic":
                        r.oracle_failure("%s %s -" % (pid, api), "unhooked build: clean run res=%s same=%s (hooked build: %s)" % (o["res"], o["same"], clean_res.get((pid, api))),
                                         "unhooked-clean-differs:" + api_class(api))
                    continue
                if f[0] != "case":
                    continue
                key = f[1]
                pid, api = key.split(" ")[0:2]
                m, o = kv(f[2]), kv(f[3])
                n_unhooked += 1
                if o["fail"] != "none":
                    forms_unhooked.add(fail_form(o["fail"]))
                    forms_unhooked_api.setdefault(api_class(api), set()).add(fail_form(o["fail"]))
                if api_class(api) in ("ufmt", "ublock", "cfmt", "cblock"):
                    n_unhooked_user += 1
                r.count("unhooked " + key, True)
                judge(r, key, api, clean_res.get((pid, api), "?"), m, o)
                h = hooked.get(key)
                if h is None:
                    r.broken.append("unhooked build ran a case the hooked build did not: " + key[:120])
                elif h != (f[2].rsplit(" ops=", 1)[0], strip_stop(f[3])):
                    r.model_disagreement("unhooked " + key, "unhooked: " + f[2] + " | " + f[3], "hooked: " + h[0] + " | " + h[1])
            if n_unhooked < 20000:
                r.broken.append("unhooked stream degenerate: %d cases" % n_unhooked)
    r.extra["wall_split_s"] = {"proof+builds": round(t1 - t0, 1), "harness+model streams (parallel)": round(t2 - t1, 1), "evaluation of the observations": round(time.time() - t2, 1)}
    r.extra["cases_rerun_on_unhooked_build"] = n_unhooked
    r.extra["unhooked_user_writer_cases"] = n_unhooked_user
    r.extra["note_hooked_vs_unhooked"] = ("Output::target() differs between the builds (hooked: logging tap that splits write_fmt into "
        "write_str/write_char; unhooked: the concrete target), so overrides of write_fmt/write_char on WriteWrapper/String/NullWriter "
        "are reachable only unhooked: all user-writer programs (APIs ufmt/ublock: a user formatter writing through every fmt::Write "
        "method, Object::render through every Formatter method) run on the unhooked build too")
    if exe2 is not None and n_unhooked_user < 5000:
        r.broken.append("unhooked user-writer stream degenerate: %d cases" % n_unhooked_user)
    r.extra["programs_x_apis"] = n_prog
    r.extra["emits_compared"] = n_emit
    r.extra["emits_whose_pieces_the_model_determines"] = n_emit_det
    if model is not None and n_emit_det < 3000:
        r.broken.append("emit stream degenerate: only %d emits determined by the model" % n_emit_det)
    r.extra["real_write_ops_routed_by_model"] = n_routed
    r.extra["runs_whose_op_log_is_prefix_of_clean_log"] = n_prefix
    r.extra["cases_with_sink_failure"] = n_fail_cases
    r.extra["cases_without_sink_failure"] = n_ok_cases
    if n_skip > max(3, n_prog // 20):
        r.broken.append(f"{n_skip} generated programs did not compile — generator out of date with the template syntax")
    # non-vacuity of the tie
    sf = r.hist["structured_flatten"]
    sc = r.hist["structured_constructs"]
    if model is not None and (sf["same"] < 100 or n_routed < 5000 or min(sc[n] for n in ("own-output (macro, caller)", "set block", "filter block / captured super", "include", "super", "discarded child output", "loop", "runtime error")) < 20):
        r.broken.append("structured/op-log tie degenerate: flatten verdicts %s, constructs %s, routed writes %d" % (dict(sf), dict(sc), n_routed))
    if n_fail_cases < 1000 or n_ok_cases < 1000 or not {"full", "fmt", "ufmt", "cfmt", "block", "ublock", "cblock", "fn"} <= apis_with_failures:
        r.broken.append("fault injection degenerate: %d failing / %d clean cases, apis %s" % (n_fail_cases, n_ok_cases, sorted(apis_with_failures)))
    # every representation of a value (regenerated: the variants of `enum ValueRepr`) must have been
    # printed into a failing sink
    want = set()
    for v in (tables["items"].get("C19_VALUE_REPRS") or []):
        want |= {"String", "SafeString"} if v == "String" else {v}
    # an invalid value never reaches an `Emit` (looking it up reports its error: f57/f58 end that way);
    # it is printed nested in sequences and maps (programs f57, f58: `all_kinds`, `inv_seq`)
    want.discard("Invalid")
    r.extra["value_reprs_emitted"] = sorted(reprs_emitted - {"-"})
    if model is not None and want - reprs_emitted:
        r.broken.append("fault injection degenerate: no program prints a value of representation %s into the failing writer" % sorted(want - reprs_emitted))
    # every instruction whose arm of the evaluation loop touches the output (regenerated) must occur in
    # the programs rendered into the failing writer
    want_ins = set(tables["items"].get("C19_OUT_INSTRUCTIONS") or [])
    r.extra["output_instructions_in_programs"] = sorted(want_ins & opcodes_seen)
    if want_ins - opcodes_seen:
        r.broken.append("fault injection degenerate: no program contains the instruction(s) %s, whose arm of the evaluation loop uses the output" % sorted(want_ins - opcodes_seen))
    # every construction of the sink's io::Error must have met every API (hooked), and the unhooked build
    r.extra["error_forms_by_api"] = {a: sorted(v) for a, v in sorted(forms_by_api.items())}
    for a in ("full", "fmt", "ufmt", "cfmt", "block", "ublock", "cblock", "fn"):
        missing = set(FORMS + ["writezero"]) - forms_by_api.get(a, set())
        if missing:
            r.broken.append("fault injection degenerate: API %s never met a sink error built as %s" % (a, sorted(missing)))
    if exe2 is not None and out2_lines is not None:
        for a in ("full", "fmt", "ufmt", "cfmt", "block", "ublock", "cblock", "fn"):
            missing = set(FORMS + ["writezero"]) - forms_unhooked_api.get(a, set())
            if missing:
                r.broken.append("unhooked stream degenerate: API %s never met a sink error built as %s" % (a, sorted(missing)))


def replay(r, path):
    d = json.load(open(path))
    exe = r.cargo_build("c19")
    for case in [d.get("case")] + d.get("more_cases", []):
        if not case:
            continue
        rc, out, err = r.harness(exe, ["one"] + case.split(" "))
        print(out.strip())
        model = r.driver("drive_c19", "\n".join(l for l in out.splitlines() if not l.startswith("#")) + "\n")
        print("model:", model[-1] if model else None)
    return 0
