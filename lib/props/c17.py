"""C17 — the file-system loader never reads outside its base directory (DESIGN.md §3 C17)."""
import json, os, re

READY = True

META = {
    "technique": "Lean 4 proof (model of loader::safe_join incl. PathBuf::push's replace-on-absolute branch, Path::components, lexical normalisation, abstract directory tree) + exhaustive correspondence of the real safe_join with the model over the quantifier's segment alphabet + canary oracle on the real path_loader over a scratch tree",
    "category": "proof",
    "text": "Kernel-checked theorems: whenever the model of safe_join answers a path, that path has the base as literal prefix, its components are the base's components followed by the name's non-empty segments, none of which is '.', '..', hidden or contains '/' or '\\\\'; hence lexical normalisation keeps the base as prefix and, on every directory tree without symlinks, the path resolves to the base directory or beneath it; any '.', '..', hidden or backslash segment yields None; the absolute-argument branch of PathBuf::push is unreachable. The model is tied to /repo by comparing it with the feature-guarded hook verif_hooks::safe_join (= loader::safe_join) byte for byte on every name over the segment alphabet (<=4 segments quick, <=5 thorough) for 13 spellings of the base, plus random noise; the hook is tied to path_loader by checking that whatever the real loader returns (Environment::get_template, include, import, from-import, extends, include-list, include under the documented join callback, names computed in the template) is the file safe_join designates; the oracle checks that every returned content carries the marker of a file whose canonical path is beneath the canonical base and never a canary.",
    "design_ref": "DESIGN.md §3 C17",
    "level_note": "Trusted: Lean kernel; hand transcription of loader::safe_join and of std's Unix PathBuf::push / Path::components into MJ/Model/Path.lean (validated byte-for-byte against the real functions, the std ones also outside the region safe_join reaches); the step from 'components are plain names' to 'the OS resolves beneath the base' is proved on an abstract tree without symlinks (the property excludes symlinks) and validated on a real tree; path_loader's io-error mapping, the template cache and State::get_template/join_template_path are validated by the oracle streams only (the Lean statement get_template_passes_name is about a three-line model). Unix only: on Windows other separators/prefixes exist.",
}

PARENT_NAME = "a/a/drv"      # name of the including template in the join-callback stream
FORMS = ["get", "include", "import", "from", "extends", "inclist", "joincb"]

_esc = re.compile(rb"%([0-9a-f]{2})")
_tesc = re.compile(r"~([0-9a-f]{2})")


def unpct(s):
    b = s.encode("ascii")
    if b"%" in b:
        b = _esc.sub(lambda m: bytes([int(m.group(1), 16)]), b)
    return b.decode("utf-8", "surrogateescape")


def untilde(s):
    if "~" not in s:
        return s
    return bytes(_tesc.sub(lambda m: chr(int(m.group(1), 16)), s), "latin-1").decode("utf-8", "surrogateescape")


# ---------------------------------------------------------------- independent Python witnesses
def py_safe_join(base, name):
    rv = base
    for seg in name.split("/"):
        if seg.startswith(".") or "\\" in seg:
            return None
        if seg.startswith("/"):
            rv = seg
        elif rv and not rv.endswith("/"):
            rv = rv + "/" + seg
        else:
            rv = rv + seg
    return rv


def lex(path):
    """lexical normalisation: (is_absolute, component stack)"""
    ab = path.startswith("/")
    st = []
    for c in path.split("/"):
        if c in ("", "."):
            continue
        if c == "..":
            if st and st[-1] != "..":
                st.pop()
            elif not st and ab:
                pass
            else:
                st.append("..")
        else:
            st.append(c)
    return ab, st


def lex_str(ab, st):
    return ("/" if ab else "") + "/".join(st) if (st or ab) else "."


def normpath_agrees(path):
    """os.path.normpath as a second opinion on `lex` (POSIX keeps exactly two leading slashes)"""
    q = path
    if "\0" in q:
        return True     # some CPython versions truncate at NUL here
    if q.startswith("//") and not q.startswith("///"):
        q = q[1:]
    return os.path.normpath(q) == lex_str(*lex(path))


def py_join_cb(name, parent):
    rv = parent.split("/")
    rv.pop()
    for seg in name.split("/"):
        if seg == ".":
            pass
        elif seg == "..":
            if rv:
                rv.pop()
        else:
            rv.append(seg)
    return "/".join(rv)


def fs_expect(p, cwd):
    """canonical path of the regular file `p` designates, or None"""
    if p is None:
        return None
    q = p if p.startswith("/") else os.path.join(cwd, p)
    try:
        if os.path.isfile(q):
            return os.path.realpath(q)
    except (ValueError, OSError):
        pass
    return None


class Ctx:
    def __init__(self):
        self.tree = None
        self.bases = {}
        self.notes = 0


def nontrivial_name(name):
    return ("/" in name) or ("." in name) or ("\\" in name)


def check_lines(r, ctx, lines, model):
    """lines: harness output lines; model: driver output for the non-ld, non-header lines (in order)"""
    mi = 0
    last_sj = None     # (base, name, hook result fields, model fields)
    for line in lines:
        if line.startswith("#"):
            f = line.split(" ")
            if f[0] == "#tree":
                ctx.tree = unpct(f[1])
            elif f[0] == "#base":
                ctx.bases[f[1]] = unpct(f[2])
            continue
        case, impl = line.split("\t", 1)
        f = case.split(" ")
        stream = f[0]
        r.hist["stream"][stream] += 1
        if stream in ("sj", "push", "comps"):
            m = model[mi] if model is not None and mi < len(model) else None
            mi += 1
        if stream == "sj":
            base, name = unpct(f[1]), unpct(f[2])
            r.count(case, nontrivial_name(name))
            r.hist["segments"][min(name.count("/") + 1, 9)] += 1
            r.hist["base"][repr(base) if not (ctx.tree and ctx.tree in base) else repr(base.replace(ctx.tree, "<tree>"))] += 1
            r.hist["safe_join"][impl.split(" ")[0]] += 1
            mf = m.split(" ") if m is not None else None
            if m is not None:
                m_cmp = m if m == "none" else " ".join(mf[:4])
                if impl != m_cmp:
                    r.model_disagreement(case, impl, m_cmp)
            # third witness (Python transcription) — keeps the Lean transcription honest
            pj = py_safe_join(base, name)
            if mf is not None and (None if mf[0] == "none" else unpct(mf[1])) != pj:
                r.broken.append(f"Lean safeJoin and the Python transcription disagree on {case}: {m} vs {pj!r}")
            # oracle on the hook's result: lexically beneath the base
            if impl.startswith("panic"):
                r.oracle_failure(case, "safe_join panicked: " + impl, "safe_join:panic")
                hook_p = None
            elif impl == "none":
                hook_p = None
            else:
                hook_p = unpct(impl.split(" ")[1])
                ab, st = lex(hook_p)
                bab, bst = lex(base)
                if ab != bab or st[:len(bst)] != bst or not hook_p.startswith(base):
                    r.oracle_failure(case, f"safe_join returned {hook_p!r}, lexically {lex_str(ab, st)!r}, not beneath base {lex_str(bab, bst)!r}",
                                     "safe_join:lexical-escape")
                if not normpath_agrees(hook_p):
                    r.broken.append(f"python lex() and os.path.normpath disagree on {hook_p!r}")
                if mf is not None and mf[0] == "some":
                    mn = [unpct(x) for x in mf[4].split(",")] if len(mf) > 4 and mf[4] else []
                    if mn != lex(unpct(mf[1]))[1]:
                        r.broken.append(f"Lean normalize disagrees with the Python witness on {mf[1]}: {mn}")
            last_sj = (base, name, hook_p, None if (mf is None or mf[0] == "none") else unpct(mf[1]), mf is not None)
            if r.evaluations % 60000 == 1:
                r.sample({"case": case, "safe_join": impl, "model": m})
        elif stream in ("push", "comps"):
            r.count(case, True)
            want = m if stream == "push" or m is None else " ".join(m.split(" ")[:2])
            if m is not None and impl != want:
                r.model_disagreement(case, impl, want)
            if stream == "comps" and m is not None:
                p = unpct(f[1])
                mn = [unpct(x) for x in m.split(" ")[2].split(",")] if m.split(" ")[2] else []
                if mn != lex(p)[1]:
                    r.broken.append(f"Lean normalize disagrees with the Python witness on {f[1]}: {mn}")
                if not normpath_agrees(p):
                    r.broken.append(f"python lex() and os.path.normpath disagree on {p!r}")
        elif stream == "ld":
            variant, name = f[1], unpct(f[2])
            base = ctx.bases[variant]
            base_abs = ctx.bases["abs"]
            cwd = os.path.dirname(base_abs)
            base_canon = os.path.realpath(base_abs)
            r.count(case, nontrivial_name(name))
            r.hist["variant"][variant] += 1
            if last_sj is None or last_sj[0] != base or last_sj[1] != name:
                r.broken.append(f"harness stream out of step at {case}")
                continue
            _, _, hook_p, model_p, have_model = last_sj
            parts = impl.split(";")
            via = parts[0][2:]
            via = None if via == "-" else untilde(via)
            expect = fs_expect(model_p, cwd) if have_model else None
            expect_cb = fs_expect(py_safe_join(base, py_join_cb(name, PARENT_NAME)), cwd)
            for part in parts[1:]:
                form, res = part.split("=", 1)
                cls = res.split(":")[0]
                r.hist["loader:" + form][("found" if cls == "f" else res) if cls != "panic" else "panic"] += 1
                found = None
                if cls == "panic":
                    r.oracle_failure(case, f"{form}: panic {unpct(res[6:])!r}", f"{form}:panic")
                    continue
                if cls == "f":
                    marks = res[2:].split("+")
                    for mk in marks:
                        kp = mk.split(":", 1)
                        kind, mpath = (kp[0], untilde(kp[1])) if len(kp) == 2 else ("?", mk)
                        if kind == "C":
                            r.oracle_failure(case, f"{form}: loader returned the canary {mpath!r} (base {base_canon!r})", f"{form}:canary")
                        elif kind != "B" or not mpath.startswith(base_canon + "/"):
                            r.oracle_failure(case, f"{form}: loader returned content that is not a file beneath the base: {mk!r}", f"{form}:outside-base")
                    found = untilde(marks[0].split(":", 1)[1]) if len(marks) == 1 and ":" in marks[0] else "?"
                elif cls not in ("nf", "e"):
                    r.broken.append(f"unexpected harness result {res!r} on {case}")
                # correspondence: what the loader returned is what (model of safe_join + the disk) designates
                want = expect_cb if form == "joincb" else expect
                if (have_model or form == "joincb") and found != want:
                    r.model_disagreement(case + " [" + form + "]", f"loader returned {found!r}", f"model + disk designate {want!r}")
                if form != "joincb" and found is not None and found != via:
                    r.model_disagreement(case + " [" + form + "]", f"loader returned {found!r}", f"hook safe_join designates {via!r}")
            if expect is not None and len(r.samples) < 10:
                r.sample({"case": case, "loader": impl[:300]})
        else:
            r.broken.append(f"unknown harness line {line[:80]!r}")
    if model is not None and mi != len(model):
        r.broken.append("model driver output does not line up with the harness cases")


def run(r):
    r.rule = ("template names = all '/'-joins of 1..4 (quick; + 20000 sampled 5-joins) or 1..5 (thorough) segments over the alphabet "
              "{'', '.', '..', '...', 'a', '.a', 'a.', 'a..b', 'a\\\\b', '..\\\\a', NUL, '%2e%2e', U+2024 x2, U+FF0E x2, 'a' x 256, 'only_outside.txt' (a plain name that exists in every ancestor of the base, never beneath it)} "
              "+ targeted spellings of canary paths (absolute, climbing, encoded, look-alike separators) + every canary file's base name and its "
              "name relative to each directory above it (plain, rooted, trailing/doubled slashes, below a/ and a/a/; incl. names that exist "
              "only outside the base) + random char/byte noise; "
              "each name against the scratch tree's base (absolute spelling) and one of 12 other bases (4 more spellings of the "
              "scratch base, 8 disk-free bases) in rotation; a name is non-trivial when it contains '/', '.' or '\\\\'")
    r.assumptions = ["Unix path semantics (separator '/', no prefixes); symbolic links inside the base are out of scope per the statement",
                     "names longer than 5 segments behave as the model predicts (proved for the model for every name and base)"]
    r.regen_tables()
    r.lean_prove("MJ.Props.C17", "MJ/Audit/C17.lean", extra_targets=["drive_c17"])
    exe = r.cargo_build("c17")
    if exe is None:
        return
    os.makedirs(os.path.join(os.path.dirname(os.path.dirname(os.path.dirname(os.path.abspath(__file__)))), ".build", "c17"), exist_ok=True)
    n = 1 if r.tier == "quick" else 16
    ctx = Ctx()
    for k in range(n):
        rc, out, err = r.harness(exe, ["gen", r.tier, str(k), str(n)])
        if rc != 0:
            r.broken.append(f"harness c17 exited {rc}: {err[-300:]}")
            return
        lines = out.split("\n")
        if lines and lines[-1] == "":
            lines.pop()
        del out
        minp = "\n".join(l for l in lines if not l.startswith("#") and not l.startswith("ld ")) + "\n"
        model = r.driver("drive_c17", minp)
        del minp
        if model is not None and any(m == "bad-case" for m in model):
            r.broken.append("model driver could not parse some case lines")
        check_lines(r, ctx, lines, model)
        if n > 1:
            r.log(f"chunk {k + 1}/{n}: evaluations {r.evaluations}")
    r.exhaustive = (r.tier == "thorough")
    r.extra["scratch_tree"] = ctx.tree
    found = sum(v for k, v in r.hist["loader:get"].items() if k == "found")
    if found == 0 or r.hist["safe_join"]["some"] == 0 or r.hist["safe_join"]["none"] == 0:
        r.broken.append("vacuous run: the loader never returned a file, or safe_join never accepted / never rejected a name")


def replay(r, path):
    d = json.load(open(path))
    exe = r.cargo_build("c17")
    for case in [d.get("case")] + d.get("more_cases", []):
        if not case:
            continue
        case = case.split(" [")[0]
        rc, out, err = r.harness(exe, ["one"] + case.split(" "))
        print("engine:", out.strip())
        f = case.split(" ")
        if f[0] == "ld":
            # the loader streams are judged against safe_join's model for the same base and name
            rc, out2, err = r.harness(exe, ["bases"])
            bases = {l.split(" ")[1]: l.split(" ")[2] for l in out2.splitlines() if l.startswith("#base")}
            mcase = f"sj {bases.get(f[1], '')} {f[2]}"
            model = r.driver("drive_c17", mcase + "\n")
            print("model:", mcase, "->", model[0] if model else None)
        else:
            model = r.driver("drive_c17", case + "\n")
            print("model:", model[0] if model else None)
            if f[0] == "sj":
                print("python:", repr(py_safe_join(unpct(f[1]), unpct(f[2]))))
    return 0
