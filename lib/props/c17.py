"""C17 — the file-system loader never reads outside its base directory (DESIGN.md §3 C17)."""
import json, os, re

READY = True

META = {
    "technique": "Lean 4 proof (model of loader::safe_join built from the segment rules extracted from the source; PathBuf::push and Path::components with the PLATFORM as a parameter — separator set, main separator, drive prefixes: Unix and Windows instances, push's replace-on-absolute/prefix, keep-only-the-prefix-on-rooted and bare-drive branches; lexical normalisation; abstract directory tree; path_loader as a function of (configured base, file system at load time); candidate-list loaders; the name-keyed template store over arbitrary file-system histories) + exhaustive correspondence of the real safe_join with the Unix instance over the quantifier's segment alphabet + the Windows instance against CPython's ntpath + canary oracle on the real path_loader over a scratch tree through 13 entry points, Environment::templates, AutoReloader, a loader-lifecycle axis (incl. the kind of the base: directory, regular file, symlink, missing) + a syscall-level oracle (strace) over every entry point; session 4: the ENGINE'S ROUTES in the model (MJ/Model/PathRoutes.lean: Environment::get_template, State::get_template + join_template_path with an ARBITRARY path-join callback, include / import / from-import / extends, lists of include choices, over the name-keyed store) with every_loader_call_passes_through_safe_join, the routes tied row by row to regenerated call tables with ARGUMENT TEXT (C17_NAME_FLOW, C17_STMT_ROUTES, C17_WATCH_ARGS), the property's own statement C17_full over histories of link-free WORLDS (directory tree, cwd, file contents) proved for the model (C17_model) and C17_main with the two gaps as named hypotheses; a routes correspondence stream (recorder around the real path_loader vs Engine.loaderCalls) and an escapes-at-every-depth name axis (2..41 segments)",
    "category": "proof",
    "text": "Kernel-checked theorems: (1) what is pushed is what was checked (checked_segments_are_pushed_components): on every platform whose separators are the split character or rejected by the extracted filter rules — proved for the Unix and the Windows separator sets — whenever safe_join answers a path, the filter looked at every piece of name.split('/'), the arguments of PathBuf::push are exactly those pieces, and the components of the result (the result split on EVERY separator of the platform) are the base's components followed by the non-empty pieces, one plain name each; drive prefix, root and literal text of the base are kept. Unix: no hypothesis left (unix_checked_are_pushed, safe_join_confined_unix; the Unix instance is the model compared with the real code, unix_instance_is_checked_model). Windows: holds for names without a drive-prefixed segment (safe_join_confined_windows_partial); a segment `X:…` passes the filter and push replaces the base (windows_drive_segment_replaces_base, C17_windows_counterexample — recorded as a known finding, Windows only). (2) Unix detail as before: the path has the base as literal prefix, components = base's ++ name's non-empty segments, none of which is '.', '..', hidden or contains '/' or '\\'; lexical normalisation keeps the base as prefix; on every directory tree without symlinks the path resolves to the base directory or beneath it; any '.', '..', hidden or backslash segment yields None; push's absolute-argument branch is unreachable. (3) The loader keeps the configured base verbatim (loader_base_is_configured); every path it hands to the file system and every content it returns is confined to the configured base in the file system of the load (loader_reads_confined, loader_found_confined); any loader that tries candidate NAMES through safe_join (suffix/index/alias fallbacks done right) stays confined (candidate_loader_found_confined, candidate_loader_reads_confined; path_loader is the single-candidate instance); with the name-keyed store in front, for EVERY history of file systems every answer and everything Environment::templates lists is what some snapshot held at safe_join(configured base, name) (loader_history_confined, …_after_clear). Ties: the segment rules are regenerated from loader.rs; safe_join's loop SHAPE is regenerated and checked (one split on the extracted separator, one filter whose atoms all look at the loop variable, one push of that same variable, nothing else: safe_join_loop_shape); path_loader's base binding, its fs:: calls, every file-system-vocabulary call and the mentions of path/base/name are regenerated (loader_model_matches_source); every function of minijinja, minijinja-contrib and minijinja-autoreload that mentions the file system or builds a path is regenerated and must be one of the modelled ones (path_producers_as_modelled); the engine's template-fetching call sites are regenerated (entry_sites_covered). Correspondence: real safe_join vs model byte for byte on every name over the segment alphabet for 13 spellings of the base plus targeted, disguised, shaped and noise names; real path_loader vs (model, disk answer at the joined path, store) through get_template, include, import, from-import, extends, include lists (name first / name after a missing choice), ignore-missing include, the documented join callback, State::get_template from a host function and from a host filter, includes in macros and in loader-backed templates, Environment::templates and AutoReloader, on a static tree and on 12 lifecycle scenarios x 10 spellings of the base; Lean Windows model vs CPython ntpath.join. Oracles: every returned content carries the marker of a file whose canonical path is beneath the canonical configured base (never a canary; nothing at all while the configured base is not a directory); under strace, between the sentinel probes bracketing a request — through EVERY one of the 13 routes in rotation plus the bare loader closure — the only path handed to the kernel is the one safe_join designates (opened once; twice for a twice-listed missing name) and nothing outside the base is opened. Names: the alphabet product; every canary by absolute, relative, rooted, climbing spelling; DISGUISED escaping spellings (each escaping kernel whose target canary exists x pads/NUL/zero-width/format characters before, after, inside the dot-dot; percent-, double-percent-, entity- and look-alike-encoded dots and separators incl. NFKC-equivalents; tokens a clean-up may cut off: drive, scheme, tilde; prefixes and suffixes) so that a check/use mismatch of any such family yields a canary; SHAPED spellings (long by repeated separators / by a/../ round trips, 6…260 leading empty segments, 10 segments deep, beyond NAME_MAX and PATH_MAX); Windows device names, drive, UNC, verbatim and device-namespace prefixes, alternate data streams as data; decorated namesakes of every canary. SESSION 4: (4) routes: the model Engine (store + loader + optional callback) serves Req.one entry name parent over the six entries and Req.choices (include lists: a missing choice is skipped, another failure ends the statement); every_loader_call_passes_through_safe_join: for EVERY engine state, callback (any function of the two names), request and file system, every path handed to the file system is safe_join(configured base, n) for a name n that request asked the store for, and is Confined; engine_history_confined: over any history of (file system, request) every source answered is what some snapshot held at such a path. (5) C17_full reads like the property: for every base, callback and history of (World, request) — a World is a directory tree without links, root, cwd and file contents; fs::read_to_string is path resolution by walking components — every source the engine answers is the content of a file IN OR BENEATH the directory the configured base designated in one of the worlds; proved for the model (C17_model). C17_main: for ANY implementation (black box: state, init, serve) that AnswersAsModel (gap 1: tied by the regenerated tables, validated by the streams) on histories where the OsWalksTree (gap 2: validated by canary and syscall oracles) the same holds; both hypotheses shown non-vacuous (the model satisfies gap 1, an implementation serving the unfiltered name does not). Ties added: name_flow_as_modelled (every call by which a name travels towards the loader — get_template, join_template_path, templates.get, the loader closure, the callback — with receiver, ARGUMENT TEXT and the binding of a variable argument is a row of a modelled route; each route ends in templates.get(name); a route has a join call exactly when Entry.joins; Include/Import/FromImport compile to Include -> perform_include, Extends to LoadBlocks -> load_blocks, called nowhere else), path_producers_classified (role and reason for every path-touching function of minijinja, -contrib, -autoreload: safe_join builds, path_loader is the ONLY reader, watch_path/unwatch_path hand the HOST's path to the notifier and nowhere else: C17_WATCH_ARGS). store_get_as_modelled (LoaderStore::get: looked up, memoised and handed to the loader closure under the SAME name; what the loader returned, nothing else, is compiled and stored: C17_STORE_GET). Streams added: rt — a FRESH environment per request whose loader is the real path_loader wrapped in a recorder, all 13 forms: the sequence of names the loader closure is called with and the answer class vs Engine.loaderCalls / Engine.serve of the Lean driver (incl. the documented callback docJoin in Lean), oracle: returned content is a file beneath the base (a further name asked of the loader is a correspondence disagreement, not a failing input); deep — names of 2..41 segments with the escaping piece at EVERY position (empties around one `..`; up to four real directories matched by extra `..`; an absolute canary path behind 0..41 pieces) through every form, the strace oracle and the routes stream, so a filter that looks at a window of the pieces only (first K, last K, all but K) yields a canary whatever K is.",
    "design_ref": "DESIGN.md §3 C17",
    "level_note": "MOVED FROM VALIDATED TO PROVED in session 4 (the session-3 worker was interrupted, nothing of it survived): State::get_template / join_template_path / the path-join callback / perform_include over choices / load_blocks / Environment::get_template were a three-line abstraction (joinTemplatePath) validated by the oracle streams; they are now the Engine model with theorems for every request, callback and history (every_loader_call_passes_through_safe_join, engine_history_confined) and a row-by-row regenerated tie INCLUDING ARGUMENTS (name_flow_as_modelled; before: entry_sites_covered listed call sites only), executed against the real engine by the rt stream. The step from Confined (components) to the property's words (content of a file beneath the base directory) is now a theorem over worlds (world_read_confined, C17_model : C17_full) instead of prose; what remains unproved about the CODE is stated as the two hypotheses of C17_main (AnswersAsModel, OsWalksTree). watch_path/unwatch_path: classified with a reason and tied (path_producers_classified, C17_WATCH_ARGS). STILL ONLY VALIDATED / TRUSTED: Lean kernel; hand transcription of std's PathBuf::_push / Path::components / parse_drive into MJ/Model/Path.lean (Unix, validated byte-for-byte against the real functions, also outside the region safe_join reaches) and MJ/Model/PathPlat.lean (platform-generic; its Unix instance is PROVED equal to the validated one, its Windows instance is validated against CPython's ntpath.join on the region where the two libraries define the same function — not against a Windows build of std, which cannot run here; the verbatim-prefix branch of push is not modelled, a Windows base is assumed not to be verbatim); the loop of safe_join is a transcription whose rules AND shape are extracted; the step from 'components are plain names' to 'the OS resolves beneath the base' is proved on an abstract tree without symlinks (the property excludes symlinks) and validated on a real tree and at syscall level; Loader.load / Env.get are three-line transcriptions of path_loader's closure and LoaderStore::get, tied by the extracted shape table and validated on every stream; Engine.fetch / includeList / storeName are transcriptions of State::get_template, perform_include, load_blocks and join_template_path (AnswersAsModel is a HYPOTHESIS of C17_main, not a theorem about Rust: tied by name_flow_as_modelled + entry_sites_covered, validated by rt/ld/lc/tr); what rendering a fetched template does afterwards (its own includes) is a further request of the history, not modelled as recursion; Environment::add_template / template_from_str sources never reach the loader and are outside the model. The real code is exercised on Linux only. minijinja-cli has its own loader (no safe_join, reads arbitrary paths by design) and minijinja-embed reads the disk at build time only: both are outside this property.",
}

PARENT_NAME = "a/a/drv"      # name of the including template in the join-callback stream
FORMS = ["get", "include", "import", "from", "extends", "inclist", "joincb", "fn", "macro", "nested", "incim", "inclist2", "filter"]
LC_FORMS = FORMS + ["ar", "arr"]

_esc = re.compile(rb"%([0-9a-f]{2})")
_tesc = re.compile(r"~([0-9a-f]{2})")


def unpct(s):
    b = s.encode("ascii")
    if b"%" in b:
        b = _esc.sub(lambda m: bytes([int(m.group(1), 16)]), b)
    return b.decode("utf-8", "surrogateescape")


def untilde(s):
    if "~" not in s:
        return s
    return bytes(_tesc.sub(lambda m: chr(int(m.group(1), 16)), s), "latin-1").decode("utf-8", "surrogateescape")


# ---------------------------------------------------------------- independent Python witnesses
def py_safe_join(base, name):
    rv = base
    for seg in name.split("/"):
        if seg.startswith(".") or "\\" in seg:
            return None
        if seg.startswith("/"):
            rv = seg
        elif rv and not rv.endswith("/"):
            rv = rv + "/" + seg
        else:
            rv = rv + seg
    return rv


def lex(path):
    """lexical normalisation: (is_absolute, component stack)"""
    ab = path.startswith("/")
    st = []
    for c in path.split("/"):
        if c in ("", "."):
            continue
        if c == "..":
            if st and st[-1] != "..":
                st.pop()
            elif not st and ab:
                pass
            else:
                st.append("..")
        else:
            st.append(c)
    return ab, st


def lex_str(ab, st):
    return ("/" if ab else "") + "/".join(st) if (st or ab) else "."


def normpath_agrees(path):
    """os.path.normpath as a second opinion on `lex` (POSIX keeps exactly two leading slashes)"""
    q = path
    if "\0" in q:
        return True     # some CPython versions truncate at NUL here
    if q.startswith("//") and not q.startswith("///"):
        q = q[1:]
    return os.path.normpath(q) == lex_str(*lex(path))


# ---- the Windows witness: CPython's ntpath, an independent implementation of Windows path joining
def nt_alpha_drive(s):
    return len(s) >= 2 and s[1] == ":" and s[0].isascii() and s[0].isalpha()


def nt_comparable(p, seg):
    """the region on which std's Windows `PathBuf::push` and CPython's `ntpath.join` are the same
    function: no UNC/device/verbatim prefix on either side, `X:` only with an ASCII letter (CPython
    takes any character for a drive), not the same drive in front of both (CPython then joins, std
    replaces)"""
    for t in (p, seg):
        if len(t) >= 2 and t[0] in "\\/" and t[1] in "\\/":
            return False
        if len(t) >= 2 and t[1] == ":" and not nt_alpha_drive(t):
            return False
    if nt_alpha_drive(p) and nt_alpha_drive(seg) and p[0].lower() == seg[0].lower():
        return False
    return True


def nt_safe_join(base, name):
    """(result | None, comparable): the loop of safe_join with ntpath.join as push"""
    import ntpath
    rv, ok = base, True
    for seg in name.split("/"):
        if seg.startswith(".") or "\\" in seg:
            return None, ok
        ok = ok and nt_comparable(rv, seg)
        rv = ntpath.join(rv, seg)
    return rv, ok


def nt_comps(p):
    body = p[2:] if nt_alpha_drive(p) else p
    return [c for c in re.split(r"[\\/]", body) if c not in ("", ".")]


WIN_BASES = ["templates", "C:\\srv\\t", "C:\\srv\\t\\", "C:", "C:t", "c:/srv/t", "", ".", "..\\t", "\\srv\\t", "t\\", "D:\\"]


def check_windows_model(r, names):
    """the WINDOWS instance of the platform-generic Lean model (`safeJoinTr windows`) against the
    ntpath witness, and the confinement oracle on what both say.  No Windows build of the real code
    exists on this machine: this stream ties the Lean model of std's Windows `push` to an independent
    implementation and evaluates the property on it."""
    cases = [(WIN_BASES[i % len(WIN_BASES)], n) for i, n in enumerate(names)]
    # both drive forms for names that start with one
    cases += [(b, n) for b in ("templates", "C:\\srv\\t") for n in names if nt_alpha_drive(n)][:4000]
    lines = [f"wsj {pct_py(b)} {pct_py(n)}" for b, n in cases]
    model = r.driver("drive_c17", "\n".join(lines) + "\n")
    if model is None or len(model) != len(lines) or any(m == "bad-case" for m in model):
        r.broken.append("model driver did not answer the Windows-model cases")
        return
    for (b, n), case, m in zip(cases, lines, model):
        want, ok = nt_safe_join(b, n)
        r.hist["stream"]["wsj"] += 1
        if not ok:
            r.hist["windows-model"]["outside the region where ntpath and std agree"] += 1
            continue
        r.count(case, nontrivial_name(n))
        mf = m.split(" ")
        got = None if m == "none" else unpct(mf[1])
        if got != want:
            r.model_disagreement(case, f"ntpath witness: {want!r}", f"Lean windows model: {got!r}")
            continue
        if got is None:
            r.hist["windows-model"]["none"] += 1
            continue
        mc = [unpct(x) for x in mf[3].split(",")] if mf[3] else []
        if mc != nt_comps(got):
            r.model_disagreement(case, f"ntpath witness components: {nt_comps(got)}", f"Lean windows model: {mc}")
        # the property on the Windows model: same drive, the base's components first, no `..` after them
        bc = nt_comps(b)
        same_drive = (got[:2].lower() if nt_alpha_drive(got) else "") == (b[:2].lower() if nt_alpha_drive(b) else "")
        confined = same_drive and mc[:len(bc)] == bc and ".." not in mc[len(bc):] and got.startswith(b)
        if confined:
            r.hist["windows-model"]["confined"] += 1
        elif any(nt_alpha_drive(seg) for seg in n.split("/")):
            r.hist["windows-model"]["drive segment replaces the base"] += 1
            r.oracle_failure(case, f"on Windows (Lean model of std's push and the ntpath witness agree) safe_join({b!r}, {n!r}) = {got!r}: "
                             "a segment with a drive prefix replaces the base", "windows-model:drive-prefix-replaces-base")
        else:
            r.oracle_failure(case, f"on Windows (Lean model and ntpath witness agree) safe_join({b!r}, {n!r}) = {got!r} is not confined to the base",
                             "windows-model:escape")


def pct_py(s):
    return "".join(chr(b) if 0x21 <= b <= 0x7e and b not in (0x25, 0x2c) else "%%%02x" % b
                   for b in s.encode("utf-8", "surrogateescape"))


def py_join_cb(name, parent):
    rv = parent.split("/")
    rv.pop()
    for seg in name.split("/"):
        if seg == ".":
            pass
        elif seg == "..":
            if rv:
                rv.pop()
        else:
            rv.append(seg)
    return "/".join(rv)


def fs_expect(p, cwd):
    """canonical path of the regular file `p` designates, or None"""
    if p is None:
        return None
    q = p if p.startswith("/") else os.path.join(cwd, p)
    try:
        if os.path.isfile(q):
            return os.path.realpath(q)
    except (ValueError, OSError):
        pass
    return None


class Ctx:
    def __init__(self):
        self.tree = None
        self.bases = {}
        self.notes = 0
        self.lcbase = {}        # (scenario, spelling) -> configured base string
        self.lc = {}            # (scenario, spelling) -> list of records in order
        self.lct = {}           # (scenario, spelling, phase) -> {name: result}
        self.lcclear = set()    # (scenario, spelling, phase): clear_templates happened before that phase
        self.got = {}           # (variant, name) -> result of the `get` form in the ld stream
        self.tl = {}            # variant -> {name: result} as listed by Environment::templates
        self.wnames = []        # names for the Windows-model stream
        self.rt = []            # (case, impl) of the routes stream


def broken(r, key, msg, cap=3):
    """record a broken-tie message, at most `cap` per kind (the count goes to the histogram)"""
    r.hist["broken-tie"][key] += 1
    if r.hist["broken-tie"][key] <= cap:
        r.broken.append(msg)


def nontrivial_name(name):
    return ("/" in name) or ("." in name) or ("\\" in name)


def check_lines(r, ctx, lines, model):
    """lines: harness output lines; model: driver output for the non-ld, non-header lines (in order)"""
    mi = 0
    last_sj = None     # (base, name, hook result fields, model fields)
    for line in lines:
        if line.startswith("#"):
            f = line.split(" ")
            if f[0] == "#tree":
                ctx.tree = unpct(f[1])
            elif f[0] == "#base":
                ctx.bases[f[1]] = unpct(f[2])
            elif f[0] == "#lcbase":
                ctx.lcbase[(f[1], f[2])] = f[3]
            continue
        case, impl = line.split("\t", 1)
        f = case.split(" ")
        stream = f[0]
        r.hist["stream"][stream] += 1
        if stream in ("sj", "push", "comps"):
            m = model[mi] if model is not None and mi < len(model) else None
            mi += 1
        if stream == "sj":
            base, name = unpct(f[1]), unpct(f[2])
            r.count(case, nontrivial_name(name))
            if f[1] in ("b", "/b") and len(name) < 300:
                ctx.wnames.append(name)
            r.hist["segments"][min(name.count("/") + 1, 42)] += 1
            r.hist["base"][repr(base) if not (ctx.tree and ctx.tree in base) else repr(base.replace(ctx.tree, "<tree>"))] += 1
            r.hist["safe_join"][impl.split(" ")[0]] += 1
            mf = m.split(" ") if m is not None else None
            if m is not None:
                m_cmp = m if m == "none" else " ".join(mf[:4])
                if impl != m_cmp:
                    r.model_disagreement(case, impl, m_cmp)
            # third witness (Python transcription) — keeps the Lean transcription honest
            pj = py_safe_join(base, name)
            if mf is not None and (None if mf[0] == "none" else unpct(mf[1])) != pj:
                broken(r, "lean-vs-python-safe_join", f"Lean safeJoin (built from the rules extracted from the source) and the Python transcription of the pinned rules disagree on {case}: {m} vs {pj!r}")
            # oracle on the hook's result: lexically beneath the base
            if impl.startswith("panic"):
                r.oracle_failure(case, "safe_join panicked: " + impl, "safe_join:panic")
                hook_p = None
            elif impl == "none":
                hook_p = None
            else:
                hook_p = unpct(impl.split(" ")[1])
                ab, st = lex(hook_p)
                bab, bst = lex(base)
                if ab != bab or st[:len(bst)] != bst or not hook_p.startswith(base):
                    r.oracle_failure(case, f"safe_join returned {hook_p!r}, lexically {lex_str(ab, st)!r}, not beneath base {lex_str(bab, bst)!r}",
                                     "safe_join:lexical-escape")
                if not normpath_agrees(hook_p):
                    broken(r, "lex-vs-normpath", f"python lex() and os.path.normpath disagree on {hook_p!r}")
                if mf is not None and mf[0] == "some":
                    mn = [unpct(x) for x in mf[4].split(",")] if len(mf) > 4 and mf[4] else []
                    if mn != lex(unpct(mf[1]))[1]:
                        broken(r, "lean-vs-python-normalize", f"Lean normalize disagrees with the Python witness on {mf[1]}: {mn}")
            last_sj = (base, name, hook_p, None if (mf is None or mf[0] == "none") else unpct(mf[1]), mf is not None)
            if r.evaluations % 60000 == 1:
                r.sample({"case": case, "safe_join": impl, "model": m})
        elif stream in ("push", "comps"):
            r.count(case, True)
            want = m if stream == "push" or m is None else " ".join(m.split(" ")[:2])
            if m is not None and impl != want:
                r.model_disagreement(case, impl, want)
            if stream == "comps" and m is not None:
                p = unpct(f[1])
                mn = [unpct(x) for x in m.split(" ")[2].split(",")] if m.split(" ")[2] else []
                if mn != lex(p)[1]:
                    broken(r, "lean-vs-python-normalize", f"Lean normalize disagrees with the Python witness on {f[1]}: {mn}")
                if not normpath_agrees(p):
                    broken(r, "lex-vs-normpath", f"python lex() and os.path.normpath disagree on {p!r}")
        elif stream == "ld":
            variant, name = f[1], unpct(f[2])
            base = ctx.bases[variant]
            base_abs = ctx.bases["abs"]
            cwd = os.path.dirname(base_abs)
            base_canon = os.path.realpath(base_abs)
            r.count(case, nontrivial_name(name))
            r.hist["variant"][variant] += 1
            if last_sj is None or last_sj[0] != base or last_sj[1] != name:
                broken(r, "out-of-step", f"harness stream out of step at {case}")
                continue
            _, _, hook_p, model_p, have_model = last_sj
            parts = impl.split(";")
            via = parts[0][2:]
            via = None if via == "-" else untilde(via)
            disk = parts[1][2:]
            parts = [parts[0]] + parts[2:]
            expect = fs_expect(model_p, cwd) if have_model else None
            expect_cb = fs_expect(py_safe_join(base, py_join_cb(name, PARENT_NAME)), cwd)
            for part in parts[1:]:
                form, res = part.split("=", 1)
                cls = res.split(":")[0]
                if form == "get" and cls == "f":
                    ctx.got[(variant, f[2])] = res
                r.hist["loader:" + form][("found" if cls == "f" else res) if cls != "panic" else "panic"] += 1
                found = None
                if cls == "panic":
                    r.oracle_failure(case, f"{form}: panic {unpct(res[6:])!r}", f"{form}:panic")
                    continue
                if cls == "f":
                    marks = res[2:].split("+")
                    for mk in marks:
                        kp = mk.split(":", 1)
                        kind, mpath = (kp[0], untilde(kp[1])) if len(kp) == 2 else ("?", mk)
                        if kind == "C":
                            r.oracle_failure(case, f"{form}: loader returned the canary {mpath!r} (base {base_canon!r})", f"{form}:canary")
                        elif kind != "B" or not mpath.startswith(base_canon + "/"):
                            r.oracle_failure(case, f"{form}: loader returned content that is not a file beneath the base: {mk!r}", f"{form}:outside-base")
                    found = untilde(marks[0].split(":", 1)[1]) if len(marks) == 1 and ":" in marks[0] else "?"
                elif cls not in ("nf", "e"):
                    broken(r, "unexpected-result", f"unexpected harness result {res!r} on {case}")
                # correspondence: what the loader returned is what (model of safe_join + the disk) designates
                want = expect_cb if form == "joincb" else expect
                if (have_model or form == "joincb") and found != want:
                    r.model_disagreement(case + " [" + form + "]", f"loader returned {found!r}", f"model + disk designate {want!r}")
                # the io-error mapping: NotFound is "missing", every other failure "unreadable"
                if form != "joincb" and have_model and found is None and want is None and cls in ("nf", "e"):
                    want_cls = "e" if (model_p is not None and disk == "!") else "nf"
                    if cls != want_cls:
                        r.model_disagreement(case + " [" + form + "]", f"loader answered {res!r}", f"model: disk says {disk!r} at the joined path, so {want_cls!r}")
                if form != "joincb" and found is not None and found != via:
                    r.model_disagreement(case + " [" + form + "]", f"loader returned {found!r}", f"hook safe_join designates {via!r}")
            if expect is not None and len(r.samples) < 10:
                r.sample({"case": case, "loader": impl[:300]})
        elif stream == "lc":
            r.count(case, True)
            rec = dict(x.split("=", 1) for x in impl.split(";"))
            rec["case"], rec["phase"], rec["name"], rec["scn"], rec["sp"] = case, int(f[2]), f[4], f[1], f[3]
            ctx.lc.setdefault((f[1], f[3]), []).append(rec)
        elif stream == "lct":
            ctx.lct[(f[1], f[3], int(f[2]))] = dict(x.split("=", 1) for x in impl.split(";") if x)
        elif stream == "lcclear":
            ctx.lcclear.add((f[1], f[3], int(f[2])))
        elif stream == "tl":
            r.count(case, True)
            ctx.tl.setdefault(f[1], {})[f[2]] = impl
        elif stream == "rt":
            ctx.rt.append((case, impl))
        else:
            r.broken.append(f"unknown harness line {line[:80]!r}")
    if model is not None and mi != len(model):
        r.broken.append("model driver output does not line up with the harness cases")


def beneath(path, root):
    return path == root or path.startswith(root.rstrip("/") + "/")


def norm_res(res):
    """harness result -> the vocabulary of the Lean driver's `hist` answers"""
    return "e" if res.startswith("e:") else res


def check_templates_listing(r, ctx):
    """Environment::templates() of the ld stream's `get` environments = exactly what get_template
    returned, name by name (the store is keyed by the name), and all of it beneath the base"""
    base_canon = os.path.realpath(ctx.bases["abs"]) if "abs" in ctx.bases else None
    for variant, listed in ctx.tl.items():
        want = {n: res for (v, n), res in ctx.got.items() if v == variant}
        for n, res in listed.items():
            case = f"tl {variant} {n}"
            for mk in (res[2:].split("+") if res.startswith("f:") else [res]):
                kp = mk.split(":", 1)
                if len(kp) != 2 or kp[0] != "B" or not beneath(untilde(kp[1]), base_canon):
                    if unpct(n) == "inc" and mk.startswith("f:?"):
                        continue        # the marker-free helper template of the `nested` form, beneath the base
                    r.oracle_failure(case, f"Environment::templates lists content that is not a file beneath the base: {mk!r}", "templates:outside-base")
            if n in want and want[n] != res:
                r.model_disagreement(case, res, want[n])
        missing = [n for n in want if n not in listed]
        extra = [n for n in listed if n not in want and unpct(n) != "inc"]
        if missing or extra:
            r.model_disagreement(f"tl {variant}", f"listed-but-never-returned {extra[:3]}", f"returned-but-not-listed {missing[:3]}")
        r.hist["templates()"][variant] += len(listed)
    ctx.tl, ctx.got = {}, {}


def check_lifecycle(r, ctx):
    """the loader over time: oracle on every answer, and the Lean model of loader + store
    (`Env.run` over the history of disk answers) against every form"""
    if not ctx.lc:
        return
    jobs, lines = [], []

    def hist_line(base, recs, key_name, key_v, with_clear=True):
        steps, seen = [], set()
        for rec in recs:
            ck = (rec["scn"], rec["sp"], rec["phase"])
            if ck in ctx.lcclear and ck not in seen and with_clear:
                steps.append("CLEAR")
            seen.add(ck)
            if key_v == "v":
                hp, disk = rec["v"].split("|", 1)
                n = rec["name"]
            else:
                n, hp, disk = rec["vj"].split("|", 2)
            steps.append(f"{n},{hp},{disk}")
        return "hist " + base + " " + " ".join(steps)

    for (scn, sp), recs in ctx.lc.items():
        base = ctx.lcbase[(scn, sp)]
        phases = sorted({rec["phase"] for rec in recs})
        for ph in phases:
            upto = [rec for rec in recs if rec["phase"] <= ph]
            jobs.append(("main", scn, sp, ph, upto)); lines.append(hist_line(base, upto, "name", "v"))
            only = [rec for rec in recs if rec["phase"] == ph]
            jobs.append(("arr", scn, sp, ph, only)); lines.append(hist_line(base, only, "name", "v"))
        jobs.append(("joincb", scn, sp, phases[-1], recs)); lines.append(hist_line(base, recs, "name", "vj"))
    model = r.driver("drive_c17", "\n".join(lines) + "\n")
    if model is None or len(model) != len(lines) or any(m == "bad-case" for m in model):
        r.broken.append("model driver did not answer the lifecycle histories")
        model = None

    # oracle (independent of the model)
    for (scn, sp), recs in ctx.lc.items():
        roots = set()
        for rec in recs:
            for k in ("bc", "bl"):
                if rec[k] != "-":
                    roots.add(untilde(rec[k]))
            r.hist["lifecycle"][f"{scn}/{sp}"] += 1
            for form in LC_FORMS:
                res = rec.get(form, "missing-field")
                cls = res.split(":")[0]
                r.hist["lifecycle:" + form]["found" if cls == "f" else ("panic" if cls == "panic" else res)] += 1
                if cls == "panic":
                    r.oracle_failure(rec["case"], f"{form}: panic {res!r}", f"lifecycle:{form}:panic")
                elif cls == "f":
                    for mk in res[2:].split("+"):
                        kp = mk.split(":", 1)
                        mpath = untilde(kp[1]) if len(kp) == 2 else None
                        if not roots:
                            r.oracle_failure(rec["case"], f"{form}: the configured base {unpct(ctx.lcbase[(scn, sp)])!r} has not been a directory since the loader was built, yet the loader returned {mk!r} (cwd {untilde(rec['cwd'])!r})",
                                             f"lifecycle:{form}:content-without-base")
                        elif mpath is None or not any(beneath(mpath, root) for root in roots):
                            r.oracle_failure(rec["case"], f"{form}: loader returned {mk!r}, not beneath the configured base {sorted(roots)} (cwd {untilde(rec['cwd'])!r})",
                                             f"lifecycle:{form}:outside-base")
                elif cls not in ("nf", "e"):
                    broken(r, "unexpected-result", f"unexpected harness result {res!r} on {rec['case']}")
        # Environment::templates after each phase
        for ph in sorted({rec["phase"] for rec in recs}):
            for n, res in ctx.lct.get((scn, sp, ph), {}).items():
                for mk in (res[2:].split("+") if res.startswith("f:") else [res]):
                    kp = mk.split(":", 1)
                    if len(kp) != 2 or not any(beneath(untilde(kp[1]), root) for root in roots):
                        r.oracle_failure(f"lct {scn} {ph} {sp} {n}", f"Environment::templates lists {mk!r}, not beneath the configured base {sorted(roots)}",
                                         "lifecycle:templates:outside-base")

    # correspondence with the Lean model of loader + store
    if model is not None:
        for (kind, scn, sp, ph, recs), m in zip(jobs, model):
            answers, _, store = m.partition(" | ")
            answers = answers.split(" ") if answers else []
            if len(answers) != len(recs):
                r.broken.append(f"lifecycle history {kind} {scn} {sp}: model answered {len(answers)} of {len(recs)} requests")
                continue
            if kind == "main":
                forms = [x for x in LC_FORMS if x not in ("joincb", "arr")]
            else:
                forms = [kind]
            inc_stored = False
            for rec, want0 in zip(recs, answers):
                # two forms look a helper name up first; its failure is the answer (the helper lives in
                # the same directory as the names, so the store evolves as in the other forms)
                inc_disk = rec.get("vi", "|").split("|", 1)[1]
                inc_ans = "f" if (inc_stored or inc_disk not in ("", "-", "!")) else ("e" if inc_disk == "!" else "nf")
                inc_stored = inc_stored or inc_ans == "f"
                nope_disk = rec.get("vn", "|").split("|", 1)[1]
                if kind == "main" and rec["phase"] != ph:
                    continue       # earlier phases were compared with their own prefix
                for form in forms:
                    want = want0
                    if form == "nested" and inc_ans != "f":
                        want = inc_ans
                    if form == "inclist2" and nope_disk == "!":
                        want = "e"
                    got = norm_res(rec.get(form, "missing-field"))
                    if got != want:
                        r.model_disagreement(rec["case"] + " [" + form + "]", f"loader answered {got!r}", f"model (configured base, disk at load time, store) answers {want!r}")
            if kind == "main":
                want_store = dict(x.split("=", 1) for x in store.split(";") if x)
                got_store = {n: res[2:] for n, res in ctx.lct.get((scn, sp, ph), {}).items() if unpct(n) != "inc"}
                if want_store != got_store:
                    diff = sorted(set(want_store.items()) ^ set(got_store.items()))[:3]
                    r.model_disagreement(f"lct {scn} {ph} {sp}", f"Environment::templates differs from the model's store: {diff}", "")
    r.sample({"case": next(iter(ctx.lc.values()))[0]["case"], "loader": {k: v for k, v in next(iter(ctx.lc.values()))[0].items() if k not in ("case",)}})
    ctx.lc, ctx.lct, ctx.lcclear = {}, {}, set()


# form of the harness -> (route of the Lean model, path-join callback installed?)
RT_ROUTE = {"get": "env", "include": "include", "import": "import", "from": "from", "extends": "extends",
            "joincb": "include", "fn": "state", "filter": "state", "macro": "include", "incim": "include"}


def check_routes(r, ctx):
    """the routes stream: which names reach the LOADER CLOSURE (a recorder around the real
    path_loader, fresh environment per request) over each of the 13 forms, against the Lean model
    of the routes (`Engine.loaderCalls` / `Engine.serve`: Environment::get_template,
    State::get_template + join_template_path with and without the documented callback, include,
    import, from-import, extends, lists of include choices); oracle: what the engine returns is
    a file beneath the base, never a canary."""
    if not ctx.rt:
        return
    drv = pct_py("<drv>")
    jobs, lines = [], []
    for case, impl in ctx.rt:
        f = case.split(" ")
        variant, form, name = f[1], f[2], f[3]
        calls, res, dtxt = impl.split("\t")
        cands = {}
        for tok in dtxt.split(" "):
            c, hp, disk = tok.split(",")
            cands[c] = (hp, disk)
        r.count(case, nontrivial_name(unpct(name)))
        r.hist["route-form"][form] += 1
        calls = calls.split(",") if calls else []
        r.hist["loader-calls-per-request"][len(calls)] += 1
        # (no oracle on the names themselves: an engine that asks the loader for a further name — a suffix
        # fallback, say — keeps the property as long as that name goes through safe_join; it shows as a
        # correspondence disagreement below, not as a failing input.)  The oracle of this stream is the
        # one the property states: content returned is a file beneath the base.
        if res.startswith("f:"):
            base_canon = os.path.realpath(ctx.bases["abs"])
            for mk in res[2:].split("+"):
                kp = mk.split(":", 1)
                if len(kp) == 2 and kp[0] == "C":
                    r.oracle_failure(case, f"{form}: the engine returned the canary {untilde(kp[1])!r} (base {base_canon!r}); the loader closure had been called with {[unpct(c) for c in calls][:3]}", f"route:{form}:canary")
                elif len(kp) == 2 and kp[0] == "B" and not untilde(kp[1]).startswith(base_canon + "/"):
                    r.oracle_failure(case, f"{form}: the engine returned content that is not a file beneath the base: {mk!r}", f"route:{form}:outside-base")
        if res.startswith("panic"):
            r.oracle_failure(case, f"{form}: panic {res!r}", f"route:{form}:panic")
            continue
        # the model's requests
        if form in RT_ROUTE:
            parent = pct_py(PARENT_NAME) if form == "joincb" else drv
            reqs = [f"o,{RT_ROUTE[form]},{name},{parent}"]
        elif form == "inclist":
            reqs = [f"c,{drv},{name},{name}"]
        elif form == "inclist2":
            reqs = [f"c,{drv},mj17-nope,{name}"]
        elif form == "nested":
            reqs = [f"o,include,inc,{drv}"]
            if cands["inc"][1] == "+":
                reqs.append(f"o,include,{name},inc")
        else:
            broken(r, "unknown-form", f"routes stream: unknown form {form!r}")
            continue
        snap = [f"s,{hp},{'x' if disk == '+' else disk}" for hp, disk in cands.values() if hp]
        base = pct_py(ctx.bases[variant])
        lines.append(" ".join(["route", base, "1" if form == "joincb" else "0"] + reqs + snap))
        jobs.append((case, form, name, calls, res))
    model = r.driver("drive_c17", "\n".join(lines) + "\n")
    if model is None or len(model) != len(lines) or any(m == "bad-case" for m in model):
        r.broken.append("model driver did not answer the routes cases")
        ctx.rt = []
        return
    for (case, form, name, calls, res), m in zip(jobs, model):
        ans, _, mcalls = m.partition(" | ")
        mcalls = mcalls.split(",") if mcalls else []
        if mcalls != calls:
            r.model_disagreement(case + " [loader calls]", f"the loader closure was called with {calls[:4]}", f"model (Engine.loaderCalls): {mcalls[:4]}")
        want = ans.split(",")[-1]
        if unpct(name) == "inc" and form != "nested":
            continue        # the helper template includes itself: a recursion error, not a loader answer
        got = "f" if res.startswith("f:") else ("e" if res.startswith("e:") else res)
        if got != want:
            r.model_disagreement(case + " [answer]", f"engine answered {res!r}", f"model (Engine.serve): {want!r}")
    if jobs:
        r.sample({"case": jobs[0][0], "loader_calls": jobs[0][3], "result": jobs[0][4]})
    ctx.rt = []


_hexstr = re.compile(r'"((?:\\x[0-9a-f]{2})*)"')


def check_syscalls(r, exe):
    """syscall-level oracle: the loader is run under strace; between the two sentinel probes that
    bracket a request, the only path the process may hand to the kernel is the one
    safe_join(configured base, name) designates (model: Loader.reads), opened once; any open of a
    path outside the base is a violation however the code that did it is spelled"""
    import shutil, tempfile
    if shutil.which("strace") is None:
        r.extra["syscall_oracle"] = "skipped: strace not available"
        return
    fd, trace_path = tempfile.mkstemp(prefix="mjc17-", suffix=".strace")
    os.close(fd)
    try:
        rc, out, err = r.harness("strace", ["-f", "-xx", "-s", "65536", "-e", "trace=file", "-o", trace_path, exe, "trace", r.tier])
        if rc != 0:
            r.broken.append(f"strace/harness trace run exited {rc}: {err[-300:]}")
            return
        trace = open(trace_path, errors="replace").read().splitlines()
    finally:
        os.remove(trace_path)
    bases, reqs = {}, {}
    for line in out.splitlines():
        if line.startswith("#base"):
            f = line.split(" ")
            bases[f[1]] = unpct(f[2])
        elif line.startswith("tr "):
            case, res = line.split("\t", 1)
            idx, hook, result = res.split(" ", 2)
            reqs[int(idx)] = (case, hook, result)
    base_canon = os.path.realpath(bases["abs"])
    cwd = os.path.dirname(base_canon)
    seen, cur = {}, None
    for line in trace:
        m = re.match(r"^\d+\s+(\w+)\(", line)
        if not m:
            continue
        sysname = m.group(1)
        paths = [bytes.fromhex(x.replace("\\x", "")).decode("utf-8", "surrogateescape") for x in _hexstr.findall(line)]
        if any(p.startswith("/MJ17-B/") for p in paths):
            cur = int([p for p in paths if p.startswith("/MJ17-B/")][0][8:])
            seen[cur] = []
        elif any(p.startswith("/MJ17-E/") for p in paths):
            cur = None
        elif cur is not None:
            seen[cur] += [(sysname, p) for p in paths if p != ""]
    if len(seen) != len(reqs):
        r.broken.append(f"syscall oracle: {len(reqs)} requests but {len(seen)} bracketed spans in the trace")
    rel_base = bases.get("rel", "base")
    for idx, (case, hook, result) in reqs.items():
        cf = case.split(" ")
        form, name = cf[2], unpct(cf[3])
        r.count(case, nontrivial_name(name))
        r.hist["stream"]["tr"] += 1
        r.hist["syscall-route"][form] += 1
        got = seen.get(idx, [])
        hook_p = unpct(hook[1:]) if hook.startswith("+") else None
        want = [("openat", hook_p)] if hook_p is not None and "\0" not in hook_p else []
        if form == "inclist" and result == "nf":
            want = want * 2          # both choices of `[name, name]` are looked up
        if form == "inclist2":
            want = [("openat", py_safe_join(rel_base, "mj17-nope"))] + want   # the missing first choice
        r.hist["syscalls-per-request"][len(got)] += 1
        if hook_p is not None and len(hook_p.encode("utf-8", "surrogateescape")) > 4000:
            # strace prints at most PATH_MAX bytes of a path argument
            got = [(sn, hook_p if hook_p.encode("utf-8", "surrogateescape").startswith(p.encode("utf-8", "surrogateescape")[:4000]) else p)
                   for sn, p in got]
        for sysname, p in got:
            q = p if p.startswith("/") else cwd + "/" + p
            ab, st = lex(q)
            if not beneath(lex_str(ab, st), base_canon):
                if sysname in ("open", "openat", "openat2", "creat"):
                    r.oracle_failure(case, f"while serving this name the loader opened {p!r}, which is outside the base {base_canon!r}", "syscall:open-outside-base")
                else:
                    r.model_disagreement(case + " [syscall]", f"{sysname}({p!r}) outside the base", f"model: the loader touches only {want}")
        if got != want:
            r.model_disagreement(case + " [syscall]", f"file-system calls {got[:4]}", f"model (Loader.reads): {want}")
        if result.startswith("f:"):
            for mk in result[2:].split("+"):
                kp = mk.split(":", 1)
                if len(kp) != 2 or kp[0] != "B" or not beneath(untilde(kp[1]), base_canon):
                    r.oracle_failure(case, f"loader returned content that is not a file beneath the base: {mk!r}", "trace:outside-base")
        elif result.startswith("panic"):
            r.oracle_failure(case, f"panic {result!r}", "trace:panic")
    r.extra["syscall_oracle"] = f"{len(reqs)} requests traced"


def run(r):
    r.rule = ("template names = all '/'-joins of 1..4 (quick; + 20000 sampled 5-joins) or 1..5 (thorough) segments over the alphabet "
              "{'', '.', '..', '...', 'a', '.a', 'a.', 'a..b', 'a\\\\b', '..\\\\a', NUL, '%2e%2e', U+2024 x2, U+FF0E x2, 'a' x 256, 'only_outside.txt' (a plain name that exists in every ancestor of the base, never beneath it)} "
              "+ targeted spellings of canary paths (absolute, climbing, encoded, look-alike separators) + disguised escaping spellings (12 kernels x pads, "
              "encodings, look-alikes, cut-off tokens, prefixes, suffixes) + shaped spellings (long, deep, leading empties, beyond NAME_MAX/PATH_MAX) + "
              "Windows device/drive/UNC/verbatim/stream spellings as data + every canary file's base name and its "
              "name relative to each directory above it (plain, rooted, trailing/doubled slashes, below a/ and a/a/; incl. names that exist "
              "only outside the base) + decorated-namesake requests (ghost stems whose only existing spellings are decorated canaries outside "
              "the base) + random char/byte noise; syscall oracle (strace) over targeted names + all 1..2-segment (quick) / 1..3-segment "
              "(thorough) alphabet names + noise, via the loader closure (absolute base) and all 13 routes in rotation (relative base); loader forms: get_template, include, import, from-import, extends, include list, "
              "documented join callback, State::get_template from a function, include in a macro, include in a loader-backed template "
              "(these 10 for every name) + ignore-missing include, include list with the name as second choice, State::get_template from a filter "
              "(for all but the alphabet product), Environment::templates; lifecycle stream: 12 scenarios (base exists / created after construction / "
              "never exists / removed and recreated / removed / clear_templates / chdir between construction and loads x3 / empty and '.' base / "
              "base is a regular file / file later replaced by a directory) x 10 spellings of the base (incl. trailing '..', doubled leading "
              "slash, symlink to the base) x 46 names x 15 forms (the 13 + AutoReloader with and without reload), canaries relative to every "
              "working directory; Windows-model stream: every name that met the disk-free base 'b' or '/b' against 12 Windows bases, Lean model vs ntpath; "
              "deep names (2..41 segments, the escaping piece at every position: empties, real directories + extra `..`, absolute canary tails) in the targeted set; routes stream: every targeted / lifecycle / 1..2-segment alphabet / noise name through a fresh recording environment, the first 1000 (thorough: 6000) names over all 13 forms and the others over one form in rotation; each name against the scratch tree's base (absolute spelling) and one of 12 other bases (4 more spellings of the "
              "scratch base, 8 disk-free bases) in rotation; a name is non-trivial when it contains '/', '.' or '\\\\'")
    r.assumptions = ["the real code runs with Unix path semantics; Windows is covered by the model only (validated against CPython's ntpath, verbatim bases excluded); symbolic links inside the base are out of scope per the statement",
                     "the syscall oracle needs strace (skipped and recorded in the evidence when it is not installed)",
                     "alphabet names longer than 5 segments behave as the model predicts (proved for the model for every name and base; exercised up to 41 segments by the deep axis, 260 by the shaped axis)"]
    r.regen_tables(needed=["C17_SAFE_JOIN_RULES", "C17_PATH_LOADER_SHAPE", "C17_LOADER_ENTRY_SITES", "C17_SAFE_JOIN_LOOP", "C17_PATH_PRODUCERS", "C17_NAME_FLOW", "C17_STMT_ROUTES", "C17_WATCH_ARGS", "C17_STORE_GET"])
    r.lean_prove("MJ.Props.C17", "MJ/Audit/C17.lean", extra_targets=["drive_c17"])
    exe = r.cargo_build("c17")
    if exe is None:
        return
    n = 1 if r.tier == "quick" else 16
    ctx = Ctx()
    for k in range(n):
        rc, out, err = r.harness(exe, ["gen", r.tier, str(k), str(n)])
        if rc != 0:
            r.broken.append(f"harness c17 exited {rc}: {err[-300:]}")
            return
        lines = out.split("\n")
        if lines and lines[-1] == "":
            lines.pop()
        del out
        minp = "\n".join(l for l in lines if l.startswith(("sj ", "push ", "comps "))) + "\n"
        model = r.driver("drive_c17", minp)
        del minp
        if model is not None and any(m == "bad-case" for m in model):
            r.broken.append("model driver could not parse some case lines")
        check_lines(r, ctx, lines, model)
        check_templates_listing(r, ctx)
        check_lifecycle(r, ctx)
        check_routes(r, ctx)
        check_windows_model(r, ctx.wnames)
        ctx.wnames = []
        if n > 1:
            r.log(f"chunk {k + 1}/{n}: evaluations {r.evaluations}")
    check_syscalls(r, exe)
    r.exhaustive = (r.tier == "thorough")
    r.extra["scratch_tree"] = ctx.tree
    if ctx.tree and "/mjc17-" in ctx.tree and ctx.tree.endswith("/tree"):
        import shutil
        shutil.rmtree(os.path.dirname(ctx.tree), ignore_errors=True)
    found = sum(v for k, v in r.hist["loader:get"].items() if k == "found")
    if found == 0 or r.hist["safe_join"]["some"] == 0 or r.hist["safe_join"]["none"] == 0:
        r.broken.append("vacuous run: the loader never returned a file, or safe_join never accepted / never rejected a name")


def replay(r, path):
    d = json.load(open(path))
    exe = r.cargo_build("c17")
    for case in [d.get("case")] + d.get("more_cases", []):
        if not case:
            continue
        case = case.split(" [")[0]
        if case.startswith("tr "):
            tf = case.split(" ")
            case = f"ld {tf[1] if tf[1] != 'direct' else 'abs'} {tf[3]}"
        rc, out, err = r.harness(exe, ["one"] + case.split(" "))
        print("engine:", out.strip())
        f = case.split(" ")
        if f[0] == "ld":
            # the loader streams are judged against safe_join's model for the same base and name
            rc, out2, err = r.harness(exe, ["bases"])
            bases = {l.split(" ")[1]: l.split(" ")[2] for l in out2.splitlines() if l.startswith("#base")}
            mcase = f"sj {bases.get(f[1], '')} {f[2]}"
            model = r.driver("drive_c17", mcase + "\n")
            print("model:", mcase, "->", model[0] if model else None)
        elif f[0] == "rt":
            print("(routes stream: `names the loader closure was called with`<TAB><result><TAB><candidate name>,<hook path>,<disk> …)")
            continue
        elif f[0] == "wsj":
            model = r.driver("drive_c17", case + "\n")
            print("Lean windows model:", model[0] if model else None)
            print("ntpath witness:", nt_safe_join(unpct(f[1]), unpct(f[2])))
            continue
        else:
            model = r.driver("drive_c17", case + "\n")
            print("model:", model[0] if model else None)
            if f[0] == "sj":
                print("python:", repr(py_safe_join(unpct(f[1]), unpct(f[2]))))
    rc, out2, err = r.harness(exe, ["bases"])
    tree = [unpct(l.split(" ")[1]) for l in out2.splitlines() if l.startswith("#tree")]
    if tree and "/mjc17-" in tree[0] and tree[0].endswith("/tree"):
        import shutil
        shutil.rmtree(os.path.dirname(tree[0]), ignore_errors=True)
    return 0
