"""C17 — the file-system loader never reads outside its base directory (DESIGN.md §3 C17)."""
import json, os, re

READY = True

META = {
    "technique": "Lean 4 proof (model of loader::safe_join built from the segment rules extracted from the source, PathBuf::push incl. its replace-on-absolute branch, Path::components, lexical normalisation, abstract directory tree, path_loader as a function of (configured base, file system at load time), the name-keyed template store over arbitrary file-system histories) + exhaustive correspondence of the real safe_join with the model over the quantifier's segment alphabet + canary oracle on the real path_loader over a scratch tree, through 10 entry points, Environment::templates, AutoReloader, and a loader-lifecycle axis",
    "category": "proof",
    "text": "Kernel-checked theorems: whenever the model of safe_join answers a path, that path has the base as literal prefix, its components are the base's components followed by the name's non-empty segments, none of which is '.', '..', hidden or contains '/' or '\\'; hence lexical normalisation keeps the base as prefix and, on every directory tree without symlinks, the path resolves to the base directory or beneath it; any '.', '..', hidden or backslash segment yields None; the absolute-argument branch of PathBuf::push is unreachable. The loader keeps the configured base verbatim whatever the disk looks like at construction (loader_base_is_configured); every path it hands to the file system and every content it returns is confined to the configured base in the file system of the load (loader_reads_confined, loader_found_confined); with the name-keyed store in front, for EVERY history of file systems (base created later, removed, recreated, working directory changed, clear_templates) every answer and everything Environment::templates lists is what some snapshot held at safe_join(configured base, name) (loader_history_confined, loader_history_confined_after_clear); without a readable file under the base the only answers are missing/unreadable. Ties: the segment rules of the model are regenerated from loader.rs; path_loader's base binding, its fs:: calls and the engine's template-fetching call sites are regenerated and checked by theorems; the real safe_join is compared with the model byte for byte on every name over the segment alphabet for 13 spellings of the base plus noise; the real path_loader is compared with (model, disk answer at the joined path, store) through get_template, include, import, from-import, extends, include lists, the documented join callback, State::get_template from a host function, includes in macros and in loader-backed templates, Environment::templates and AutoReloader, on a static tree and on 10 lifecycle scenarios x 7 spellings of the base; a syscall-level oracle runs the loader under strace and requires that, between the sentinel probes bracketing a request, the only path handed to the kernel is the one safe_join designates (opened once) and that nothing outside the base is opened; every canary outside the base has decorated namesakes (.j2/.html/.txt/.jinja/.tmpl/…, <name>/index.html, other case, blanks, other Unicode normal forms) and the undecorated stems are requested by absolute and relative spellings (the scratch tree sits at a path without dot segments so that absolute canary names get past the hidden-segment rule); the oracle requires every returned content to carry the marker of a file whose canonical path is beneath the canonical configured base (never a canary, nothing at all while the base has not existed).",
    "design_ref": "DESIGN.md §3 C17",
    "level_note": "Trusted: Lean kernel; hand transcription of the loop of loader::safe_join (the rules themselves are extracted) and of std's Unix PathBuf::push / Path::components into MJ/Model/Path.lean (validated byte-for-byte against the real functions, the std ones also outside the region safe_join reaches); the step from 'components are plain names' to 'the OS resolves beneath the base' is proved on an abstract tree without symlinks (the property excludes symlinks) and validated on a real tree; Loader.load / Env.get are three-line transcriptions of path_loader's closure and LoaderStore::get, tied by the extracted shape table and validated on every stream; State::get_template/join_template_path are validated by the oracle streams (the Lean statement get_template_passes_name is about a three-line model; the call sites are tied by entry_sites_covered). Unix only: on Windows other separators/prefixes exist. minijinja-cli has its own loader (no safe_join, reads arbitrary paths by design) and minijinja-embed does not touch the disk at run time: both are outside this property.",
}

PARENT_NAME = "a/a/drv"      # name of the including template in the join-callback stream
FORMS = ["get", "include", "import", "from", "extends", "inclist", "joincb", "fn", "macro", "nested"]
LC_FORMS = FORMS + ["ar", "arr"]

_esc = re.compile(rb"%([0-9a-f]{2})")
_tesc = re.compile(r"~([0-9a-f]{2})")


def unpct(s):
    b = s.encode("ascii")
    if b"%" in b:
        b = _esc.sub(lambda m: bytes([int(m.group(1), 16)]), b)
    return b.decode("utf-8", "surrogateescape")


def untilde(s):
    if "~" not in s:
        return s
    return bytes(_tesc.sub(lambda m: chr(int(m.group(1), 16)), s), "latin-1").decode("utf-8", "surrogateescape")


# ---------------------------------------------------------------- independent Python witnesses
def py_safe_join(base, name):
    rv = base
    for seg in name.split("/"):
        if seg.startswith(".") or "\\" in seg:
            return None
        if seg.startswith("/"):
            rv = seg
        elif rv and not rv.endswith("/"):
            rv = rv + "/" + seg
        else:
            rv = rv + seg
    return rv


def lex(path):
    """lexical normalisation: (is_absolute, component stack)"""
    ab = path.startswith("/")
    st = []
    for c in path.split("/"):
        if c in ("", "."):
            continue
        if c == "..":
            if st and st[-1] != "..":
                st.pop()
            elif not st and ab:
                pass
            else:
                st.append("..")
        else:
            st.append(c)
    return ab, st


def lex_str(ab, st):
    return ("/" if ab else "") + "/".join(st) if (st or ab) else "."


def normpath_agrees(path):
    """os.path.normpath as a second opinion on `lex` (POSIX keeps exactly two leading slashes)"""
    q = path
    if "\0" in q:
        return True     # some CPython versions truncate at NUL here
    if q.startswith("//") and not q.startswith("///"):
        q = q[1:]
    return os.path.normpath(q) == lex_str(*lex(path))


def py_join_cb(name, parent):
    rv = parent.split("/")
    rv.pop()
    for seg in name.split("/"):
        if seg == ".":
            pass
        elif seg == "..":
            if rv:
                rv.pop()
        else:
            rv.append(seg)
    return "/".join(rv)


def fs_expect(p, cwd):
    """canonical path of the regular file `p` designates, or None"""
    if p is None:
        return None
    q = p if p.startswith("/") else os.path.join(cwd, p)
    try:
        if os.path.isfile(q):
            return os.path.realpath(q)
    except (ValueError, OSError):
        pass
    return None


class Ctx:
    def __init__(self):
        self.tree = None
        self.bases = {}
        self.notes = 0
        self.lcbase = {}        # (scenario, spelling) -> configured base string
        self.lc = {}            # (scenario, spelling) -> list of records in order
        self.lct = {}           # (scenario, spelling, phase) -> {name: result}
        self.lcclear = set()    # (scenario, spelling, phase): clear_templates happened before that phase
        self.got = {}           # (variant, name) -> result of the `get` form in the ld stream
        self.tl = {}            # variant -> {name: result} as listed by Environment::templates


def broken(r, key, msg, cap=3):
    """record a broken-tie message, at most `cap` per kind (the count goes to the histogram)"""
    r.hist["broken-tie"][key] += 1
    if r.hist["broken-tie"][key] <= cap:
        r.broken.append(msg)


def nontrivial_name(name):
    return ("/" in name) or ("." in name) or ("\\" in name)


def check_lines(r, ctx, lines, model):
    """lines: harness output lines; model: driver output for the non-ld, non-header lines (in order)"""
    mi = 0
    last_sj = None     # (base, name, hook result fields, model fields)
    for line in lines:
        if line.startswith("#"):
            f = line.split(" ")
            if f[0] == "#tree":
                ctx.tree = unpct(f[1])
            elif f[0] == "#base":
                ctx.bases[f[1]] = unpct(f[2])
            elif f[0] == "#lcbase":
                ctx.lcbase[(f[1], f[2])] = f[3]
            continue
        case, impl = line.split("\t", 1)
        f = case.split(" ")
        stream = f[0]
        r.hist["stream"][stream] += 1
        if stream in ("sj", "push", "comps"):
            m = model[mi] if model is not None and mi < len(model) else None
            mi += 1
        if stream == "sj":
            base, name = unpct(f[1]), unpct(f[2])
            r.count(case, nontrivial_name(name))
            r.hist["segments"][min(name.count("/") + 1, 9)] += 1
            r.hist["base"][repr(base) if not (ctx.tree and ctx.tree in base) else repr(base.replace(ctx.tree, "<tree>"))] += 1
            r.hist["safe_join"][impl.split(" ")[0]] += 1
            mf = m.split(" ") if m is not None else None
            if m is not None:
                m_cmp = m if m == "none" else " ".join(mf[:4])
                if impl != m_cmp:
                    r.model_disagreement(case, impl, m_cmp)
            # third witness (Python transcription) — keeps the Lean transcription honest
            pj = py_safe_join(base, name)
            if mf is not None and (None if mf[0] == "none" else unpct(mf[1])) != pj:
                broken(r, "lean-vs-python-safe_join", f"Lean safeJoin (built from the rules extracted from the source) and the Python transcription of the pinned rules disagree on {case}: {m} vs {pj!r}")
            # oracle on the hook's result: lexically beneath the base
            if impl.startswith("panic"):
                r.oracle_failure(case, "safe_join panicked: " + impl, "safe_join:panic")
                hook_p = None
            elif impl == "none":
                hook_p = None
            else:
                hook_p = unpct(impl.split(" ")[1])
                ab, st = lex(hook_p)
                bab, bst = lex(base)
                if ab != bab or st[:len(bst)] != bst or not hook_p.startswith(base):
                    r.oracle_failure(case, f"safe_join returned {hook_p!r}, lexically {lex_str(ab, st)!r}, not beneath base {lex_str(bab, bst)!r}",
                                     "safe_join:lexical-escape")
                if not normpath_agrees(hook_p):
                    broken(r, "lex-vs-normpath", f"python lex() and os.path.normpath disagree on {hook_p!r}")
                if mf is not None and mf[0] == "some":
                    mn = [unpct(x) for x in mf[4].split(",")] if len(mf) > 4 and mf[4] else []
                    if mn != lex(unpct(mf[1]))[1]:
                        broken(r, "lean-vs-python-normalize", f"Lean normalize disagrees with the Python witness on {mf[1]}: {mn}")
            last_sj = (base, name, hook_p, None if (mf is None or mf[0] == "none") else unpct(mf[1]), mf is not None)
            if r.evaluations % 60000 == 1:
                r.sample({"case": case, "safe_join": impl, "model": m})
        elif stream in ("push", "comps"):
            r.count(case, True)
            want = m if stream == "push" or m is None else " ".join(m.split(" ")[:2])
            if m is not None and impl != want:
                r.model_disagreement(case, impl, want)
            if stream == "comps" and m is not None:
                p = unpct(f[1])
                mn = [unpct(x) for x in m.split(" ")[2].split(",")] if m.split(" ")[2] else []
                if mn != lex(p)[1]:
                    broken(r, "lean-vs-python-normalize", f"Lean normalize disagrees with the Python witness on {f[1]}: {mn}")
                if not normpath_agrees(p):
                    broken(r, "lex-vs-normpath", f"python lex() and os.path.normpath disagree on {p!r}")
        elif stream == "ld":
            variant, name = f[1], unpct(f[2])
            base = ctx.bases[variant]
            base_abs = ctx.bases["abs"]
            cwd = os.path.dirname(base_abs)
            base_canon = os.path.realpath(base_abs)
            r.count(case, nontrivial_name(name))
            r.hist["variant"][variant] += 1
            if last_sj is None or last_sj[0] != base or last_sj[1] != name:
                broken(r, "out-of-step", f"harness stream out of step at {case}")
                continue
            _, _, hook_p, model_p, have_model = last_sj
            parts = impl.split(";")
            via = parts[0][2:]
            via = None if via == "-" else untilde(via)
            disk = parts[1][2:]
            parts = [parts[0]] + parts[2:]
            expect = fs_expect(model_p, cwd) if have_model else None
            expect_cb = fs_expect(py_safe_join(base, py_join_cb(name, PARENT_NAME)), cwd)
            for part in parts[1:]:
                form, res = part.split("=", 1)
                cls = res.split(":")[0]
                if form == "get" and cls == "f":
                    ctx.got[(variant, f[2])] = res
                r.hist["loader:" + form][("found" if cls == "f" else res) if cls != "panic" else "panic"] += 1
                found = None
                if cls == "panic":
                    r.oracle_failure(case, f"{form}: panic {unpct(res[6:])!r}", f"{form}:panic")
                    continue
                if cls == "f":
                    marks = res[2:].split("+")
                    for mk in marks:
                        kp = mk.split(":", 1)
                        kind, mpath = (kp[0], untilde(kp[1])) if len(kp) == 2 else ("?", mk)
                        if kind == "C":
                            r.oracle_failure(case, f"{form}: loader returned the canary {mpath!r} (base {base_canon!r})", f"{form}:canary")
                        elif kind != "B" or not mpath.startswith(base_canon + "/"):
                            r.oracle_failure(case, f"{form}: loader returned content that is not a file beneath the base: {mk!r}", f"{form}:outside-base")
                    found = untilde(marks[0].split(":", 1)[1]) if len(marks) == 1 and ":" in marks[0] else "?"
                elif cls not in ("nf", "e"):
                    broken(r, "unexpected-result", f"unexpected harness result {res!r} on {case}")
                # correspondence: what the loader returned is what (model of safe_join + the disk) designates
                want = expect_cb if form == "joincb" else expect
                if (have_model or form == "joincb") and found != want:
                    r.model_disagreement(case + " [" + form + "]", f"loader returned {found!r}", f"model + disk designate {want!r}")
                # the io-error mapping: NotFound is "missing", every other failure "unreadable"
                if form != "joincb" and have_model and found is None and want is None and cls in ("nf", "e"):
                    want_cls = "e" if (model_p is not None and disk == "!") else "nf"
                    if cls != want_cls:
                        r.model_disagreement(case + " [" + form + "]", f"loader answered {res!r}", f"model: disk says {disk!r} at the joined path, so {want_cls!r}")
                if form != "joincb" and found is not None and found != via:
                    r.model_disagreement(case + " [" + form + "]", f"loader returned {found!r}", f"hook safe_join designates {via!r}")
            if expect is not None and len(r.samples) < 10:
                r.sample({"case": case, "loader": impl[:300]})
        elif stream == "lc":
            r.count(case, True)
            rec = dict(x.split("=", 1) for x in impl.split(";"))
            rec["case"], rec["phase"], rec["name"], rec["scn"], rec["sp"] = case, int(f[2]), f[4], f[1], f[3]
            ctx.lc.setdefault((f[1], f[3]), []).append(rec)
        elif stream == "lct":
            ctx.lct[(f[1], f[3], int(f[2]))] = dict(x.split("=", 1) for x in impl.split(";") if x)
        elif stream == "lcclear":
            ctx.lcclear.add((f[1], f[3], int(f[2])))
        elif stream == "tl":
            r.count(case, True)
            ctx.tl.setdefault(f[1], {})[f[2]] = impl
        else:
            r.broken.append(f"unknown harness line {line[:80]!r}")
    if model is not None and mi != len(model):
        r.broken.append("model driver output does not line up with the harness cases")


def beneath(path, root):
    return path == root or path.startswith(root.rstrip("/") + "/")


def norm_res(res):
    """harness result -> the vocabulary of the Lean driver's `hist` answers"""
    return "e" if res.startswith("e:") else res


def check_templates_listing(r, ctx):
    """Environment::templates() of the ld stream's `get` environments = exactly what get_template
    returned, name by name (the store is keyed by the name), and all of it beneath the base"""
    base_canon = os.path.realpath(ctx.bases["abs"]) if "abs" in ctx.bases else None
    for variant, listed in ctx.tl.items():
        want = {n: res for (v, n), res in ctx.got.items() if v == variant}
        for n, res in listed.items():
            case = f"tl {variant} {n}"
            for mk in (res[2:].split("+") if res.startswith("f:") else [res]):
                kp = mk.split(":", 1)
                if len(kp) != 2 or kp[0] != "B" or not beneath(untilde(kp[1]), base_canon):
                    if unpct(n) == "inc" and mk.startswith("f:?"):
                        continue        # the marker-free helper template of the `nested` form, beneath the base
                    r.oracle_failure(case, f"Environment::templates lists content that is not a file beneath the base: {mk!r}", "templates:outside-base")
            if n in want and want[n] != res:
                r.model_disagreement(case, res, want[n])
        missing = [n for n in want if n not in listed]
        extra = [n for n in listed if n not in want and unpct(n) != "inc"]
        if missing or extra:
            r.model_disagreement(f"tl {variant}", f"listed-but-never-returned {extra[:3]}", f"returned-but-not-listed {missing[:3]}")
        r.hist["templates()"][variant] += len(listed)
    ctx.tl, ctx.got = {}, {}


def check_lifecycle(r, ctx):
    """the loader over time: oracle on every answer, and the Lean model of loader + store
    (`Env.run` over the history of disk answers) against every form"""
    if not ctx.lc:
        return
    jobs, lines = [], []

    def hist_line(base, recs, key_name, key_v, with_clear=True):
        steps, seen = [], set()
        for rec in recs:
            ck = (rec["scn"], rec["sp"], rec["phase"])
            if ck in ctx.lcclear and ck not in seen and with_clear:
                steps.append("CLEAR")
            seen.add(ck)
            if key_v == "v":
                hp, disk = rec["v"].split("|", 1)
                n = rec["name"]
            else:
                n, hp, disk = rec["vj"].split("|", 2)
            steps.append(f"{n},{hp},{disk}")
        return "hist " + base + " " + " ".join(steps)

    for (scn, sp), recs in ctx.lc.items():
        base = ctx.lcbase[(scn, sp)]
        phases = sorted({rec["phase"] for rec in recs})
        for ph in phases:
            upto = [rec for rec in recs if rec["phase"] <= ph]
            jobs.append(("main", scn, sp, ph, upto)); lines.append(hist_line(base, upto, "name", "v"))
            only = [rec for rec in recs if rec["phase"] == ph]
            jobs.append(("arr", scn, sp, ph, only)); lines.append(hist_line(base, only, "name", "v"))
        jobs.append(("joincb", scn, sp, phases[-1], recs)); lines.append(hist_line(base, recs, "name", "vj"))
    model = r.driver("drive_c17", "\n".join(lines) + "\n")
    if model is None or len(model) != len(lines) or any(m == "bad-case" for m in model):
        r.broken.append("model driver did not answer the lifecycle histories")
        model = None

    # oracle (independent of the model)
    for (scn, sp), recs in ctx.lc.items():
        roots = set()
        for rec in recs:
            for k in ("bc", "bl"):
                if rec[k] != "-":
                    roots.add(untilde(rec[k]))
            r.hist["lifecycle"][f"{scn}/{sp}"] += 1
            for form in LC_FORMS:
                res = rec.get(form, "missing-field")
                cls = res.split(":")[0]
                r.hist["lifecycle:" + form]["found" if cls == "f" else ("panic" if cls == "panic" else res)] += 1
                if cls == "panic":
                    r.oracle_failure(rec["case"], f"{form}: panic {res!r}", f"lifecycle:{form}:panic")
                elif cls == "f":
                    for mk in res[2:].split("+"):
                        kp = mk.split(":", 1)
                        mpath = untilde(kp[1]) if len(kp) == 2 else None
                        if not roots:
                            r.oracle_failure(rec["case"], f"{form}: the configured base {unpct(ctx.lcbase[(scn, sp)])!r} has not existed since the loader was built, yet the loader returned {mk!r} (cwd {untilde(rec['cwd'])!r})",
                                             f"lifecycle:{form}:content-without-base")
                        elif mpath is None or not any(beneath(mpath, root) for root in roots):
                            r.oracle_failure(rec["case"], f"{form}: loader returned {mk!r}, not beneath the configured base {sorted(roots)} (cwd {untilde(rec['cwd'])!r})",
                                             f"lifecycle:{form}:outside-base")
                elif cls not in ("nf", "e"):
                    broken(r, "unexpected-result", f"unexpected harness result {res!r} on {rec['case']}")
        # Environment::templates after each phase
        for ph in sorted({rec["phase"] for rec in recs}):
            for n, res in ctx.lct.get((scn, sp, ph), {}).items():
                for mk in (res[2:].split("+") if res.startswith("f:") else [res]):
                    kp = mk.split(":", 1)
                    if len(kp) != 2 or not any(beneath(untilde(kp[1]), root) for root in roots):
                        r.oracle_failure(f"lct {scn} {ph} {sp} {n}", f"Environment::templates lists {mk!r}, not beneath the configured base {sorted(roots)}",
                                         "lifecycle:templates:outside-base")

    # correspondence with the Lean model of loader + store
    if model is not None:
        for (kind, scn, sp, ph, recs), m in zip(jobs, model):
            answers, _, store = m.partition(" | ")
            answers = answers.split(" ") if answers else []
            if len(answers) != len(recs):
                r.broken.append(f"lifecycle history {kind} {scn} {sp}: model answered {len(answers)} of {len(recs)} requests")
                continue
            if kind == "main":
                forms = [x for x in LC_FORMS if x not in ("joincb", "arr")]
            else:
                forms = [kind]
            for rec, want in zip(recs, answers):
                if kind == "main" and rec["phase"] != ph:
                    continue       # earlier phases were compared with their own prefix
                for form in forms:
                    got = norm_res(rec.get(form, "missing-field"))
                    if got != want:
                        r.model_disagreement(rec["case"] + " [" + form + "]", f"loader answered {got!r}", f"model (configured base, disk at load time, store) answers {want!r}")
            if kind == "main":
                want_store = dict(x.split("=", 1) for x in store.split(";") if x)
                got_store = {n: res[2:] for n, res in ctx.lct.get((scn, sp, ph), {}).items() if unpct(n) != "inc"}
                if want_store != got_store:
                    diff = sorted(set(want_store.items()) ^ set(got_store.items()))[:3]
                    r.model_disagreement(f"lct {scn} {ph} {sp}", f"Environment::templates differs from the model's store: {diff}", "")
    r.sample({"case": next(iter(ctx.lc.values()))[0]["case"], "loader": {k: v for k, v in next(iter(ctx.lc.values()))[0].items() if k not in ("case",)}})
    ctx.lc, ctx.lct, ctx.lcclear = {}, {}, set()


_hexstr = re.compile(r'"((?:\\x[0-9a-f]{2})*)"')


def check_syscalls(r, exe):
    """syscall-level oracle: the loader is run under strace; between the two sentinel probes that
    bracket a request, the only path the process may hand to the kernel is the one
    safe_join(configured base, name) designates (model: Loader.reads), opened once; any open of a
    path outside the base is a violation however the code that did it is spelled"""
    import shutil, tempfile
    if shutil.which("strace") is None:
        r.extra["syscall_oracle"] = "skipped: strace not available"
        return
    fd, trace_path = tempfile.mkstemp(prefix="mjc17-", suffix=".strace")
    os.close(fd)
    try:
        rc, out, err = r.harness("strace", ["-f", "-xx", "-s", "65536", "-e", "trace=file", "-o", trace_path, exe, "trace", r.tier])
        if rc != 0:
            r.broken.append(f"strace/harness trace run exited {rc}: {err[-300:]}")
            return
        trace = open(trace_path, errors="replace").read().splitlines()
    finally:
        os.remove(trace_path)
    bases, reqs = {}, {}
    for line in out.splitlines():
        if line.startswith("#base"):
            f = line.split(" ")
            bases[f[1]] = unpct(f[2])
        elif line.startswith("tr "):
            case, res = line.split("\t", 1)
            idx, hook, result = res.split(" ", 2)
            reqs[int(idx)] = (case, hook, result)
    base_canon = os.path.realpath(bases["abs"])
    cwd = os.path.dirname(base_canon)
    seen, cur = {}, None
    for line in trace:
        m = re.match(r"^\d+\s+(\w+)\(", line)
        if not m:
            continue
        sysname = m.group(1)
        paths = [bytes.fromhex(x.replace("\\x", "")).decode("utf-8", "surrogateescape") for x in _hexstr.findall(line)]
        if any(p.startswith("/MJ17-B/") for p in paths):
            cur = int([p for p in paths if p.startswith("/MJ17-B/")][0][8:])
            seen[cur] = []
        elif any(p.startswith("/MJ17-E/") for p in paths):
            cur = None
        elif cur is not None:
            seen[cur] += [(sysname, p) for p in paths if p != ""]
    if len(seen) != len(reqs):
        r.broken.append(f"syscall oracle: {len(reqs)} requests but {len(seen)} bracketed spans in the trace")
    for idx, (case, hook, result) in reqs.items():
        name = unpct(case.split(" ")[2])
        r.count(case, nontrivial_name(name))
        r.hist["stream"]["tr"] += 1
        got = seen.get(idx, [])
        hook_p = unpct(hook[1:]) if hook.startswith("+") else None
        want = [("openat", hook_p)] if hook_p is not None and "\0" not in hook_p else []
        r.hist["syscalls-per-request"][len(got)] += 1
        for sysname, p in got:
            q = p if p.startswith("/") else cwd + "/" + p
            ab, st = lex(q)
            if not beneath(lex_str(ab, st), base_canon):
                if sysname in ("open", "openat", "openat2", "creat"):
                    r.oracle_failure(case, f"while serving this name the loader opened {p!r}, which is outside the base {base_canon!r}", "syscall:open-outside-base")
                else:
                    r.model_disagreement(case + " [syscall]", f"{sysname}({p!r}) outside the base", f"model: the loader touches only {want}")
        if got != want:
            r.model_disagreement(case + " [syscall]", f"file-system calls {got[:4]}", f"model (Loader.reads): {want}")
        if result.startswith("f:"):
            for mk in result[2:].split("+"):
                kp = mk.split(":", 1)
                if len(kp) != 2 or kp[0] != "B" or not beneath(untilde(kp[1]), base_canon):
                    r.oracle_failure(case, f"loader returned content that is not a file beneath the base: {mk!r}", "trace:outside-base")
        elif result.startswith("panic"):
            r.oracle_failure(case, f"panic {result!r}", "trace:panic")
    r.extra["syscall_oracle"] = f"{len(reqs)} requests traced"


def run(r):
    r.rule = ("template names = all '/'-joins of 1..4 (quick; + 20000 sampled 5-joins) or 1..5 (thorough) segments over the alphabet "
              "{'', '.', '..', '...', 'a', '.a', 'a.', 'a..b', 'a\\\\b', '..\\\\a', NUL, '%2e%2e', U+2024 x2, U+FF0E x2, 'a' x 256, 'only_outside.txt' (a plain name that exists in every ancestor of the base, never beneath it)} "
              "+ targeted spellings of canary paths (absolute, climbing, encoded, look-alike separators) + every canary file's base name and its "
              "name relative to each directory above it (plain, rooted, trailing/doubled slashes, below a/ and a/a/; incl. names that exist "
              "only outside the base) + decorated-namesake requests (ghost stems whose only existing spellings are decorated canaries outside "
              "the base) + random char/byte noise; syscall oracle (strace) over targeted names + all 1..2-segment (quick) / 1..3-segment "
              "(thorough) alphabet names + noise, via the loader closure (absolute base) and {% include %} (relative base); loader forms: get_template, include, import, from-import, extends, include list, "
              "documented join callback, State::get_template from a function, include in a macro, include in a loader-backed template, "
              "Environment::templates; lifecycle stream: 10 scenarios (base exists / created after construction / never exists / removed and "
              "recreated / removed / clear_templates / chdir between construction and loads x3 / empty and '.' base) x 7 spellings of the "
              "base x 46 names x 12 forms (the 10 + AutoReloader with and without reload), canaries relative to every working directory; "
              "each name against the scratch tree's base (absolute spelling) and one of 12 other bases (4 more spellings of the "
              "scratch base, 8 disk-free bases) in rotation; a name is non-trivial when it contains '/', '.' or '\\\\'")
    r.assumptions = ["Unix path semantics (separator '/', no prefixes); symbolic links inside the base are out of scope per the statement",
                     "the syscall oracle needs strace (skipped and recorded in the evidence when it is not installed)",
                     "names longer than 5 segments behave as the model predicts (proved for the model for every name and base)"]
    r.regen_tables(needed=["C17_SAFE_JOIN_RULES", "C17_PATH_LOADER_SHAPE", "C17_LOADER_ENTRY_SITES"])
    r.lean_prove("MJ.Props.C17", "MJ/Audit/C17.lean", extra_targets=["drive_c17"])
    exe = r.cargo_build("c17")
    if exe is None:
        return
    n = 1 if r.tier == "quick" else 16
    ctx = Ctx()
    for k in range(n):
        rc, out, err = r.harness(exe, ["gen", r.tier, str(k), str(n)])
        if rc != 0:
            r.broken.append(f"harness c17 exited {rc}: {err[-300:]}")
            return
        lines = out.split("\n")
        if lines and lines[-1] == "":
            lines.pop()
        del out
        minp = "\n".join(l for l in lines if l.startswith(("sj ", "push ", "comps "))) + "\n"
        model = r.driver("drive_c17", minp)
        del minp
        if model is not None and any(m == "bad-case" for m in model):
            r.broken.append("model driver could not parse some case lines")
        check_lines(r, ctx, lines, model)
        check_templates_listing(r, ctx)
        check_lifecycle(r, ctx)
        if n > 1:
            r.log(f"chunk {k + 1}/{n}: evaluations {r.evaluations}")
    check_syscalls(r, exe)
    r.exhaustive = (r.tier == "thorough")
    r.extra["scratch_tree"] = ctx.tree
    if ctx.tree and "/mjc17-" in ctx.tree and ctx.tree.endswith("/tree"):
        import shutil
        shutil.rmtree(os.path.dirname(ctx.tree), ignore_errors=True)
    found = sum(v for k, v in r.hist["loader:get"].items() if k == "found")
    if found == 0 or r.hist["safe_join"]["some"] == 0 or r.hist["safe_join"]["none"] == 0:
        r.broken.append("vacuous run: the loader never returned a file, or safe_join never accepted / never rejected a name")


def replay(r, path):
    d = json.load(open(path))
    exe = r.cargo_build("c17")
    for case in [d.get("case")] + d.get("more_cases", []):
        if not case:
            continue
        case = case.split(" [")[0]
        if case.startswith("tr "):
            case = "ld " + case[3:]
        rc, out, err = r.harness(exe, ["one"] + case.split(" "))
        print("engine:", out.strip())
        f = case.split(" ")
        if f[0] == "ld":
            # the loader streams are judged against safe_join's model for the same base and name
            rc, out2, err = r.harness(exe, ["bases"])
            bases = {l.split(" ")[1]: l.split(" ")[2] for l in out2.splitlines() if l.startswith("#base")}
            mcase = f"sj {bases.get(f[1], '')} {f[2]}"
            model = r.driver("drive_c17", mcase + "\n")
            print("model:", mcase, "->", model[0] if model else None)
        else:
            model = r.driver("drive_c17", case + "\n")
            print("model:", model[0] if model else None)
            if f[0] == "sj":
                print("python:", repr(py_safe_join(unpct(f[1]), unpct(f[2]))))
    rc, out2, err = r.harness(exe, ["bases"])
    tree = [unpct(l.split(" ")[1]) for l in out2.splitlines() if l.startswith("#tree")]
    if tree and "/mjc17-" in tree[0] and tree[0].endswith("/tree"):
        import shutil
        shutil.rmtree(os.path.dirname(tree[0]), ignore_errors=True)
    return 0
