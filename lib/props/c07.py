"""C07 — Value order/equality/hash laws and the algebra of the collection filters (DESIGN.md §3 C07)."""
import json, os, collections
import concurrent.futures
from common import sh, LEAN

READY = True

META = {
    "technique": "Lean 4 proof (Value::cmp = compare on an explicit linearly ordered key for all values incl. floats at bit level; == <=> Equal and == => same hash items outside the bool-vs-number region; algebra of sort/unique/groupby/dictsort/batch/slice/reverse/min/max/select/in/sum/zip/chain/items/list for every list and every total preorder, keys by attribute paths and composite keys; invalid values, object identity and custom_cmp; derived dictionaries: a merged dictionary finds exactly what it lists, dict(m) keeps every entry; C07_main assembles the property with its named exclusions) + differential correspondence of the model on all ordered pairs of a boundary value zoo and on the filter outputs under three builds of the engine (BTreeMap, IndexMap, unicode), sharded over the cores",
    "category": "proof",
    "text": "Kernel-checked theorems about a Lean transcription of impl Ord/PartialEq/Hash for Value: cmp_refines_key (cmpV a b = lexicographic compare of explicit token keys, hence reflexive/antisymmetric/transitive/total/congruent) for every value whose numbers are in range - integers of all four widths, floats as 64-bit patterns with int/float comparisons proved exact through the concrete round-to-nearest-even `as f64` and saturating `as int` casts, strings, bytes, sequences, tuples, iterables, maps, plain objects, nested arbitrarily; C07_partial (== <=> cmp = Equal, == => equal hash items) for NaN-free values with BTreeMap-ordered maps outside the region `a bool faces a number`, where C07_counterexample shows the full statement false on the code (true == 1, cmp = Less, hashes differ: a known finding pinned by the existing tests); invalid values (total order on (kind, detail) that agrees with == and Hash), plain objects with object identity and a user custom_cmp (== <=> Equal; total order among objects of one type; counterexample across types), the identity short-cut returns the structural answer; filter theorems over an arbitrary item type and total preorder and their instances on values as filters.rs writes them: sort / dictsort / unique / groupby keyed by an attribute, a dotted attribute path with index parts, or several paths (composite key = lexicographic), min / max, select / reject with the comparison tests, in, map literals, sum (= the fold of the C08 integer addition from 0), zip, chain (associative, lengths add, indexing = indexing the concatenation; chained dicts), items <-> dict round trip, list, the pycompat dict.get/keys/values/items and list.count, the sameas test, Value::reverse arm by arm (reverse_counterexample: the RevIter arm is forward - a known finding pinned by test_reverse; reverse_partial for every other arm), derived dictionaries generic in the comparison (MJ.CollD: merge_lookup_iff_listed = `merged[k]` / `k in merged` succeed exactly for the probes Equal to a listed key, whatever the entries hold, needing only reflexivity and transitivity of Equal on the keys present; merged_dict_lists_operand_keys; dictCopy_perm = dict(m) is a permutation of the entries of m when the keys are pairwise not Equal; merged_dict_lists_key_once / dict_copy_sorted = strictly increasing listings; dict_copy_is_from_pairs = dict(m) is the map from_pairs builds; dict_update_last_wins; namespace_keeps_string_entries / namespace_lookup_iff = namespace(m) holds exactly the string-keyed entries, a bytes probe finds nothing; merged_dict_old_lookup_counterexample and dict_collect_loses_entry show the two pre-fix versions violate the laws), the IndexMap build's own theorems (indexmap_insert_keeps_insertion_order: iteration order is insertion order, an existing key keeps its place and spelling; indexmap_get_after_insert_new; indexmap_lookup_sound / indexmap_lookup_complete: lookup = same hash items and ==), strings (string_order_is_lexicographic: the order of two strings is the byte-wise lexicographic order of their texts; string_prefix_is_smaller: a proper prefix is strictly smaller whatever byte follows; string_cmp_independent_of_repr: every pair of representations - inline / heap, normal / safe - compares and tests equal like the texts; padded_buffer_order_counterexample: comparing the zero-padded inline buffers is not that order; string_arms_tie: the arms as regenerated from the source), and C07_main (one theorem: order laws, == <=> Equal and == => same hash under the named exclusions NoNaN / SortedMaps / noClash with C07_counterexample for the excluded region, the filter algebra for every list and total preorder, reverse per arm with reverse_counterexample, min / max, derived dictionaries). Ties to /repo: regenerated tables (kind order, cmp_kind aliases, small-map scan threshold, hash zero kinds, query_len arms, the arms of Value::reverse, which comparison helper every collection filter calls with which flags, how dict(m) / MergeDict / namespace(m) / `in` build and query derived dictionaries) and the correspondence: every ordered pair of a ~360-value boundary zoo and of seeded random nested values through Value::cmp, == and Hash and through the Lean model, the laws themselves evaluated directly on the implementation's answers (rank criterion for the total preorder, == vs Equal, == vs hash, template operators / in / dict lookup), the filter laws on the outputs for all lists of length <= 5 over three 7-value alphabets (numbers/strings, strings/bytes, undefined/bool/list/tuple/map/object items) given as list, tuple, lazy iterable, VecDeque, user sequence object, map (its keys), string (its characters), with every keyword option, long random lists, every lookup entry point x 13 map backings x 7 sizes, reverse/first/last/list/length on 52 container shapes (every repr x enumerator variant), the model-compared filter / sum / zip / chain / items / list / sameas / pycompat cases, and the derived-map stream `dm` (every base map of <= 2 keys over a 10-key alphabet - true next to 1, false next to 0, string / bytes / none / NaN / list keys - x 4 value patterns with undefined and none values x 4 backings, through dict(m), dict(m, k=v), dict(**m), namespace(m), chain, merge_maps and seeded nestings of those: listing vs `in` vs subscript vs |items vs |length vs len(), copies keep the entries and are == their source, merges keep the keys, two instances agree in == / cmp / hash); all of it under the BTreeMap build and the IndexMap build, the filter streams also under the unicode build (cmp_helper via unicase).",
    "design_ref": "DESIGN.md §3 C07",
    "level_note": "Trusted: Lean kernel; hand transcription of value/mod.rs (Ord, PartialEq, Hash, cmp_f64*, cmp_uncoercible_numbers, reverse, get_path), ops.rs (coerce, as_f64, contains), argtypes.rs (integer TryFrom) into MJ/Model/{CmpF64,Value,Cmp}.lean and of filters.rs (batch, slice, sort, unique, groupby, dictsort, min, max, reverse, sum, zip, chain, items, list, select/reject), merge_object.rs, tests.rs (sameas, comparison tests), pycompat.rs into MJ/Model/{Coll,CollV,CollX}.lean, validated by the correspondence (exhaustive over the zoo pairs and the enumerated words, not over all values); IEEE-754 semantics of the f64 primitives; Rust's stable sort_by is taken to be the unique stable sort (List.mergeSort), BTreeMap/BTreeSet lookups to find an element iff one compares Equal; invalid values and objects with identity / custom_cmp are modelled at top level only (nested inside containers their pairs are law-checked, not model-compared); a user custom_cmp is assumed to be `compare` on some key (the contract Ord needs; across object types the engine's fallback to renderings is not an order, shown by counterexample); float items of `sum` are outside the model (integer sums are the C08 model); `chain` indexing is modelled for operands of known length; case folding is ASCII in the model (str::to_lowercase / unicase are parameters; the alphabets are ASCII); under preserve_order (IndexMap) the == / hash theorems do not apply (insertion-order findings).  MOVED FROM VALIDATED TO PROVED in session 4: MergeDict (chain of dictionaries, layered contexts) lookup vs listing and the copy dict(m) were law-checked by nothing (the two fixes 276e6ac / 79eda21 were found by laws that were lost); they are now a generic Lean model (MJ.Model.CollD, mirrored by CollX.chainGet in the driver) with theorems for EVERY comparison that is reflexive with a transitive Equal, instantiated on cmpV, executed against the engine by the `chain mapu` correspondence cases, and law-checked on the engine by the `dm` stream.  namespace(m) (string keys only, fix 903639e) and dict(m, k=v) have theorems too; under preserve_order the IndexMap variants now have theorems of their own (insertion order, lookup by hash + ==) instead of only exclusions, while == <=> Equal stays false there (recorded insertion-order findings).  STILL ONLY VALIDATED: dict(**m) and nestings of derived maps (law-checked by `dm`, not modelled); HashMap-backed and user-defined map objects as operands (their own lookups are outside the model).  The quick tier samples the words of length 5 (1 in 8) and of length 4 over the second / third alphabet (1 in 4) by VERIF_SEED; all words of length <= 4 (<= 3) stay exhaustive; thorough enumerates everything.",
}

KINDS = {"u": "Undefined", "n": "None", "t": "Bool", "f": "Bool", "U64": "Number", "I64": "Number", "U128": "Number",
         "I128": "Number", "F": "Number", "Ss": "String", "Sn": "String", "Sf": "String", "Y": "Bytes", "P": "Plain",
         "us": "Undefined", "C": "Plain", "X": "Invalid"}
CLOSE = {"[": "]", "(": ")", "<": ">"}
CLASS = {"[": "Seq", "(": "Tuple", "<": "Iterable"}


def parse(enc):
    """encoding -> tree: ('atom', kind, text) | ('list', class, [children]) | ('map', [(k, v)])"""
    pos = 0

    def go():
        nonlocal pos
        c = enc[pos]
        if c in CLOSE:
            cls, close = CLASS[c], CLOSE[c]
            pos += 1
            if (c == "<" and enc[pos] in "?!") or (c == "[" and enc[pos] == "="):
                pos += 1
            elif c == "[" and enc[pos] == "@":
                cls = {"s": "Seq", "i": "Iterable"}.get(enc[pos + 1], "Seq")
                pos += 6
            items = []
            if enc[pos] == close:
                pos += 1
                return ("list", cls, items)
            while True:
                items.append(go())
                d = enc[pos]
                pos += 1
                if d == close:
                    return ("list", cls, items)
        if c == "{":
            pos += 1
            user = enc[pos] in "=@#"
            if enc[pos] == "@":
                pos += 6
            elif user:
                pos += 1
            ps = []
            if enc[pos] == "}":
                pos += 1
                return ("map", ps, user)
            while True:
                k = go()
                pos += 1  # ':'
                v = go()
                ps.append((k, v))
                d = enc[pos]
                pos += 1
                if d == "}":
                    return ("map", ps, user)
        st = pos
        while pos < len(enc) and enc[pos] not in ",:]})>":
            pos += 1
        a = enc[st:pos]
        return ("atom", KINDS[a.split(".")[0]], a)

    t = go()
    assert pos == len(enc), enc
    return t


def unparse(t):
    if t[0] == "atom":
        return t[2]
    if t[0] == "list":
        o = {"Seq": "[", "Tuple": "(", "Iterable": "<"}[t[1]]
        return o + ",".join(unparse(x) for x in t[2]) + CLOSE[o]
    return ("{=" if len(t) > 2 and t[2] else "{") + ",".join(unparse(k) + ":" + unparse(v) for k, v in t[1]) + "}"


def is_nan_atom(a):
    if not a.startswith("F."):
        return False
    bits = int(a[2:], 16)
    return (bits & 0x7FFFFFFFFFFFFFFF) > 0x7FF0000000000000


def has_nan(t):
    if t[0] == "atom":
        return is_nan_atom(t[2])
    if t[0] == "list":
        return any(has_nan(x) for x in t[2])
    return any(has_nan(k) or has_nan(v) for k, v in t[1])


def _num_of_atom(a):
    """numeric value of an integer / float atom that is == to a Bool (0 or 1), else None"""
    k, _, txt = a.partition(".")
    try:
        if k in ("I64", "U64", "I128", "U128"):
            v = int(txt)
            return v if v in (0, 1) else None
        if k == "F":
            bits = int(txt, 16)
            return {0x0: 0, 0x8000000000000000: 0, 0x3FF0000000000000: 1}.get(bits)
    except ValueError:
        pass
    return None


def layout_dependent(t):
    """does the value contain a map with a Bool key and a numeric key that is == to it?  (under
    preserve_order such a map is one entry or two depending on the hash state of the instance)"""
    if t[0] == "atom":
        return False
    if t[0] == "list":
        return any(layout_dependent(x) for x in t[2])
    bools = {1 if k[2] == "t" else 0 for k, _ in t[1] if k[0] == "atom" and k[2] in ("t", "f")}
    nums = {_num_of_atom(k[2]) for k, _ in t[1] if k[0] == "atom"} - {None}
    if bools & nums:
        return True
    return any(layout_dependent(k) or layout_dependent(v) for k, v in t[1])


def layout_dependent_case(case):
    f = case.split(" ")
    if f[0] not in ("pairv", "valv", "triple"):
        return False
    for enc_ in f[1:]:
        if enc_ == "?":
            continue
        try:
            if layout_dependent(parse(enc_)):
                return True
        except Exception:
            pass
    return False


def top_kind(t):
    if t[0] == "atom":
        return t[1]
    if t[0] == "list":
        return t[1]
    return "Map"


def canon(t):
    """spelling of a value up to the representation of its numbers and strings (1 / 1.0 / U64 1, small / Arc / safe
    strings): two maps hold `the same entries` when their entries agree in this spelling"""
    if t[0] == "atom":
        k, _, txt = t[2].partition(".")
        try:
            if k in ("I64", "U64", "I128", "U128"):
                return "num:%d" % int(txt)
            if k == "F":
                bits = int(txt, 16)
                if (bits & 0x7FFFFFFFFFFFFFFF) < 0x7FF0000000000000:
                    import struct
                    x = struct.unpack(">d", struct.pack(">Q", bits))[0]
                    if x == int(x):
                        return "num:%d" % int(x)
                return "flt:" + txt
            if k in ("Ss", "Sn", "Sf"):
                return "str:" + txt
        except (ValueError, OverflowError):
            pass
        return t[2]
    if t[0] == "list":
        o = {"Seq": "[", "Tuple": "(", "Iterable": "["}[t[1]]
        return o + ",".join(canon(x) for x in t[2]) + "]"
    return "{" + ",".join(sorted(canon(k) + ":" + canon(v) for k, v in t[1])) + "}"


def first_diff(a, b):
    """kinds of the innermost pair of sub-values at which two encodings first differ"""
    if a[0] == "list" and b[0] == "list" and (a[1] == "Tuple") == (b[1] == "Tuple"):
        for x, y in zip(a[2], b[2]):
            if unparse(x) != unparse(y):
                return first_diff(x, y)
        if len(a[2]) != len(b[2]):
            return "length"
        return "~".join(sorted([a[1], b[1]]))
    if a[0] == "map" and b[0] == "map":
        if sorted(canon(k) + ":" + canon(v) for k, v in a[1]) == sorted(canon(k) + ":" + canon(v) for k, v in b[1]):
            # the same entries: the two maps can only differ in the order they iterate in (insertion
            # order of an IndexMap or of a user-defined map object vs. key order of a BTreeMap)
            return "map-insertion-order"
        for (k1, v1), (k2, v2) in zip(a[1], b[1]):
            if unparse(k1) != unparse(k2):
                return first_diff(k1, k2)
            if unparse(v1) != unparse(v2):
                return first_diff(v1, v2)
        return "length"
    return "~".join(sorted([top_kind(a), top_kind(b)]))


REV = {"L": "G", "G": "L", "E": "E", "P": "P"}
LK_ENTRIES = ["get_item", "subscript", "in", "iter-keys", "items", "dictsort", "get_attr", "dot", "get_path", "map-attr",
              "selectattr", "rejectattr", "groupby", "sort-attr", "unique-attr", "get_item_by_index", "context-var",
              "py-get", "py-keys", "py-items", "attr-filter"]
# which `Enumerator` variant is behind each container shape of the `rev` stream
ENUM_OF = {"vec": "Seq", "tuple": "Iter|Seq|Empty", "iter": "Iter", "sized": "Iter", "once": "Iter", "deque": "Seq", "llist": "RevIter",
           "bset": "RevIter", "hset": "Iter", "vmap": "RevKeyValueIter", "hmap": "KeyValueIter", "bstrmap": "RevKeyValueIter",
           "hstrmap": "KeyValueIter", "omap": "Values", "oseq": "Seq", "strkeys": "Str", "empty": "Empty", "plain": "NonEnumerable",
           "string": "str", "safestring": "str", "bytes": "bytes"}
HINT_ENUM = {"q": "Seq", "v": "Values", "t": "Iter", "r": "RevIter", "k": "KeyValueIter", "j": "RevKeyValueIter", "e": "Empty"}


def enum_of(shape):
    """the `Enumerator` variant behind a container shape of the `rev` stream (`h<cfg>` = a user object, cfg[1] = variant)"""
    if len(shape) == 5 and shape[0] == "h":
        return HINT_ENUM.get(shape[2], "?")
    return ENUM_OF.get(shape, "?")


# how many processes each part of the harness is split into (every part is self-contained)
PARTS = ["zoo", "tpl", "flist", "flistB", "long", "rev", "lk", "rand", "hint", "fv", "runs", "xf", "dm"]
SHARDS = {"quick": {"zoo": 2, "tpl": 2, "flist": 4, "flistB": 2, "long": 3, "rev": 1, "lk": 4, "rand": 1, "hint": 2, "fv": 4, "runs": 1, "xf": 2, "dm": 2},
          "thorough": {"zoo": 8, "tpl": 16, "flist": 16, "flistB": 8, "long": 16, "rev": 4, "lk": 4, "rand": 8, "hint": 8, "fv": 12, "runs": 2, "xf": 6, "dm": 8}}
# the parts that exercise `cmp_helper` (the only code of the property behind the `unicode` feature)
FILTER_PARTS = ["flist", "flistB", "long", "fv"]
MODEL_STREAMS = ("val", "pair", "rval", "rpair", "fa", "fv", "batch", "slicef")


def run_part(r, exe, mode, part, i, n):
    """one shard of one part through the harness and, for the streams the model speaks about, the Lean driver"""
    import time as _time
    t0 = _time.time()
    rc, out, err = r.harness(exe, ["gen", r.tier, part], env={"C07_MODE": mode, "C07_SHARD": f"{i}/{n}"})
    if rc != 0:
        return {"err": f"harness c07 gen {part} shard {i}/{n} exited {rc}: {err[-300:]}", "lines": [], "model": {}, "part": part, "secs": 0}
    lines = out.splitlines()
    drv_lines = [l for l in lines if l.split(" ", 1)[0] in MODEL_STREAMS or l.startswith("lk vm ")]
    model_of = {}
    if drv_lines:
        rc2, out2, err2 = sh([os.path.join(LEAN, ".lake", "build", "bin", "drive_c07"), "index" if mode == "index" else "btree"],
                             inp="\n".join(drv_lines) + "\n", timeout=3000)
        model = out2.splitlines()
        if rc2 != 0 or len(model) != len(drv_lines):
            return {"err": f"model driver output does not line up with the harness cases of part {part} shard {i}/{n} (rc {rc2}: {err2[-200:]})",
                    "lines": lines, "model": None, "part": part, "secs": _time.time() - t0}
        for dl, ml in zip(drv_lines, model):
            model_of[dl.split("\t")[0]] = ml.split("\t")[1] if "\t" in ml else "bad-line"
    return {"err": None, "lines": lines, "model": model_of, "part": part, "secs": _time.time() - t0}


SUM_INTS = {"0": 1, "2": 2, "9": 0, "c": 2 ** 128 - 1, "e": -3, "f": 2 ** 64, "g": 2 ** 63 - 1, "h": 2 ** 127 - 1}


def xf_expect(f):
    """what the defining law of a builtin says for an `fv` case, computed from the case text alone (the letters
    of the words stand for pairwise distinguishable values): zip = item i of every operand until the shortest ends,
    chain = the concatenation (its length known when every operand's is, `[i]` = item i), list = the items,
    sum = the exact integer sum or an error.  None where the law needs the map / equality semantics."""
    w = lambda x: "" if x == "-" else x
    k = f[1]
    if k == "sum":
        acc = 0
        for ch in w(f[2]):
            if ch not in SUM_INTS or not (-2 ** 127 <= SUM_INTS[ch] < 2 ** 127):
                return "err:InvalidOperation"
            acc += SUM_INTS[ch]
            if not (-2 ** 127 <= acc < 2 ** 127):
                return "err:InvalidOperation"
        return f"ok:{acc}"
    if k in ("zip", "zip3"):
        ws = [w(x) for x in f[2:]]
        n = min(len(x) for x in ws)
        known = str(n) if ws[1] == "" else "-"      # (the second operand is a lazy iterable: length known only when empty)
        return "ok:" + ",".join("".join(x[i] for x in ws) for i in range(n)) + f" len={known} tuples=1"
    if (k == "chain" and f[2] in ("seq", "tuple", "mixed")) or k == "chain3":
        kind, ws = (f[2], [w(x) for x in f[3:]]) if k == "chain" else ("seq", [w(x) for x in f[2:]])
        allw = "".join(ws)
        ln = "-" if (kind == "mixed" and ws[0] != "") else str(len(allw))
        return f"ok:{allw} kind={'Iterable' if kind == 'mixed' else 'Seq'} len={ln} idx={allw}u"
    if k == "list" and f[2] in ("seq", "tuple", "iter", "once", "oseq", "omap", "str"):
        return "ok:" + w(f[3])
    if k == "list" and f[2] in ("undef", "none"):
        return "ok:"
    if k == "sameas":
        # identity for objects; for the rest: same kind, both integers or both not, and == (letters: 7 = NaN,
        # a = a list, 3 / d = the string "a" plain / safe; all other letters differ in value, kind or integer-ness)
        a, b, inst = f[2], f[3], f[4]
        if inst == "same":
            return "0" if a == "7" else "1"
        return "1" if ((a == b and a not in "7a") or {a, b} == {"3", "d"}) else "0"
    return None


SPEC_KINDS = {"sort", "sortm", "sortp", "sorti", "dictsort", "unique", "uniquep", "groupby", "groupbyp", "sel", "cin", "lit"}


def strip_labels(groups):
    """`ok:label:ids;label:ids` -> the member lists only (which key spelling labels a group is not a law)"""
    if not groups.startswith("ok:"):
        return groups
    return ";".join(g.split(":", 1)[-1] for g in groups[3:].split(";"))


TPL_NAMES = ["lt", "eq", "in-list", "in-map", "lookup", "le", "gt", "in-map2", "lookup2", "unique", "select-eq"]


def check_mode(r, mode, feats, results):
    """`results`: the outcomes of `run_part` for this build, in part / shard order"""
    lines, model_of, model_ok = [], {}, True
    for res in results:
        if res["err"]:
            r.broken.append(f"[{feats}] " + res["err"])
        lines += res["lines"]
        if res["model"] is None:
            model_ok = False
        else:
            model_of.update(res["model"])
    model = model_of if model_ok else None
    seen_once = set()

    class Zoo:
        def __init__(self, tag):
            self.tag, self.vals, self.trees, self.M, self.tpl, self.skip = tag, {}, {}, {}, {}, set()
    zoo = Zoo("")
    batches = {}
    vals, trees, M, tpl, skip_vals = zoo.vals, zoo.trees, zoo.M, zoo.tpl, zoo.skip
    sfx = {"btree": "", "index": "[preserve_order]"}.get(mode, "[" + mode + "]")

    def pv(i, j):
        return f"pairv {vals[i]} {vals[j]}"

    def handle_val(z, i, enc_, res, case):
        z.vals[i] = enc_
        z.trees[i] = parse(enc_)
        rf = res.split()
        r.count(("val", mode, enc_), True)
        r.hist["zoo-kind" if not z.tag else "random-kind"][rf[0]] += 1
        nan = has_nan(z.trees[i])
        d = dict(x.split("=") for x in rf[1:]) if rf[0] != "panic" else {}
        cv = f"valv {enc_}"
        if rf[0] == "panic":
            r.oracle_failure(cv, f"[{feats}] comparing a value with itself panics", "panic:self")
            return
        want_eq = "0" if nan else "1"
        if d["selfcmp"] != "E" or d["clonecmp"] != "E":
            r.oracle_failure(cv, f"[{feats}] cmp is not reflexive: {res}", "refl:" + rf[0])
        if d["clonehash"] != "1" and "<!" not in enc_:   # (hashing a one-shot iterator consumes it)
            r.oracle_failure(cv, f"[{feats}] a clone hashes differently: {res}", "clone-hash:" + rf[0])
        if not nan and (d["selfeq"] != want_eq or d["cloneeq"] != want_eq):
            r.oracle_failure(cv, f"[{feats}] == is not reflexive: {res}", "eq-refl:" + rf[0])
        # a reported length is the number of items a walk yields; truthiness is `len != Some(0)`
        if "<!" not in enc_ and d.get("ilen", "-") != "-" and d.get("icount", "-") != "-":
            r.hist["length-law"]["checked"] += 1
            if d["ilen"] != d["icount"]:
                r.oracle_failure(cv, f"[{feats}] the value reports length {d['ilen']} but iterating it yields {d['icount']} items", "len-vs-count:" + rf[0])
            elif d.get("truthy") != ("0" if d["icount"] == "0" else "1"):
                r.oracle_failure(cv, f"[{feats}] truthiness {d.get('truthy')} of a value with {d['icount']} items and a known length", "truthy-vs-count:" + rf[0])
        m = model_of.get(case)
        if m is not None and m != "nomodel":
            mf = m.split()
            md = dict(x.split("=") for x in mf[1:]) if len(mf) > 1 else {}
            if mf[0] != rf[0]:
                r.model_disagreement(cv, res, m)
            elif md.get("len") != d.get("len") and d.get("len", "-") not in ("?", "-") and enc_.startswith("{") and enc_[1:2] not in ("=", "@", "#"):
                # the map does not hold the pairs it was built from (keys pairwise non-Equal under Ord)
                z.skip.add(i)
                ks = [k for k, _ in z.trees[i][1]]
                fd = first_diff(ks[0], ks[1]) if len(ks) > 1 else "?"
                r.oracle_failure(cv, f"[{feats}] a map built from {md.get('len')} pairs whose keys are pairwise unequal under Ord holds {d.get('len')} entries",
                                 "map-lost-entry:" + fd)
            elif not nan and (md.get("selfeq") != d["selfeq"] or md.get("selfcmp") != d["selfcmp"]):
                r.model_disagreement(cv, res, m)

    def check_matrix(z, keyfmt):
        """the order / equality / hash laws on the full matrix of one zoo, and the model correspondence"""
        vals, trees, M, skip = z.vals, z.trees, z.M, z.skip
        def pvz(i, j):
            return f"pairv {vals[i]} {vals[j]}"
        kind = {i: top_kind(trees[i]) for i in vals}
        nan = {i: has_nan(trees[i]) for i in vals}
        for (i, j), toks in M.items():
            c, e, h = toks[:3]
            r.count(("pair", mode, vals[i], vals[j]), i != j)
            r.hist["cmp"][c] += 1
            if not z.tag:
                r.hist["pair-kinds"]["~".join(sorted([kind[i], kind[j]]))] += 1
            if i in skip or j in skip:
                continue
            c2, e2, h2 = M[(j, i)][:3]
            fd = None

            def site(law):
                nonlocal fd
                if fd is None:
                    fd = first_diff(trees[i], trees[j])
                return f"{law}:{fd}"
            if "P" in (c, e, h):
                r.oracle_failure(pvz(i, j), f"[{feats}] cmp/==/hash panics: {c} {e} {h}", site("panic"))
                continue
            for extra in toks[3:]:
                r.oracle_failure(pvz(i, j), f"[{feats}] the derived operators of PartialOrd/PartialEq disagree with cmp/==: {extra}", site("derived-op:" + extra))
            if c2 != REV[c]:
                r.oracle_failure(pvz(i, j), f"[{feats}] cmp(a,b)={c} but cmp(b,a)={c2}", site("antisym"))
            if e != e2:
                r.oracle_failure(pvz(i, j), f"[{feats}] (a==b)={e} but (b==a)={e2}", site("eq-sym"))
            if not (nan[i] or nan[j]) and (e == "1") != (c == "E"):
                r.oracle_failure(pvz(i, j), f"[{feats}] (a==b)={e} but cmp(a,b)={c}", site("eq-vs-cmp"))
            if e == "1" and h != "1":
                r.oracle_failure(pvz(i, j), f"[{feats}] a==b but the hashes differ", site("eq-vs-hash"))
            m = model_of.get(keyfmt.format(i=i, j=j))
            ck = "correspondence" + ("-random" if z.tag else "") + sfx
            if m is not None:
                mf = m.split()
                if m == "nomodel":
                    r.hist[ck]["not modelled (custom_cmp / invalid values): laws only"] += 1
                elif len(mf) == 4 and mf[3] == "h":
                    r.hist[ck]["hash-layout-dependent (skipped)"] += 1
                elif mf[:3] != [c, e, h]:
                    r.model_disagreement(pvz(i, j), f"{c} {e} {h}", m)
                else:
                    r.hist[ck]["agree"] += 1
        # a total preorder is exactly an order induced by a rank function: rank = number of strictly smaller
        idx = [i for i in sorted(vals) if i not in skip]
        if any((i, j) not in M for i in idx for j in idx):
            r.broken.append(f"[{feats}] pair matrix of zoo `{z.tag}` is incomplete")
            return idx
        rank = {i: sum(1 for j in idx if M[(i, j)][0] == "G") for i in idx}
        bad = []
        for i in idx:
            for j in idx:
                want = "L" if rank[i] < rank[j] else "G" if rank[i] > rank[j] else "E"
                if M[(i, j)][0] != want:
                    bad.append((i, j))

        def viol(x, y, zz):
            cxy, cyz, cxz = M[(x, y)][0], M[(y, zz)][0], M[(x, zz)][0]
            if cxy in "LE" and cyz in "LE":
                return cxz != ("E" if cxy == "E" and cyz == "E" else "L")
            return False
        for (i, j) in bad[:50]:
            wit = None
            for k in idx:
                if any(viol(*p) for p in ((i, j, k), (i, k, j), (j, i, k), (j, k, i), (k, i, j), (k, j, i))):
                    wit = k
                    break
            ks = sorted({kind[i], kind[j]} | ({kind[wit]} if wit is not None else set()))
            what = f"[{feats}] cmp is not transitive: cmp(a,b)={M[(i, j)][0]}"
            if wit is not None:
                what += f", cmp(a,c)={M[(i, wit)][0]}, cmp(c,b)={M[(wit, j)][0]}, cmp(b,c)={M[(j, wit)][0]}"
            r.oracle_failure(f"triple {vals[i]} {vals[j]} {vals[wit] if wit is not None else '?'}", what, "trans:" + "~".join(ks))
        r.count(("rank-check", mode, z.tag), True, n=len(idx) ** 2)
        return idx

    # ---------------------------------------------------------------- parse + per-line checks
    for line in lines:
        case, res = line.split("\t", 1)
        f = case.split()
        st = f[0]
        if st in ("val", "fa") or (st == "rval" and f[1] == "h"):
            # every shard of a part repeats the lines that register its values with the driver
            if case in seen_once:
                continue
            seen_once.add(case)
        r.hist["stream" + sfx][st] += 1
        if st == "val":
            handle_val(zoo, int(f[1]), f[2], res, case)
        elif st == "rval":
            z = batches.setdefault(f[1], Zoo("r" + f[1]))
            handle_val(z, int(f[2]), f[3], res, case)
        elif st == "rpair":
            batches[f[1]].M[(int(f[2]), int(f[3]))] = res.split()
        elif st == "rtpl":
            batches[f[1]].tpl[(int(f[2]), int(f[3]))] = res
        elif st == "fa":
            pass
        elif st == "fv":
            r.count((st, mode, case), len(f) > 2 and len(f[-1] if f[1] not in ("sel", "cin") else f[-2]) >= 2)
            r.hist["fv-filter" + sfx][f[1]] += 1
            r.hist["fv-result"][res.split(":")[0] if ":" in res else res] += 1
            if res == "panic":
                r.oracle_failure(case, f"[{feats}] {f[1]} panics", f"panic:fv:{f[1]}")
            if " MISMATCH " in res:
                what = f[2] if f[1] in ("sel", "cin") else ""
                r.oracle_failure(case, f"[{feats}] {f[1]} {what}: the engine answers {res.replace(' MISMATCH ', ' but Value::cmp / == directly give ')}",
                                 f"filter:{f[1]}:{what}")
                res = res.split(" MISMATCH ")[0]
            want = xf_expect(f)
            if f[1] == "items" and res.startswith("ok:") and not res.endswith(" tuples=1"):
                r.oracle_failure(case, f"[{feats}] items: the pairs are not (key, value) tuples: {res[:200]}", "builtin:items:law")
            if want is not None and res != want and res != "panic":
                r.oracle_failure(case, f"[{feats}] {f[1]}: the engine answers {res[:200]} but the defining law gives {want[:200]}", f"builtin:{f[1]}:law")
            m = model_of.get(case)
            if m is not None and m != res:
                r.model_disagreement(case, res, m)
                # where the laws of the property leave exactly one output (the stable sorted permutation, the first
                # occurrences, the partition of the stable sort, the items passing a test, containment, the map a
                # literal builds), the Lean function proved to meet them is the oracle
                if f[1] in SPEC_KINDS and res != "panic":
                    a, b = (strip_labels(res), strip_labels(m)) if f[1].startswith("groupby") else (res, m)
                    if a != b:
                        r.oracle_failure(case, f"[{feats}] {f[1]}: the engine answers {res[:200]} but the only output the laws allow is {m[:200]}",
                                         f"filter:{f[1]}:spec")
        elif st == "pair":
            M[(int(f[1]), int(f[2]))] = res.split()
        elif st == "tpl":
            tpl[(int(f[1]), int(f[2]))] = res
        elif st == "flist":
            rf = res.split(" ", 2)
            n = int(rf[1])
            r.count((st, mode, f[1], f[2]), len(f[2]) >= 2 and f[2] != "-", n=n)
            r.hist["flist-form" + sfx][f[1]] += 1
            r.hist["flist-len"][min(len(f[2]) if f[2] != "-" else 0, 21)] += 1
            if rf[0] != "ok":
                for item in rf[2].split(" || "):
                    head = item.split(" ", 1)[0]           # filter:law
                    r.oracle_failure(case, f"[{feats}] {item[:300]}", "filter:" + head)
        elif st == "rev":
            rf = res.split(" ", 2)
            r.count((st, mode, f[1], f[2]), len(f[2]) >= 2 and f[2] != "-", n=int(rf[1]))
            r.hist["rev-shape"][f[1] + "(" + enum_of(f[1]) + ")"] += 1
            if rf[0] != "ok":
                for item in rf[2].split(" || "):
                    head = item.split(" ", 1)[0]           # filter:law
                    r.oracle_failure(case, f"[{feats}] {f[1]} ({enum_of(f[1])}): {item[:300]}", "filter:" + head + ":" + enum_of(f[1]))
        elif st == "dm":
            # derived maps: listing vs lookup, copies keep the entries, merges the keys, instances agree
            rf = res.split(" ", 2)
            op = f[1].split("(")[0] if "(" in f[1] else "base-" + f[1].split(":")[0]
            r.count((st, mode, f[1]), int(rf[1]) > 0, n=int(rf[1]))
            r.hist["dm-op" + sfx][op] += 1
            if rf[0] != "ok":
                for item in rf[2].split(" || "):
                    head = item.split(" ", 1)[0]           # op:law
                    r.oracle_failure(case, f"[{feats}] derived map: {item[:400]}", "derived-map:" + head)
            elif len(rf) > 2:
                r.hist["dm-skipped"][rf[2].split(":")[0]] += 1
        elif st == "lk":
            backing, nent, kenc, penc = f[1], f[2], f[3], f[4]
            exp, flags = res.split()
            kt, pt = parse(kenc), parse(penc)
            kinds = "~".join(sorted([top_kind(kt), top_kind(pt)]))
            r.count((st, mode, case), kenc != penc, n=sum(1 for c in flags if c != "-"))
            r.hist["lk-backing" + sfx][backing] += 1
            r.hist["lk-size"][nent] += 1
            nanp = has_nan(kt) or has_nan(pt)
            for name, c in zip(LK_ENTRIES, flags):
                if c == "-":
                    continue
                r.hist["lk-entry"][name] += 1
                if c == "P":
                    r.oracle_failure(case, f"[{feats}] lookup entry point `{name}` panics", f"panic:lookup:{name}")
                elif c != exp and not nanp:
                    # bool-vs-number keys: the recorded root cause (== says equal, Ord / Hash do not)
                    site = "lookup-vs-eq:Bool~Number" if kinds == "Bool~Number" else f"lookup-entry:{name}:{kinds}"
                    r.oracle_failure(case, f"[{feats}] {backing} map of {nent} entries with key {kenc}: `{name}` with probe {penc} "
                                     f"answers {c} but (key == probe) is {exp}; all entry points: {dict(zip(LK_ENTRIES, flags))}", site)
            m = model_of.get(case) if backing == "vm" else None
            if m is not None:
                mf = m.split()
                if len(mf) == 3 and mf[2] == "h":
                    r.hist["correspondence" + sfx]["hash-layout-dependent (skipped)"] += 1
                else:
                    md = dict(x.split("=") for x in mf[:2]) if len(mf) >= 2 and "=" in mf[0] else {}
                    gi = flags[LK_ENTRIES.index("get_item")]
                    ga = flags[LK_ENTRIES.index("get_attr")]
                    if md.get("get") != gi or md.get("attr") != ga:
                        r.model_disagreement(case, f"get_item={gi} get_attr={ga}", m)
        elif st in ("batch", "slicef"):
            r.count((st, mode, case), int(f[1]) > 0 and f[2] != "0")
            r.hist[st + "-result"][res.split(":")[0]] += 1
            if res == "panic":
                r.oracle_failure(case, f"[{feats}] {st} panics", f"panic:{st}")
            m = model_of.get(case)
            if m is not None and m != res:
                r.model_disagreement(case, res, m)
    n = len(vals)
    if n == 0:
        if mode in ("btree", "index"):
            r.broken.append(f"[{feats}] harness produced no zoo")
        return
    r.extra["zoo_size"] = n

    # ---------------------------------------------------------------- pair laws + correspondence
    nan = {i: has_nan(trees[i]) for i in vals}
    idx = check_matrix(zoo, "pair {i} {j}")
    for b, z in sorted(batches.items()):
        check_matrix(z, "rpair " + b + " {i} {j}")
    r.extra["random_batches"] = len(batches)
    r.extra["random_values"] = sum(len(z.vals) for z in batches.values())

    # ---------------------------------------------------------------- template operators
    def check_tpl(z):
        vals, trees, M, tpl, skip_vals = z.vals, z.trees, z.M, z.tpl, z.skip
        nan = {i: has_nan(trees[i]) for i in vals}

        def pv(i, j):
            return f"pairv {vals[i]} {vals[j]}"
        for (i, j), t in tpl.items():
            r.count(("tpl", mode, vals[i], vals[j]), i != j, n=len(TPL_NAMES))
            if i in skip_vals or j in skip_vals:
                continue
            c, e, h = M[(i, j)][:3]
            if "P" in (c, e, h):
                continue
            exp = [str(int(c == "L")), e, e, None, None, str(int(c in "LE")), str(int(c == "G")), None, None,
                   str(int(c == "E")), e]
            fd = first_diff(trees[i], trees[j])
            for k, name in enumerate(TPL_NAMES):
                if t[k] == "P":
                    r.oracle_failure(pv(i, j), f"[{feats}] template `{name}` panics", f"panic:tpl-{name}:{fd}")
                elif exp[k] is not None and t[k] != exp[k] and not (name == "select-eq" and (nan[i] or nan[j]) and False):
                    r.oracle_failure(pv(i, j), f"[{feats}] template `{name}` gives {t[k]} but Value::cmp={c}, ==:{e}", f"tpl-{name}:{fd}")
            # a key that is == to the stored key but hashes differently is found or not depending on the
            # hash table layout (random per map): the root cause is reported as lookup-vs-eq
            lsite = "lookup-vs-eq" if (e == "1" and h == "0") else "in-vs-lookup"
            if t[3] != t[4]:
                r.oracle_failure(pv(i, j), f"[{feats}] `a in {{b:1}}` is {t[3]} but `{{b:1}}[a] is defined` is {t[4]}", f"{lsite}:{fd}")
            if not (nan[i] or nan[j]) and t[4] != e:
                r.oracle_failure(pv(i, j), f"[{feats}] `{{b:1}}[a] is defined` is {t[4]} but (a==b)={e}", f"lookup-vs-eq:{fd}")
            # the same with a second entry in the map (an IndexMap hashes only when it has more than one entry)
            if t[7] != t[8]:
                r.oracle_failure(pv(i, j), f"[{feats}] `a in {{b:1,S:2}}` is {t[7]} but `{{b:1,S:2}}[a] is defined` is {t[8]}", f"{lsite}:{fd}")
            if not (nan[i] or nan[j]) and t[8] != e:
                r.oracle_failure(pv(i, j), f"[{feats}] `{{b:1,S:2}}[a] is defined` is {t[8]} but (a==b)={e}", f"lookup-vs-eq:{fd}")
    check_tpl(zoo)
    for b, z in sorted(batches.items()):
        if z.tpl:
            check_tpl(z)
    r.sample({"mode": mode, "pair": [vals[idx[5]], vals[idx[40]]], "cmp eq samehash": M[(idx[5], idx[40])]})
    r.sample({"mode": mode, "pair": [vals[idx[-3]], vals[idx[-4]]], "cmp eq samehash": M[(idx[-3], idx[-4])]})


def run(r):
    r.rule = ("all ordered pairs (A[i], B[j]) of two independently built instances of the boundary zoo through Value::cmp, ==, Hash "
              "(the matrix decides antisymmetry, transitivity via the rank criterion, ==<=>Equal, ==>=same hash), the same pairs through the "
              "template operators < <= > == in and dict lookup; every list of length <=4 (thorough: <=5; quick samples length 5 one in 8 by seed) over 7-value alphabets (A: numbers / strings / none, "
              "B: strings next to utf-8 and non-utf-8 bytes, C: undefined / bool / number / list / tuple / map / plain object items, D: the strings a / a\\0 inline and heap / a\\0\\0 / a\\x01 / safe a / A\\0; plain items, "
              "items wrapped in maps for attribute=, given as list / tuple / sized+unsized iterable / VecDeque / user sequence object / map (keys) / "
              "string (characters) / dict) through sort (no / one / several attributes x reverse x case_sensitive, dotted paths with missing parts) / "
              "dictsort / unique / groupby (with and without default) / batch / slice / reverse / first / last / min / max with all keyword options, "
              "plus long random lists; batch/slice run lengths for len<=14, count<=16 and huge counts against the Lean model; every lookup entry "
              "point (get_item, m[p], in, key iteration, items, dictsort, get_attr, m.name, context variable, get_path, map/selectattr/rejectattr/"
              "groupby/sort/unique with attribute=, get_item_by_index, m.get(p), m.keys(), m.items(), m|attr(p)) on maps of 1, 2, 8, 9, 12, 13, 20 "
              "entries (both sides of the two small-map fast paths) holding one of 22 keys (string / bytes / number / bool / none spellings of the same text, a string with a trailing NUL inline and on the heap) and probed with each of the 22, for ValueMap, "
              "HashMap<Value,_>, BTreeMap/HashMap<String,_>, BTreeMap<Arc<str>,_>, BTreeMap/HashMap<&'static str,_>, the context! map, merged "
              "contexts (key in the first / last source), a namespace object, a user Object and a serde-serialized map; reverse / first / last / "
              "list / length on 52 container shapes (std collections, strings, bytes, user objects of every repr x enumerator variant with exact "
              "and absent size hints); run under BTreeMap and IndexMap, the filter streams also with the `unicode` feature.  "
              "A pair is non-trivial when i != j, a list when it has >=2 items, a lookup case when key and probe differ.  "
              "The zoo holds every string text as &str (inline up to 22 bytes), Arc<str> (heap) and safe string: empty, NULs leading / in the middle / trailing / repeated, "
              "prefixes of each other, 0x01 / 0x7f / 2- 3- 4-byte characters behind a common prefix, 21 / 22 / 23 bytes with and without a trailing NUL or a two-byte character across the inline limit.  "
              "The zoo also holds the silent undefined, one-shot iterators (rebuilt per operation), user objects of every repr "
              "(Seq / Map / Plain with custom_cmp), namespace objects, invalid values, NaN / -0.0 / cmp-equal keys in maps; seeded random nested values "
              "(depth <=4: all scalar kinds incl. random float bit patterns, seq/tuple/iterable/one-shot/user-seq/map/user-map, plus mutated near-copies) "
              "in batches with every ordered pair of a batch through cmp/==/Hash/PartialOrd and the model; sort / unique / groupby / dictsort (also by "
              "paths `p.k`, index paths `0`, composite keys) / select+reject+selectattr+rejectattr with eq ne lt le gt ge / min / max / `in` on seq tuple "
              "iterable one-shot user-seq map user-map / map literals with repeated keys / sum / zip / chain (sequences, lazy operands, dictionaries) / "
              "items / list / sameas / pycompat dict.get keys values items, list.count over an 18-letter alphabet against the Lean model output "
              "(where the laws leave exactly one output, a disagreement with the Lean function is an oracle failure).  "
              "Derived maps (`dm`): base maps of <=2 (sampled: 3) distinct keys over true / 1 / false / 0 / 'a' / b'a' / 'zz' / none / NaN / [1] "
              "x value patterns (all defined, undefined or none at the even positions, all undefined) x backings (engine map, user map object, "
              "BTreeMap<String,_>, HashMap<Value,_>), through dict(m), dict(m, k=v), dict(**m), namespace(m), m1|chain(m2), merge_maps and seeded "
              "nestings up to depth 3; every probe of the key alphabet and every listed key through `in`, subscript, iteration, |items, |length, len(); "
              "a case is non-trivial when at least one law was evaluated.")
    r.assumptions = ["Rust's slice::sort_by is the unique stable sort for a total preorder (List.mergeSort)",
                     "BTreeMap/BTreeSet find an entry iff its key compares Equal (true when Ord is a total order on the keys present)",
                     "f64 primitives (==, <, trunc, as-casts) follow IEEE-754 / the Rust reference (saturating float->int, round-to-nearest-even int->float)",
                     "values beyond the zoo and the random batches behave like the model (proved for the model for all values)",
                     "str::to_lowercase in `unique` and unicase in cmp_helper (feature unicode) are parameters of the model (the theorems hold for every lower-casing function); the driver uses ASCII lower-casing, the alphabets are ASCII",
                     "a user custom_cmp is `compare` on a key of the object and is only consulted for objects of one Rust type; object identity (is_same_object) identifies objects",
                     "a user-defined map object or HashMap that lists two == keys is not a well-formed dictionary (not generated as an operand of the derived-map stream)",
                     "batch/slice counts for which `count` list headers cannot be held in memory but can be reserved are outside the quantifier (resource exhaustion, not a panic)"]
    r.regen_tables(["VALUE_KIND_ORDER", "C07_CMP_KIND_ALIAS", "C07_VALUE_MAP_STR_SCAN_MAX", "C07_HASH_ZERO_KINDS", "C07_QUERY_LEN_ARMS",
                    "C07_REVERSE_ARMS", "C07_FILTER_CMP_CALLS", "C07_DERIVED_MAPS", "C07_STR_ARMS", "SMALL_STR_CAP"])
    r.lean_prove("MJ.Props.C07", "MJ/Audit/C07.lean", extra_targets=["drive_c07"])
    r.exhaustive = False
    if r.driver("drive_c07", "", args=["btree"]) is None:      # (builds the driver once; the shards run the binary)
        return
    # three builds of the engine: BTreeMap-backed maps, IndexMap-backed maps (`preserve_order`), and the
    # `unicode` feature (cmp_helper compares through `unicase` there: the filter streams only)
    builds = [("btree", "default(BTreeMap)", (), PARTS), ("index", "preserve_order(IndexMap)", ("preserve_order",), PARTS),
              ("unicode", "unicode(unicase)", ("minijinja/unicode",), FILTER_PARTS)]
    exes = {}
    for mode, feats, cargo_feats, parts in builds:
        exes[mode] = r.cargo_build("c07", features=list(cargo_feats)) if cargo_feats else r.cargo_build("c07")
    shards = SHARDS["thorough" if r.tier == "thorough" else "quick"]
    import time as _time
    t_run = _time.time()
    workers = max(2, min(16, os.cpu_count() or 4))
    futures = {}
    with concurrent.futures.ThreadPoolExecutor(max_workers=workers) as pool:
        for mode, feats, cargo_feats, parts in builds:
            if exes[mode] is None:
                continue
            # (the engine's own map type is chosen by the build; `unicode` runs on the default maps)
            hmode = "index" if mode == "index" else "btree"
            futures[mode] = [pool.submit(run_part, r, exes[mode], hmode, part, i, shards[part]) for part in parts for i in range(shards[part])]
        results = {mode: [f.result() for f in fs] for mode, fs in futures.items()}
    import time as _time
    r.extra.setdefault("timing_s", {})["harness+driver(all builds, parallel)"] = round(_time.time() - t_run, 1)
    slow = collections.Counter()
    for mode, rs in results.items():
        for res in rs:
            slow[f"{mode}:{res['part']}"] = max(slow[f"{mode}:{res['part']}"], round(res["secs"], 1))
    r.extra["timing_s"]["slowest shard per part"] = dict(slow.most_common(8))
    for mode, feats, cargo_feats, parts in builds:
        if mode not in results:
            continue
        t_mode = _time.time()
        if mode == "index":
            # An IndexMap built from pairs with a Bool key and an ==-equal numeric key (`{true: 2, 1: 1}`)
            # holds one or two entries depending on the random hash state of that map instance (the keys
            # are == but hash apart: known finding eq-vs-hash:Bool~Number), so every law observed on a
            # value containing such a map can fail in one run and hold in the next.  Such failures are
            # attributed to their root cause, one stable site, instead of the law that happened to fail.
            plain_of = r.oracle_failure

            def of(case, what, site=None, _plain=plain_of):
                if layout_dependent_case(case):
                    site = "indexmap-layout:eq-keys-hash-apart"
                _plain(case, what, site)
            r.oracle_failure = of
            try:
                check_mode(r, mode, feats, results[mode])
            finally:
                del r.oracle_failure
        else:
            check_mode(r, mode, feats, results[mode])
        r.extra["timing_s"]["laws+correspondence " + mode] = round(_time.time() - t_mode, 1)


def replay(r, path):
    d = json.load(open(path))
    for mode, feats in (("btree", ()), ("index", ("preserve_order",)), ("unicode", ("minijinja/unicode",))):
        exe = r.cargo_build("c07", features=list(feats)) if feats else r.cargo_build("c07")
        for case in [d.get("case")] + d.get("more_cases", []):
            if not case:
                continue
            f = case.split()
            if f[0] == "triple":
                for a, b in ((f[1], f[2]), (f[1], f[3]), (f[3], f[2])):
                    if "?" not in (a, b):
                        rc, out, err = r.harness(exe, ["one", "pairv", a, b])
                        print(f"[{mode}] engine:", out.strip())
                continue
            rc, out, err = r.harness(exe, ["one"] + f, env={"C07_MODE": "index" if mode == "index" else "btree"})
            print(f"[{mode}] engine:", out.strip())
            if f[0] == "pairv":
                inp = f"val 0 {f[1]}\nval 1 {f[2]}\npair 0 1\n"
                m = r.driver("drive_c07", inp, args=["index" if mode == "index" else "btree"])
                print(f"[{mode}] model (cmp eq samehash):", m[-1] if m else None)
            elif f[0] in ("batch", "slicef") or (f[0] == "lk" and f[1] == "vm"):
                m = r.driver("drive_c07", case + "\n", args=["index" if mode == "index" else "btree"])
                print(f"[{mode}] model:", m[-1] if m else None)
    return 0
