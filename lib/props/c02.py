"""C02 — HTML auto-escaping is sound: unsafe data is escaped exactly once (DESIGN.md §3 C02)."""
import json, os, collections

READY = True

META = {
    "technique": "Lean 4 proof of a taint-soundness invariant of the safe-bit calculus, stated over template PROGRAMS "
                 "(big-step interpreter of an AST with macros, call blocks, captures, include / import / from-import, "
                 "inheritance with super() and child statements outside blocks, per-template auto-escape modes, custom "
                 "auto-escape callback, custom formatter; entry points render, render_block, Expression::eval) + a complete "
                 "safety-class table of every registered callable regenerated from the sources + differential "
                 "correspondence: every callable of that table and generated multi-mode programs, engine vs. the Lean interpreter",
    "category": "proof",
    "text": "Kernel-checked: (1) machine level — a Safe string never holds a < > \" ' that came from data (Inv); every "
            "primitive step (emit, capture, macro return, every operator/filter/method model incl. the safety-aware "
            "replace/join/format/truncate, random, lipsum) preserves Inv in Html mode AND in mode None; emit∘endCapture is "
            "the identity (escaped once); HtmlEscape kills every metacharacter for the table and both range pre-filters "
            "regenerated from utils.rs. (2) the safety-class table is COMPLETE: C02_CALLABLES is regenerated from "
            "defaults.rs (filters, tests, functions), contrib add_to_environment and pycompat unknown_method_callback with, per "
            "callable, its Rust return type and body facts (preserve_safety, from_safe_string / StringType::Safe, is_safe(), "
            "State::format / join_safe, escape_formatter, write_escaped, dynamic dispatch, calls of other registered "
            "implementations, nested fns); all_safe_producers_modelled: every callable that CAN construct a Safe string has an "
            "exact model with a lemma <name>_preserves_inv (or is safe/tojson = class markup, outside the property's "
            "quantifier); non_producers_classified: every other callable returns unmarked strings by its signature (tests → "
            "bool; String/bool/integer return types → class normal, Value::from(String) builds StringType::Normal is itself a "
            "regenerated fact; Value return types without a producer → forwarding classes); producer_sites_attributed: every "
            "program point that marks a string is one of four primitives or lies inside a registered callable (no helper can "
            "mark strings unnoticed). (3) program level — program_no_raw_tainted_meta over the extended class ProgOk: "
            "include, import-as-module, from-import with aliases (macros and top-level variables), extends + blocks + super() "
            "+ child statements outside blocks, macros imported from templates whose NAME selects another mode (the body runs "
            "in the mode of the call site; variables a .txt library captured are unmarked, those of a .html library Safe), "
            "{% autoescape %} with every documented value (true / \"html\" anywhere, false / \"none\" around statements that "
            "write nothing or inside opaque targets; \"json\" and undocumented values are outside / errors), a custom "
            "auto-escape callback (Prog.modes), Environment::set_formatter (the documented wrapper), render_block "
            "(render_block_no_raw_tainted_meta) and Expression::eval (expression_eval_inv: the returned value satisfies Inv); "
            "the same without premise for the guarded interpreter. One induction (exec_ht) over the nine interpreter functions "
            "with a flagged invariant: capture buffers whose text can never become a Safe string (discarded output, module "
            "captures, captures ending in None) may hold anything. (4) escaped_once for every capture construct of that "
            "class: escaped_once_set_block / _filter_block / _macro_call / _call_block / _caller / _super (the enclosing "
            "target receives exactly the text the body wrote into the capture, whatever the body is — includes of templates "
            "with another mode, imported macros, blocks) and escaped_once_print (a Safe string prints verbatim in every "
            "mode wherever it was captured: imported variables, module variables), escaped_once_capture_open (captures are "
            "balanced, so the side condition always holds). MOVED FROM VALIDATED TO PROVED in this round: completeness of "
            "the class table w.r.t. the registrations and the body facts (was: hand-kept name list + sampled class "
            "predicates); random and lipsum have exact models; all named models in mode None; import / from-import / module "
            "objects / child statements outside blocks / per-template modes / custom callback / custom formatter / "
            "render_block / Expression::eval inside execProg and its theorems (were: not modelled or only differential); "
            "autoescape false/none regions around captures (were: excluded); escaped-once at program level for each capture "
            "construct (was: machine-level only + W stream). Tie: stream G drives EVERY callable of the regenerated table "
            "(filters also through map) on Safe/Normal x metacharacter / escaped-entity bearing subjects (a Safe result must "
            "not hold a metacharacter that only unmarked or entity-escaped data carried: taint by disjoint alphabets, two "
            "passes with swapped roles); F/C exact models / class predicates on hand-written shapes; P generated multi-template "
            "programs (libraries .html/.txt/.xml/.md, import styles, aliases, module variables, custom callback, custom "
            "formatter, child statements, autoescape values) sent as AST to the guarded interpreter first (inside the fragment: "
            "output byte-equal, clean, no raw metacharacter) else to the unguarded one (byte-equal); T every way a value, macro "
            "or output crosses between templates of modes h/n/j (default and custom callback); B render_block; E "
            "Expression::eval values with their Safe bits; R custom formatter and AutoEscape::Custom; W capture wrappers "
            "render identically; M capture kinds x all autoescape values; N template names (+ an explicit autoescape true / \"html\" region under each); K value kinds; X Unicode / numbers. "
            "SESSION 4: (a) environment-configuration axes in streams P and T — a path-join callback (references to other "
            "templates written without extension / as an alias whose extension selects ANOTHER mode / as ./name; the model sees "
            "the resolved names only, so a template runs in the mode its own name selects however it was referred to), templates "
            "registered up front or compiled on demand by a loader; (b) entry-point axis — every generated program is rendered "
            "through Template::render, render_captured, render_captured_to (io::Write) or Environment::render_named_str in turn, "
            "stream B adds Template::new_state + State::render_block / render_block_to_write (context as globals; model = the "
            "block body as a template of that name) and State::call_macro on a captured state; (c) two more regenerated ties: "
            "all_output_write_sites_modelled (ALL program points of crate minijinja that write to an Output directly, call "
            "write_escaped, call the formatter or create a sink — a new raw-write fast path breaks the theorem) and "
            "all_mode_sources_modelled (every point that supplies the auto-escape mode an execution starts in: compiled flag = "
            "callback(name compiled under), _eval / new_state, Expression::_eval = None, include = the included template's OWN "
            "flag, blocks / super / macros = current mode); (d) C02_main: the property stated for the ENGINE (structure Engine: "
            "render / renderBlock / eval) with the gap as the named hypothesis Faithful E (validated by the byte-equal streams), "
            "the ties as theorems; modelEngine_faithful shows the hypothesis satisfiable. When the Lean driver cannot be built "
            "(broken table / transient) the oracles that need the model to decide the fragment are skipped instead of guessing. "
            "The class predicates of class-only callables (forward / select / pieces / normal) are stronger than the property: a "
            "violation is reported as a mismatch with the class table (no failing input) — the failing-input oracle for a callable "
            "result is the property itself: a Safe string holding a metacharacter that only unmarked / escaped data carried.",
    "design_ref": "DESIGN.md §3 C02",
    "level_note": "Trusted: Lean kernel; hand transcription of utils.rs/output.rs/argtypes.rs/filters.rs/pycompat.rs safety "
                  "branches and of the vm's mode/capture/import/extends handling into MJ/Model/Safe.lean and "
                  "MJ/Model/SafeProg.lean (validated differentially, sampled); that the only ways to build a Safe string in "
                  "Rust are the scanned syntactic forms (from_safe_string, StringType::Safe, preserve_safety); the harness' "
                  "rendering of an AST to template source text (validated by byte-equal outputs); class predicates for "
                  "callables WITHOUT a producer fact are validated on sampled argument shapes only; Unicode case mapping enters "
                  "as hypothesis Reflects, validated exhaustively per scalar value. Model simplifications (generator respects "
                  "them): macro names unique per program, imports at the head of a template, macro closures = the variables "
                  "the defining template had set at its top level, only top-level blocks take part in inheritance, included / "
                  "imported templates do not extend, blocks inside from-imported templates (skipped by the engine while "
                  "discarding) not modelled, State::format inside join under a custom formatter not modelled, `|e` in mode "
                  "None inside a template whose NAME selects Json (falls back to Json) not modelled, AutoEscape::Custom only "
                  "as an engine-side stream (the default formatter refuses to write). MOVED FROM VALIDATED TO PROVED in session 3/4 "
                  "(session 3's edits were lost; redone in session 4 as far as time allowed): that `Instruction::Emit` -> write_escaped / "
                  "the formatter is the single choke point for values was trusted — now all_output_write_sites_modelled over the "
                  "regenerated list of ALL direct Output writes, write_escaped callers, formatter callers and sinks of the crate; "
                  "that a template starts in the mode its own name selects, includes run in the included template's own mode and "
                  "blocks / super / macros in the current one was a hand transcription validated by streams T/N — now "
                  "all_mode_sources_modelled over the regenerated list of every supplier of an initial mode; the statement for the "
                  "engine (C02_engine) follows from ONE named hypothesis (Faithful E, validated by byte-equal outputs through every "
                  "entry point) by C02_main. NOT DONE (stays as listed above): lifting the model simplifications (macro closures, "
                  "blocks at depth, included / imported templates that extend, blocks inside from-imported templates, State::format "
                  "inside join under a custom formatter, `|e` under a Json-named template, AutoEscape::Custom) into SafeProg; producer "
                  "facts for class-only callables for all argument shapes (still sampled: stream G).",
}

TABLES = ["HTML_ESCAPE_TABLE", "HTML_NEEDS_ESCAPING", "HTML_ESCAPE_FILTER_SUB", "SAFE_PRODUCER_SITES", "FILTER_NAMES",
          "AUTOESCAPE_BY_NAME", "AUTOESCAPE_SHAPE", "PYCOMPAT_METHODS", "C02_CALLABLES", "C02_VALUE_REPR_VARIANTS",
          "C02_WRITE_ESCAPED_DISPATCH", "C02_OUTPUT_WRITE_SITES", "C02_MODE_SOURCES"]
METAS = set("<>\"'")
LOCAL_CLASS = {"op~": "modelled", "op+": "modelled", "op*": "modelled", "op[:]": "modelled", "op[]": "modelled",
               "loop.cycle": "select", "str.replace#count": "normal", "str.splitlines#keepends": "normal"}


def arg_key_leaves(enc):
    """map keys of an argument encoding (`M(<cps>=…)`) as unmarked strings"""
    import re
    return [(False, dec(k)) for k in re.findall(r"[(;]([0-9.]+|-)=", enc)]


def dec(cps):
    return "" if cps in ("-", "") else "".join(chr(int(t)) for t in cps.split("."))


def enc(text):
    return "-" if not text else ".".join(str(ord(ch)) for ch in text)


def parse_enc(s):
    """encoded value → list of (safe, text) leaves: strings (map keys included); bytes, objects and
    floats count as unmarked leaves tagged with their kind"""
    leaves = []
    i, n = 0, len(s)
    while i < n:
        tag = s[i:i + 3] if s[i:i + 3] in ("S1:", "S0:") else (s[i:i + 2] if s[i:i + 2] in ("Y:", "O:", "F:") and (i == 0 or s[i - 1] in "(;=") else None)
        if tag:
            j = i + len(tag)
            while j < n and (s[j].isdigit() or s[j] in ".,-"):
                j += 1
            body = s[i + len(tag):j]
            if tag[0] == "S":
                leaves.append((tag == "S1:", dec(body)))
            elif tag == "Y:":
                leaves.append((False, "bytes:" + bytes(int(x) for x in body.split(",") if x not in ("", "-")).decode("utf-8", "replace")))
            else:
                leaves.append((False, ("obj:" if tag == "O:" else "float:") + dec(body)))
            i = j
        else:
            i += 1
    return leaves


def check_call(r, cj, c, enc, cls, site, m=None, res=None, no_model=False):
    """oracles on the value a callable returned: the property itself (no Safe string with a
    data-tainted metacharacter; taint by disjoint alphabets: `dm` = the metacharacters that only
    unmarked arguments — raw or as escaped entities inside Safe ones — carry in this pass), the exact
    model when there is one, else the predicate of its class"""
    pat = c["pattern"]
    leaves = parse_enc(enc)
    arg_leaves = [l for a in c["args"] for l in parse_enc(a) + arg_key_leaves(a)]
    in_safe = {t for (sf, t) in arg_leaves if sf}
    if cls != "markup" and arg_leaves:
        for sf, t in leaves:
            if sf and any(ch in c["dm"] for ch in t):
                r.oracle_failure(cj, f"`{c['expr']}` with arguments {pat} returned a Safe string holding a "
                                     f"metacharacter that only unmarked / escaped data carried: {t!r}", site)
                break
    def class_violation(msg):
        # a class predicate (forward / select / pieces / normal) is STRONGER than the property: a callable that
        # starts to hand on or create Safe strings without a data-tainted metacharacter in them (e.g. `title`
        # preserving the bit of its input) keeps the property.  Such a change is a mismatch with the class table
        # (reported once per callable, without a failing input); the property itself is the taint oracle above.
        key = f"class:{c['name']}"
        if key not in r.extra.setdefault("class_mismatches", {}):
            r.extra["class_mismatches"][key] = msg
            r.broken.append(msg + " — the safety class of the callable in MJ/Model/Safe.lean no longer describes it")
    if m is not None:
        if m[0] != "OK" or m[1] != enc:
            r.model_disagreement(cj, res, "\t".join(m))
    elif cls == "forward":
        bad = [t for sf, t in leaves if sf and t not in in_safe]
        if bad:
            class_violation(f"class forward violated: `{c['expr']}` ({pat}) created Safe string {bad[0]!r}")
    elif cls == "select":
        in_all = set(arg_leaves)
        bad = [(sf, t) for sf, t in leaves if (sf, t) not in in_all]
        if bad:
            class_violation(f"class select violated: `{c['expr']}` ({pat}) returned string {bad[0][1]!r} "
                            f"(safe={bad[0][0]}) that is no argument leaf with that bit")
    elif cls == "pieces":
        bad = [t for sf, t in leaves if sf and not any(t in u for u in in_safe)]
        if bad:
            class_violation(f"class pieces violated: `{c['expr']}` ({pat}) created Safe string {bad[0]!r}")
    elif cls == "normal":
        bad = [t for sf, t in leaves if sf]
        if bad:
            class_violation(f"class normal violated: `{c['expr']}` ({pat}) returned Safe string {bad[0]!r}")
    elif cls in ("markup", "mapped", "modelled", "bool"):
        pass
    elif not no_model:
        r.broken.append(f"case for `{c['name']}` has class {cls} but no exact model")


def run(r):
    r.rule = ("stream G: every callable of the regenerated table (filters, tests, functions, pycompat methods; filters also "
              "through map) x 9 subjects (Safe with markup and escaped entities, unmarked, containers, numbers) x 9 argument "
              "shapes x 2 metacharacter role passes; stream F/C: hand-written calls of every filter/function/operator x 2 passes x "
              "content variants x all Safe/Normal assignments of its string arguments; stream P: seeded generated programs "
              "(macros, call blocks, set/filter blocks, loops, recursion, includes, import-as-module / from-import with aliases, "
              "library variables, libraries and parents whose names select other modes, child statements outside blocks, every "
              "autoescape value, custom callback, custom formatter, path-join callback, loader, 4 entry points, 2-3 level inheritance) with data strings over < > \" ' & / "
              "Greek, whitespace; W: program body wrapped in 8 capture constructs; T: 14 cross-template flows x 4 library names x "
              "3 main names x 2 callbacks x 2 data strings x path-join styles (none/noext/otherext/dir); B: render_block, new_state + render_block(_to_write), call_macro; E: 158 expressions through Expression::eval; R: custom "
              "formatter on 7 printing paths + AutoEscape::Custom; M: 7 capture kinds x 8 autoescape values x 3 data strings; "
              "N: 17 template names x (plain, autoescape true, autoescape \"html\"); K: value kinds; X: all Unicode scalar values. A case is non-trivial when the engine "
              "rendered/evaluated it without error and it is distinct")
    r.assumptions = [
        "the hand transcription of the engine's mode / capture / import / extends handling into execProg is faithful beyond the generated programs (validated by byte-equal output per program)",
        "callables without a producer fact satisfy their class predicate (forward/normal) on all inputs, not only the sampled ones; the body facts are syntactic (a Safe string can only be built by from_safe_string / StringType::Safe / preserve_safety)",
        "template names that select Json, AutoEscape::Custom, formatters other than wrappers of escape_formatter, and explicit safe marking (safe, tojson, Value::from_safe_string by the host) are outside the property",
        "model simplifications listed in level_note (unique macro names, imports at the head of a template, closure = top-level variables of the defining template)",
    ]
    st = r.regen_tables(TABLES)
    r.lean_prove("MJ.Props.C02", "MJ/Audit/C02.lean", extra_targets=["drive_c02"])
    exe = r.cargo_build("c02")
    if exe is None:
        return
    # the complete callable table regenerated from the sources drives stream G
    table = (st["items"].get("C02_CALLABLES") or {}).get("callables") or []
    if not table:
        r.broken.append("the table of registered callables (C02_CALLABLES) is empty: stream G cannot run")
    rc, out, err = r.harness(exe, ["gen", r.tier, "-"], inp="".join(f"{t['kind']}\t{t['name']}\n" for t in table))
    if rc != 0:
        r.broken.append(f"harness c02 exited {rc}: {err[-300:]}")
        return
    cases = []
    for line in out.splitlines():
        cj, _, res = line.partition("\t")
        cases.append((cj, json.loads(cj), res))
    # ---- model runs
    names = st["items"].get("FILTER_NAMES") or {"builtin": [], "contrib": [], "functions": []}
    all_names = (list(names["builtin"]) + list(names["contrib"]) + list(names["functions"])
                 + list(st["items"].get("PYCOMPAT_METHODS") or []))
    for t in table:
        if t["kind"] != "test" and t["name"] not in all_names:
            all_names.append(t["name"])
    producers = {t["name"] for t in table if t["kind"] != "test" and (t["preserve"] or t["mark"] or t["via"])}
    inp = [f"?class\t{n}" for n in all_names]
    for i, (_, c, _) in enumerate(cases):
        if c.get("model"):
            inp.append(f"{i}\t{c['model']}")
        elif c.get("prog") and c.get("block"):
            inp.append(f"{i}\tBLOCK\t2\t{enc(c['block'])}\t{c['prog']}\t{c['ctxsx']}")
        elif c.get("prog"):
            # generated programs: the guarded interpreter first ("2"), the unguarded one when the program
            # leaves the fragment (other template modes, emitting with auto-escaping off)
            inp.append(f"{i}\tPROG\t{2 if c['s'] in ('P', 'W', 'T', 'B') else c['strict']}\t{c['prog']}\t{c['ctxsx']}")
        elif c.get("exprsx"):
            inp.append(f"{i}\tEXPR\t{c['strict']}\t{c['exprsx']}\t{c['ctxsx']}")
    mlines = r.driver("drive_c02", "\n".join(inp) + "\n")
    no_model = mlines is None   # (already recorded as broken) — the engine-only oracles still run
    if no_model:
        mlines = []
        r.model_disagreement = lambda *a, **k: None
    classes, model = dict(LOCAL_CLASS), {}
    if no_model:
        # without the driver the class of a callable is unknown: only the two documented markup filters are exempted
        # from the Safe-result oracle, and the fragment of a generated program cannot be decided (its raw-metacharacter
        # oracle is skipped: the broken build is reported without a failing input unless another stream has one)
        classes.update({"safe": "markup", "tojson": "markup"})
    for ml in mlines:
        f = ml.split("\t")
        if f[0] == "?class":
            classes[f[1]] = f[2]
        else:
            model[int(f[0])] = f[1:]
    for n in ([] if no_model else all_names):
        if classes.get(n, "unclassified") == "unclassified":
            r.broken.append(f"filter/function `{n}` is registered in /repo but has no safety class in MJ/Model/Safe.lean")
    ok_by_name = collections.Counter()
    ok_generic = collections.Counter()
    generic_seen = set()
    seen_names = set()
    not_registered = set()
    for i, (cj, c, res) in enumerate(cases):
        s = c["s"]
        rf = res.split("\t")
        r.hist["stream"][s] += 1
        r.hist["engine_result"][rf[0]] += 1
        if rf[0].startswith("PANIC"):
            r.oracle_failure(cj, "engine panicked: " + dec(rf[0][6:]), "panic:" + s)
            continue
        m = model.get(i)
        if m is not None and m[0].startswith("BAD"):
            r.broken.append(f"model driver rejected case {i}: {m[0]}")
            continue
        if s in ("F", "C"):
            name, pat = c["name"], c["pattern"]
            cls_override = None
            if "#" in name:      # a row that checks a variant of a modelled filter against a class only
                name, cls_override = name.split("#")
                if cls_override not in ("select", "normal", "forward", "pieces"):
                    cls_override = LOCAL_CLASS.get(c["name"], cls_override)
            seen_names.add(name)
            cls = cls_override or classes.get(name, "unclassified")
            key = f"{s}:{c['expr']}:{pat}:{c['dm']}:{','.join(c['args'])}"
            r.hist["filter"][name] += 1
            if rf[0] in ("ERR:UnknownFilter", "ERR:UnknownFunction", "ERR:UnknownMethod"):
                not_registered.add(name)
                r.hist["not_registered"][name] += 1
                continue
            if rf[0] != "OK":
                r.count(key, False)
                r.hist["filter_errors"][name + ":" + rf[0]] += 1
                if m is not None and m[0] != "ERR":
                    r.model_disagreement(cj, res, "\t".join(m))
                continue
            ok_by_name[name] += 1
            r.count(key, True)
            site = f"filter:{name}:{pat}"
            check_call(r, cj, c, rf[1], cls, site, m, res, no_model)
            if len(r.samples) < 4 and i % 500 == 7:
                r.sample({"filter_call": c["expr"], "args": c["args"], "engine": rf[1]})
        elif s == "G":
            name, pat = c["name"], c["pattern"]
            via = c.get("via")
            label = f"map({via})" if via else name
            r.hist["generic"][label] += 1
            seen_names.add(name if not via else via)
            ok_by_name[name if not via else via] += 1
            ok_generic[label] += 1
            key = f"G:{c['expr']}:{pat}:{c['dm']}"
            r.count(key, True)
            site = f"callable:{label}:{pat}"
            if name.startswith("test:"):
                if name[5:].replace("_", "").isalnum():
                    if not rf[1].startswith("B:"):
                        r.oracle_failure(cj, f"test `{c['expr']}` returned a non-boolean {rf[1]!r}", site)
                    cls = "bool"
                else:
                    cls = "select"      # through `[a0]|select("<op>", …)|list`
            elif via:
                cls = "markup" if classes.get(via) == "markup" else "mapped"
            else:
                cls = classes.get(name, "unclassified")
                if cls == "select" or (cls in ("modelled", "mapped") and name not in producers and not name.startswith("map")):
                    # `select` is validated on the hand-written shapes (on a string subject such a filter walks
                    # the characters); an exact model is not shipped in this stream: a callable that cannot
                    # construct Safe strings (by the regenerated body facts) must at least forward
                    cls = "forward"
            check_call(r, cj, c, rf[1], cls, site, None, res, no_model)
            if len(r.samples) < 6 and i % 900 == 11:
                r.sample({"callable": c["expr"], "args": c["args"], "engine": rf[1]})
        elif s == "G#":
            r.hist["generic_errors"][c["name"]] += sum(c["errors"].values())
            generic_seen.add(c["name"])
        elif s in ("P", "K"):
            for ft in c["feats"]:
                r.hist["program_features" if s == "P" else "kind_probe"][ft] += 1
            r.hist["template_name"][c["main"]] += 1
            okp = rf[0] == "OK"
            r.count(s + ":" + json.dumps(c["t"], sort_keys=True) + json.dumps(c["ctx"], sort_keys=True), okp and rf[2] != "-")
            if not okp:
                r.hist["program_errors"][rf[0]] += 1
                if m is None or m[0] != "ERR":
                    r.model_disagreement(cj, res, "\t".join(m or []))
                continue
            text = dec(rf[2])
            in_fragment = m is None or m[0] != "OK" or len(m) < 5 or m[4] == "fragment"
            if s == "P":
                r.hist["program_class"]["fragment" if in_fragment else "outside (other template mode / writes with escaping off)"] += 1
                if m is not None and m[0] == "OK" and len(m) > 5:
                    # the decision procedure for the SYNTACTIC class of the theorem (ProgOk), evaluated by the driver
                    r.hist["syntactic_class"][m[5]] += 1
                    if m[5] == "progok" and not in_fragment:
                        r.broken.append(f"program {i} is in the syntactic class ProgOk but the guarded interpreter refused it")
            raw = sorted(METAS & set(text)) if in_fragment and not no_model else []
            if raw:
                r.oracle_failure(cj, f"output of a safe-marking-free program contains raw {''.join(raw)!r} "
                                     f"(template text has none): …{text[max(0, text.index(raw[0]) - 20):text.index(raw[0]) + 20]!r}…",
                                 "program:raw-metachar" if s == "P" else f"print:{c['kind']}:{c['probe']}")
            if m is None or m[0] != "OK" or m[2] != rf[2]:
                mt = dec(m[2]) if m is not None and m[0] == "OK" else None
                if mt is not None and len(text) > len(mt) and text.count("&amp;") > mt.count("&amp;"):
                    r.oracle_failure(cj, f"already escaped output escaped a second time: engine {text[:120]!r} model {mt[:120]!r}",
                                     "program:double-escape")
                elif not raw:
                    r.model_disagreement(cj, res, "\t".join(m or []))
            elif in_fragment and m[3] != "clean":
                r.broken.append(f"model output of a fragment program is not clean (case {i}) — theorem/driver mismatch")
            if i % 700 == 3:
                r.sample({"templates": c["t"], "ctx": c["ctx"], "output": text[:200]})
        elif s == "W":
            r.hist["wrapper"][c["kind"]] += 1
            r.count("W:" + c["kind"] + json.dumps(c["t"], sort_keys=True), rf[0] == "OK")
            if m is not None and (m[0] == "OK") != (rf[0] == "OK") or (m is not None and m[0] == "OK" and rf[0] == "OK" and m[2] != rf[2]):
                r.model_disagreement(cj, res, "\t".join(m))
            if res != c["plain"]:
                pt = c["plain"].split("\t")
                r.oracle_failure(cj, f"body wrapped in {c['kind']} renders differently: "
                                     f"{dec(rf[2])[:100] if rf[0] == 'OK' else res!r} vs plain {dec(pt[2])[:100]!r}",
                                 "wrap:" + c["kind"])
        elif s in ("T", "B", "R") and c.get("prog"):
            kind = c["kind"]
            label = f"{s}:{kind}:{c.get('lib', '')}:{c.get('libmode', '')}->{c['main']}:{c.get('mainmode', '')}:{c.get('callback', '')}:{c.get('joinstyle', '')}"
            r.hist["cross_template" if s == "T" else ("render_block" if s == "B" else "custom_formatter")][f"{kind}:{c.get('libmode', '')}->{c.get('mainmode', '')}"] += 1
            bok, mok = rf[0] == "OK", (m is not None and m[0] == "OK")
            if s == "T":
                r.hist["path_join"][c.get("joinstyle") or "none"] += 1
                if bok and c.get("tail") and c.get("mainmode") == "h":
                    # engine-only: the data the main template (its name selects Html) prints after the crossing
                    tail_text = dec(rf[2]).rsplit("¦", 1)[-1]
                    if METAS & set(tail_text):
                        r.oracle_failure(cj, f"{kind} ({c.get('lib', '')} -> {c['main']}): after the crossing the main template "
                                             f"(mode Html by its name) writes data raw: {tail_text!r}", f"cross-tail:{kind}")
            r.count(label + json.dumps(c["ctx"], sort_keys=True), bok)
            if m is None or bok != mok or (bok and m[2] != rf[2]):
                r.model_disagreement(cj, res, "\t".join(m or []))
                if bok and c.get("mainmode") == "h" and c.get("libmode", "h") == "h" and METAS & set(dec(rf[2])):
                    r.oracle_failure(cj, f"{kind}: data written raw: {dec(rf[2])!r}", f"cross:{kind}")
                continue
            if not bok:
                continue
            text = dec(rf[2])
            frag = len(m) > 4 and m[4] == "fragment"
            r.hist["probe_class"]["fragment" if frag else "outside"] += 1
            if not frag and c.get("mainmode") == "h" and c.get("libmode", "h") in ("h", "") and s != "R":
                r.broken.append(f"the guarded interpreter refused an all-Html probe ({label}): the fragment oracle would be switched off")
            if frag:
                if METAS & set(text):
                    r.oracle_failure(cj, f"{kind} ({c.get('lib', '')} -> {c['main']}): data written raw: {text!r}", f"cross:{kind}")
                if m[3] != "clean":
                    r.broken.append(f"model output of a fragment program is not clean (case {i}) — theorem/driver mismatch")
            elif c.get("mainmode") == "h" and m[3] != "clean":
                if c.get("libmode") == "j" and c.get("site") == "end_capture":
                    # a capture made while the library's mode is Json crosses into the Html template
                    r.oracle_failure(cj, f"{kind}: block captured under Json ({c['lib']}) is marked safe and printed raw under Html: {text!r}",
                                     "end_capture:json->html")
                else:
                    # a template whose NAME selects another mode writes into the output itself (include / extends):
                    # outside the property's quantifier (all template names select Html)
                    r.hist["outside_by_template_name"][f"{kind}:{c.get('libmode')}->{c.get('mainmode')}"] += 1
        elif s == "R":
            # AutoEscape::Custom with the default formatter: nothing of the data may be written
            r.count("R:custom:" + c["src"], True)
            r.hist["custom_formatter"]["custom-mode:" + rf[0]] += 1
            if rf[0] == "OK" and METAS & set(dec(rf[2])):
                r.oracle_failure(cj, f"AutoEscape::Custom: the default formatter wrote data: {dec(rf[2])!r}", "custom-mode")
        elif s == "E":
            bok, mok = rf[0] == "OK", (m is not None and m[0] == "OK")
            r.count("E:" + c["exprsrc"] + json.dumps(c["ctx"], sort_keys=True), bok)
            r.hist["expression_eval"][rf[0]] += 1
            if m is None or bok != mok or (bok and m[1] != rf[1]):
                r.model_disagreement(cj, res, "\t".join(m or []))
            if bok:
                for sf, t in parse_enc(rf[1]):
                    if sf and METAS & set(t):
                        r.oracle_failure(cj, f"Expression::eval(`{c['exprsrc']}`) returned a Safe string holding a raw metacharacter: {t!r}", "expr:safe-leaf")
                        break
        elif s in ("M", "N"):
            key = f"{s}:{c.get('kind', c.get('name'))}:{c.get('region', '')}:{c['ctx']['d']}"
            r.count(key, rf[0] == "OK")
            label = c.get("kind") or c.get("name")
            r.hist["probe"][f"{s}:{label}:{c.get('region', c.get('mode'))}"] += 1
            if c.get("mode") == "e":
                # not a documented value of the autoescape tag: an error, nothing is rendered
                if rf[0] == "OK" or m is None or m[0] == "OK":
                    r.model_disagreement(cj, res, "\t".join(m or []))
                continue
            if m is None or rf[0] != "OK" or m[0] != "OK" or m[2] != rf[2]:
                r.model_disagreement(cj, res, "\t".join(m or []))
                if rf[0] == "OK" and (c["mode"] in ("n", "h") if s == "M" else c["mode"] == "h") and METAS & set(dec(rf[2])):
                    r.oracle_failure(cj, f"{label}: data written raw: {dec(rf[2])!r}",
                                     f"{c.get('site', 'name')}:{c.get('region', c.get('name'))}->html")
                continue
            text = dec(rf[2])
            if s == "M" and m[3] != "clean":
                r.oracle_failure(cj, f"{c['kind']} captured under autoescape {c['region']} is marked safe and printed raw "
                                     f"under Html: {text!r}", f"{c['site']}:{ {'j': 'json', 'n': 'none', 'h': 'html'}[c['mode']] }->html")
            elif c["mode"] in ("n", "h") and s == "M" and METAS & set(text):
                r.oracle_failure(cj, f"{label}: data written raw: {text!r}", f"{c['site']}:{c['region']}->html")
            elif s == "N" and c["mode"] == "h" and METAS & set(text):
                r.oracle_failure(cj, f"template name {c['name']}: data written raw: {text!r}", "name:" + c["name"])
        elif s == "X":
            r.count(f"X:{c['name']}:{c['prefix']}", True, n=int(c["chars"]))
            r.hist["unicode"][c["name"]] += int(c["chars"])
            if rf[0] != "OK":
                r.oracle_failure(cj, f"{c['name']} maps a non-metacharacter to a metacharacter (code points {rf[1]}) or "
                                     f"drops the safe bit ({rf[2]} chunks)", f"filter:{c['name']}:unicode")
    # ---- coverage of the class table by real calls
    for n in ([] if no_model else all_names):
        cls = classes.get(n, "")
        if cls.startswith("unbuilt") or cls == "unclassified" or (n in not_registered and ok_by_name[n] == 0):
            continue
        if n not in seen_names:
            r.broken.append(f"no stream F/C case exercises `{n}` (class {cls})")
        elif ok_by_name[n] == 0:
            r.broken.append(f"`{n}` never evaluated successfully in stream F/C")
    for t in table:
        key = ("test:" + t["name"]) if t["kind"] == "test" else t["name"]
        if key not in generic_seen:
            r.broken.append(f"stream G did not drive the registered {t['kind']} `{t['name']}`")
        elif t["kind"] == "test" and ok_generic[key] == 0:
            r.broken.append(f"test `{t['name']}` never evaluated successfully in stream G")
    if os.environ.get("C02_DEBUG"):
        with open(os.environ["C02_DEBUG"], "w") as fh:
            json.dump({"disagreements": r.model_disagreements[:60], "failures": r.oracle_failures[:60]}, fh)
    pc = r.hist["program_class"]
    if sum(pc.values()) and pc.get("fragment", 0) * 10 < 7 * sum(pc.values()):
        r.broken.append(f"only {pc.get('fragment', 0)} of {sum(pc.values())} generated programs are inside the fragment of the theorem: "
                        "the no-raw-metacharacter oracle covers too little")
    sc = r.hist["syntactic_class"]
    if sum(sc.values()) and sc.get("progok", 0) * 2 < sum(sc.values()):
        r.broken.append(f"only {sc.get('progok', 0)} of {sum(sc.values())} generated programs are in the syntactic class ProgOk")
    r.extra["failure_sites"] = dict(collections.Counter(":".join((f.get("site") or "").split(":")[:2]) for f in r.oracle_failures).most_common(40))
    r.extra["callable_table"] = {"rows": len(table), "producers": sorted(producers),
                                 "by_kind": dict(collections.Counter(t["kind"] for t in table))}
    r.extra["classes"] = {n: classes.get(n) for n in all_names}
    r.extra["n_cases"] = dict(r.hist["stream"])
    r.extra["stage"] = ("programs/syntactic-fragment: theorem program_no_raw_tainted_meta is stated over template programs "
                        "(ProgOk p -> output of execProg false p ctx is clean) and over the guarded interpreter "
                        "(execProg true) without premise; the driver runs the guarded interpreter first on every generated "
                        "program (success = inside the fragment), the unguarded one otherwise")


def replay(r, path):
    d = json.load(open(path))
    exe = r.cargo_build("c02")
    for case in [d.get("case")] + d.get("more_cases", [])[:2]:
        if not case:
            continue
        rc, out, err = r.harness(exe, ["one", case])
        print(out)
        c = json.loads(case)
        if c.get("model") or c.get("prog"):
            line = f"0\t{c['model']}\n" if c.get("model") else f"0\tPROG\t{c['strict']}\t{c['prog']}\t{c['ctxsx']}\n"
            m = r.driver("drive_c02", line)
            if m:
                f = m[0].split("\t")
                print("--- model:", f[1], f[2] if len(f) > 2 else "", f[4] if len(f) > 4 else "")
                if len(f) > 3:
                    print("--- model output text\n" + dec(f[3]))
    return 0
