"""C02 — HTML auto-escaping is sound: unsafe data is escaped exactly once (DESIGN.md §3 C02)."""
import json, os, collections

READY = True

META = {
    "technique": "Lean 4 proof of a taint-soundness invariant of the safe-bit calculus, stated over template PROGRAMS "
                 "(big-step interpreter execProg of an AST with macros, call blocks, captures, includes, inheritance) + "
                 "differential correspondence: every registered filter/function/pycompat method and generated programs, "
                 "engine vs. the Lean interpreter",
    "category": "proof",
    "text": "Kernel-checked: (1) machine level — a Safe string never holds a < > \" ' that came from data (Inv); every "
            "primitive step (emit, capture, macro return, every operator/filter/method model incl. the safety-aware "
            "replace/join/format/truncate) preserves Inv in Html mode; emit∘endCapture is the identity (escaped once); "
            "HtmlEscape kills every metacharacter for the table and both range pre-filters regenerated from utils.rs. "
            "(2) program level — program_no_raw_tainted_meta: for every program of the syntactic fragment HtmlOnlyP "
            "(all template names select Html by default_auto_escape_callback, autoescape blocks true/\"html\", filters "
            "modelled and not safe/tojson) and every context, execProg writes no data-tainted < > \" '. "
            "(3) tables regenerated from source: all registered filter/function/pycompat-method names are classified; "
            "every site that constructs a Safe string, calls preserve_safety or reads the bit (file::fn x count) is "
            "accounted for. Tie: every filter/method called on the real engine with every Safe/Normal argument pattern "
            "(exact model, or class predicate select/forward/normal/pieces, + direct 'no data metacharacter in a Safe "
            "result' oracle); generated multi-template programs sent as AST to execProg, engine output byte-equal, no raw "
            "metacharacter, capture wrappers render identically; autoescape-region and template-name probes through "
            "execProg; values of every ValueRepr kind (bytes valid/invalid UTF-8, floats, 128-bit integers, objects with "
            "their own render, containers of them) through every printing path (stream K) and every stringifying filter; "
            "the write_escaped dispatch and the ValueRepr/as_str tables regenerated from source and compared with the model; "
            "all Unicode scalars through upper/lower/capitalize; 20k random floats through the number formatter.",
    "design_ref": "DESIGN.md §3 C02",
    "level_note": "Trusted: Lean kernel; hand transcription of utils.rs/output.rs/argtypes.rs/filters.rs/pycompat.rs safety "
                  "branches and of the vm's mode/capture handling into MJ/Model/Safe.lean and MJ/Model/SafeProg.lean "
                  "(validated differentially, sampled); the harness' rendering of an AST to template source text (validated "
                  "by byte-equal outputs); class predicates for filters without an exact model are validated on sampled "
                  "argument shapes only; Unicode case mapping enters as hypothesis Reflects, validated exhaustively per "
                  "scalar value; macro names global, only top-level blocks, child-template statements outside blocks and "
                  "import statements are not modelled.",
}

TABLES = ["HTML_ESCAPE_TABLE", "HTML_NEEDS_ESCAPING", "HTML_ESCAPE_FILTER_SUB", "SAFE_PRODUCER_SITES", "FILTER_NAMES",
          "AUTOESCAPE_BY_NAME", "AUTOESCAPE_SHAPE", "PYCOMPAT_METHODS"]
METAS = set("<>\"'")
LOCAL_CLASS = {"op~": "modelled", "op+": "modelled", "op*": "modelled", "op[:]": "modelled", "op[]": "modelled",
               "loop.cycle": "select", "str.replace#count": "normal", "str.splitlines#keepends": "normal"}


def arg_key_leaves(enc):
    """map keys of an argument encoding (`M(<cps>=…)`) as unmarked strings"""
    import re
    return [(False, dec(k)) for k in re.findall(r"[(;]([0-9.]+|-)=", enc)]


def dec(cps):
    return "" if cps in ("-", "") else "".join(chr(int(t)) for t in cps.split("."))


def parse_enc(s):
    """encoded value → list of (safe, text) leaves: strings (map keys included); bytes, objects and
    floats count as unmarked leaves tagged with their kind"""
    leaves = []
    i, n = 0, len(s)
    while i < n:
        tag = s[i:i + 3] if s[i:i + 3] in ("S1:", "S0:") else (s[i:i + 2] if s[i:i + 2] in ("Y:", "O:", "F:") and (i == 0 or s[i - 1] in "(;=") else None)
        if tag:
            j = i + len(tag)
            while j < n and (s[j].isdigit() or s[j] in ".,-"):
                j += 1
            body = s[i + len(tag):j]
            if tag[0] == "S":
                leaves.append((tag == "S1:", dec(body)))
            elif tag == "Y:":
                leaves.append((False, "bytes:" + bytes(int(x) for x in body.split(",") if x not in ("", "-")).decode("utf-8", "replace")))
            else:
                leaves.append((False, ("obj:" if tag == "O:" else "float:") + dec(body)))
            i = j
        else:
            i += 1
    return leaves


def run(r):
    r.rule = ("stream F/C: every registered filter/function/operator x 2 metacharacter role passes x content variants x all "
              "Safe/Normal assignments of its string arguments; stream P: seeded generated programs (macros, call blocks, "
              "set/filter blocks, loops, recursion, includes, imports, 2-3 level inheritance, *.html/*.xml/*.htm/.j2 names) "
              "with data strings over < > \" ' & / Greek, whitespace; W: program body wrapped in 8 capture constructs; "
              "M: 6 capture kinds x 5 autoescape regions x 3 data strings; N: 14 template names; X: all Unicode scalar values. "
              "A case is non-trivial when the engine rendered/evaluated it without error and it is distinct")
    r.assumptions = [
        "programs of the fragment decompose into the step sequences produced by the harness flattener (validated by byte-equal output per program)",
        "filters without an exact model satisfy their class predicate (forward/normal) on all inputs, not only the sampled ones",
        "template names outside *.html/*.htm/*.xml(+.j2/.jinja/.jinja2), custom formatters and custom auto-escape callbacks are outside the property",
        "contrib filters behind cargo features not enabled in the harness (random, lipsum, wordcount, wordwrap, datetime) are classified from reading only",
    ]
    st = r.regen_tables(TABLES)
    r.lean_prove("MJ.Props.C02", "MJ/Audit/C02.lean", extra_targets=["drive_c02"])
    exe = r.cargo_build("c02")
    if exe is None:
        return
    rc, out, err = r.harness(exe, ["gen", r.tier])
    if rc != 0:
        r.broken.append(f"harness c02 exited {rc}: {err[-300:]}")
        return
    cases = []
    for line in out.splitlines():
        cj, _, res = line.partition("\t")
        cases.append((cj, json.loads(cj), res))
    # ---- model runs
    names = st["items"].get("FILTER_NAMES") or {"builtin": [], "contrib": [], "functions": []}
    all_names = (list(names["builtin"]) + list(names["contrib"]) + list(names["functions"])
                 + list(st["items"].get("PYCOMPAT_METHODS") or []))
    inp = [f"?class\t{n}" for n in all_names]
    for i, (_, c, _) in enumerate(cases):
        if c.get("model"):
            inp.append(f"{i}\t{c['model']}")
        elif c.get("prog"):
            inp.append(f"{i}\tPROG\t{c['strict']}\t{c['prog']}\t{c['ctxsx']}")
    mlines = r.driver("drive_c02", "\n".join(inp) + "\n")
    no_model = mlines is None   # (already recorded as broken) — the engine-only oracles still run
    if no_model:
        mlines = []
        r.model_disagreement = lambda *a, **k: None
    classes, model = dict(LOCAL_CLASS), {}
    for ml in mlines:
        f = ml.split("\t")
        if f[0] == "?class":
            classes[f[1]] = f[2]
        else:
            model[int(f[0])] = f[1:]
    for n in ([] if no_model else all_names):
        if classes.get(n, "unclassified") == "unclassified":
            r.broken.append(f"filter/function `{n}` is registered in /repo but has no safety class in MJ/Model/Safe.lean")
    ok_by_name = collections.Counter()
    seen_names = set()
    not_registered = set()
    for i, (cj, c, res) in enumerate(cases):
        s = c["s"]
        rf = res.split("\t")
        r.hist["stream"][s] += 1
        r.hist["engine_result"][rf[0]] += 1
        if rf[0].startswith("PANIC"):
            r.oracle_failure(cj, "engine panicked: " + dec(rf[0][6:]), "panic:" + s)
            continue
        m = model.get(i)
        if m is not None and m[0].startswith("BAD"):
            r.broken.append(f"model driver rejected case {i}: {m[0]}")
            continue
        if s in ("F", "C"):
            name, pat = c["name"], c["pattern"]
            cls_override = None
            if "#" in name:      # a row that checks a variant of a modelled filter against a class only
                name, cls_override = name.split("#")
                if cls_override not in ("select", "normal", "forward", "pieces"):
                    cls_override = LOCAL_CLASS.get(c["name"], cls_override)
            seen_names.add(name)
            cls = cls_override or classes.get(name, "unclassified")
            key = f"{s}:{c['expr']}:{pat}:{c['dm']}:{','.join(c['args'])}"
            r.hist["filter"][name] += 1
            if rf[0] in ("ERR:UnknownFilter", "ERR:UnknownFunction", "ERR:UnknownMethod"):
                not_registered.add(name)
                r.hist["not_registered"][name] += 1
                continue
            if rf[0] != "OK":
                r.count(key, False)
                r.hist["filter_errors"][name + ":" + rf[0]] += 1
                if m is not None and m[0] != "ERR":
                    r.model_disagreement(cj, res, "\t".join(m))
                continue
            ok_by_name[name] += 1
            r.count(key, True)
            site = f"filter:{name}:{pat}"
            leaves = parse_enc(rf[1])
            in_safe = {t for a in c["args"] for (sf, t) in parse_enc(a) if sf}
            if cls != "markup":
                for sf, t in leaves:
                    if sf and any(ch in c["dm"] for ch in t):
                        r.oracle_failure(cj, f"`{c['expr']}` with argument safety {pat} returned a Safe string holding a "
                                             f"metacharacter of an unmarked argument: {t!r}", site)
                        break
            if m is not None:
                if m[0] != "OK" or m[1] != rf[1]:
                    r.model_disagreement(cj, res, "\t".join(m))
            elif cls == "forward" or cls == "mapped":
                bad = [t for sf, t in leaves if sf and t not in in_safe]
                if bad:
                    r.oracle_failure(cj, f"class forward violated: `{c['expr']}` ({pat}) created Safe string {bad[0]!r}", site)
            elif cls == "select":
                in_all = {(sf, t) for a in c["args"] for (sf, t) in parse_enc(a) + arg_key_leaves(a)}
                bad = [(sf, t) for sf, t in leaves if (sf, t) not in in_all]
                if bad:
                    r.oracle_failure(cj, f"class select violated: `{c['expr']}` ({pat}) returned string {bad[0][1]!r} "
                                         f"(safe={bad[0][0]}) that is no argument leaf with that bit", site)
            elif cls == "pieces":
                bad = [t for sf, t in leaves if sf and not any(t in u for u in in_safe)]
                if bad:
                    r.oracle_failure(cj, f"class pieces violated: `{c['expr']}` ({pat}) created Safe string {bad[0]!r}", site)
            elif cls == "markup":
                pass
            elif cls == "normal":
                bad = [t for sf, t in leaves if sf]
                if bad:
                    r.oracle_failure(cj, f"class normal violated: `{c['expr']}` ({pat}) returned Safe string {bad[0]!r}", site)
            elif not no_model:
                r.broken.append(f"stream C case for `{name}` has class {cls} but no exact model")
            if len(r.samples) < 4 and i % 500 == 7:
                r.sample({"filter_call": c["expr"], "args": c["args"], "engine": rf[1]})
        elif s in ("P", "K"):
            for ft in c["feats"]:
                r.hist["program_features" if s == "P" else "kind_probe"][ft] += 1
            r.hist["template_name"][c["main"]] += 1
            okp = rf[0] == "OK"
            r.count(s + ":" + json.dumps(c["t"], sort_keys=True) + json.dumps(c["ctx"], sort_keys=True), okp and rf[2] != "-")
            if not okp:
                r.hist["program_errors"][rf[0]] += 1
                if m is None or m[0] != "ERR":
                    r.model_disagreement(cj, res, "\t".join(m or []))
                continue
            text = dec(rf[2])
            raw = sorted(METAS & set(text))
            if raw:
                r.oracle_failure(cj, f"output of a safe-marking-free program contains raw {''.join(raw)!r} "
                                     f"(template text has none): …{text[max(0, text.index(raw[0]) - 20):text.index(raw[0]) + 20]!r}…",
                                 "program:raw-metachar" if s == "P" else f"print:{c['kind']}:{c['probe']}")
            if m is None or m[0] != "OK" or m[2] != rf[2]:
                mt = dec(m[2]) if m is not None and m[0] == "OK" else None
                if mt is not None and len(text) > len(mt) and text.count("&amp;") > mt.count("&amp;"):
                    r.oracle_failure(cj, f"already escaped output escaped a second time: engine {text[:120]!r} model {mt[:120]!r}",
                                     "program:double-escape")
                elif not raw:
                    r.model_disagreement(cj, res, "\t".join(m or []))
            elif m[3] != "clean":
                r.broken.append(f"model output of a fragment program is not clean (case {i}) — theorem/driver mismatch")
            if i % 700 == 3:
                r.sample({"templates": c["t"], "ctx": c["ctx"], "output": text[:200]})
        elif s == "W":
            r.hist["wrapper"][c["kind"]] += 1
            r.count("W:" + c["kind"] + json.dumps(c["t"], sort_keys=True), rf[0] == "OK")
            if m is not None and (m[0] == "OK") != (rf[0] == "OK") or (m is not None and m[0] == "OK" and rf[0] == "OK" and m[2] != rf[2]):
                r.model_disagreement(cj, res, "\t".join(m))
            if res != c["plain"]:
                pt = c["plain"].split("\t")
                r.oracle_failure(cj, f"body wrapped in {c['kind']} renders differently: "
                                     f"{dec(rf[2])[:100] if rf[0] == 'OK' else res!r} vs plain {dec(pt[2])[:100]!r}",
                                 "wrap:" + c["kind"])
        elif s in ("M", "N"):
            key = f"{s}:{c.get('kind', c.get('name'))}:{c.get('region', '')}:{c['ctx']['d']}"
            r.count(key, rf[0] == "OK")
            label = c.get("kind") or c.get("name")
            r.hist["probe"][f"{s}:{label}:{c.get('region', c.get('mode'))}"] += 1
            if m is None or rf[0] != "OK" or m[0] != "OK" or m[2] != rf[2]:
                r.model_disagreement(cj, res, "\t".join(m or []))
                if rf[0] == "OK" and c["mode"] in ("n", "h") and METAS & set(dec(rf[2])):
                    r.oracle_failure(cj, f"{label}: data written raw: {dec(rf[2])!r}",
                                     f"{c.get('site', 'name')}:{c.get('region', c.get('name'))}->html")
                continue
            text = dec(rf[2])
            if s == "M" and m[3] != "clean":
                r.oracle_failure(cj, f"{c['kind']} captured under autoescape {c['region']} is marked safe and printed raw "
                                     f"under Html: {text!r}", f"{c['site']}:{ {'j': 'json', 'n': 'none', 'h': 'html'}[c['mode']] }->html")
            elif c["mode"] in ("n", "h") and s == "M" and METAS & set(text):
                r.oracle_failure(cj, f"{label}: data written raw: {text!r}", f"{c['site']}:{c['region']}->html")
            elif s == "N" and c["mode"] == "h" and METAS & set(text):
                r.oracle_failure(cj, f"template name {c['name']}: data written raw: {text!r}", "name:" + c["name"])
        elif s == "X":
            r.count(f"X:{c['name']}:{c['prefix']}", True, n=int(c["chars"]))
            r.hist["unicode"][c["name"]] += int(c["chars"])
            if rf[0] != "OK":
                r.oracle_failure(cj, f"{c['name']} maps a non-metacharacter to a metacharacter (code points {rf[1]}) or "
                                     f"drops the safe bit ({rf[2]} chunks)", f"filter:{c['name']}:unicode")
    # ---- coverage of the class table by real calls
    for n in ([] if no_model else all_names):
        cls = classes.get(n, "")
        if cls.startswith("unbuilt") or cls == "unclassified" or (n in not_registered and ok_by_name[n] == 0):
            continue
        if n not in seen_names:
            r.broken.append(f"no stream F/C case exercises `{n}` (class {cls})")
        elif ok_by_name[n] == 0:
            r.broken.append(f"`{n}` never evaluated successfully in stream F/C")
    r.extra["classes"] = {n: classes.get(n) for n in all_names}
    r.extra["n_cases"] = dict(r.hist["stream"])
    r.extra["stage"] = ("programs/syntactic-fragment: theorem program_no_raw_tainted_meta is stated over template programs "
                        "(HtmlOnlyP p -> output of execProg false p ctx is clean) and over the guarded interpreter "
                        "(execProg true) without premise; the driver runs the guarded interpreter on generated programs")


def replay(r, path):
    d = json.load(open(path))
    exe = r.cargo_build("c02")
    for case in [d.get("case")] + d.get("more_cases", [])[:2]:
        if not case:
            continue
        rc, out, err = r.harness(exe, ["one", case])
        print(out)
        c = json.loads(case)
        if c.get("model") or c.get("prog"):
            line = f"0\t{c['model']}\n" if c.get("model") else f"0\tPROG\t{c['strict']}\t{c['prog']}\t{c['ctxsx']}\n"
            m = r.driver("drive_c02", line)
            if m:
                f = m[0].split("\t")
                print("--- model:", f[1], f[2] if len(f) > 2 else "", f[4] if len(f) > 4 else "")
                if len(f) > 3:
                    print("--- model output text\n" + dec(f[3]))
    return 0
