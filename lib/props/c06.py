"""C06 — inheritance, super(), include and import compose templates as specified (DESIGN.md §3 C06)."""
import json, re, sys

READY = True

META = {
    "technique": "Lean 4 proof (block-stack driver with LoadBlocks / parent switch / depth cursor / BlockState::Replace / recursion-limit accounting refines a stack-free specification for every environment of the fragment and every fuel; termination, cycle, double-extends, missing-template, include-candidate-selection, variable-visibility and import theorems) + differential correspondence of the model with the real engine on enumerated and sampled template environments",
    "category": "proof",
    "text": "Kernel-checked theorems about MJ/Model/Blocks.lean (transcription of LoadBlocks, the end-of-instructions parent switch, call_block incl. self.name() and required blocks, perform_super emitted and captured, perform_include, import/from-import codegen, loops, macro calls (BlockState::Isolate: the block table and its cursors stay visible), variable frames, the undefined behaviour (tables regenerated from utils.rs and vm/mod.rs), the auto-escape mode (each template's initial mode as the default callback derives it from the name — extension table regenerated from defaults.rs; include/import switch to the included template's own mode and back, blocks / super() / macros / the parent layout keep the current mode, {% autoescape %} blocks nested up to AE_NEST_MAX = 8 deep directly in one another; write_escaped with the regenerated escape table) and the recursion limit = outer_stack_depth + frames with INCLUDE_/MACRO_RECURSION_COST regenerated from the sources). THE ARGUMENT of include / import / from-import is a value of the model (Arg: not an object — a string or another primitive — or an object of some ObjectRepr together with what try_iter() yields, or an object that cannot be iterated); `choices` (the candidates perform_include builds) and `notFoundRaised` (the tail condition) interpret tables regenerated from vm/mod.rs on every run (C06_INCLUDE_CHOICES: which ObjectReprs reach try_iter() — every filter in front of it removes kinds —, what the fallback arm is, the atoms of the TemplateNotFound condition), `select` is the candidate-selection rule and `includeTemplate` what happens to the selected template. blocks_refine_spec — for every environment whose templates are built from text, variables, set, macros, block tags, self.name(), super() ANYWHERE (block bodies, macro bodies, outside of blocks — where in an included chain the engine resolves it against the name of the block the include tag stands in: specChain's `inh`), required blocks, conditional extends (executed or not, anything before/behind it), include / import / from-import of any argument value (names, non-string scalars, lists, tuples, lazily evaluated iterables, one-shot iterators, maps, enumerable and non-iterable objects; ignore missing; included templates being inheritance chains of their own), loops, nested autoescape blocks and macro calls whose bodies may reference blocks, with well-founded block nesting, and for every fuel, the stateful driver returns exactly the output or error chain of the specification (no block stacks, no cursor, no capture stack, no loaded set; the spec reads the candidates off the value without any table: Arg.cands); corollaries block_renders_most_derived, super_goes_one_up, untouched_falls_through, child_text_discarded; render_block_most_derived / render_block_on_fresh_state, rendering_terminates (the recursion limit, not the model's fuel, bounds every nest; the driver runs with exactly the proven fuel), extends_terminates / cycle_is_detected_error, include_cycle_errors, double_extends_error, missing_is_error_not_truncation, include_first_existing, include_ignore_missing_forgives_only_missing, import_exports_toplevel (for any argument whose first existing candidate is the module), import_of_extending_template, include_keeps_closures_apart. NEW (include argument): include_candidates_any_iterable (every object that can be iterated yields its elements whatever its ObjectRepr, a non-object is one name, a non-iterable object is one non-string name, never `no candidates`; the model's ORepr covers exactly the enum's variants — an added filter on the object kind makes it false), include_follows_selection (perform_include = select, then render / load error / not-a-string error / TemplateNotFound iff something was tried and ignore missing is off), selection_is_first_existing (the selected template is the first candidate that exists, in iteration order, for every kind of carrier; conversely only missing names stand in front of it), include_renders_first_existing (statement level), include_nothing_exists (no candidate exists and something was asked for: TemplateNotFound unless ignore missing), include_never_silently_skips (Ok implies: a candidate was rendered and the result is its result, or the argument yields no candidate at all, or ignore missing was given and every candidate is a missing name). NEW (variables): include_sees_includer_variables (the included template runs on the includer's own frame stack: `{{ v }}` in it prints what a lookup at the include tag finds — loop variable, block frame, sets made so far, render context), include_assigns_into_current_frame_only (a successful include returns the same number of frames and every frame below the current one unchanged), import_leaves_importer_variables (import / from-import leave ALL of the importer's frames unchanged and bind exactly the fresh frame's locals / one of its values), super_outside_blocks. The model is tied to /repo by rendering every generated environment with the real engine in supervised child processes (hang / stack overflow = failure) and comparing output or the exact error-kind chain with the Lean model: all 1- and 2-template block assignments exhaustively, sampled chains of up to 4 templates with 48 kinds of include/import/self-call snippets at top level, in loops, macros, blocks and autoescape blocks, static/dynamic/conditional extends, captured super, required blocks, cycles, double extends, missing and unloadable templates, closures across composition, auto-escape mode crossings, and the enumerated ARGUMENT AXIS (family incl-arg: {string, non-string scalars, list literal, tuple, Vec from the environment, sliced list, |reverse, Value::make_iterable, one-shot iterator, list repetition, map literal, BTreeMap, enumerable plain object, non-iterable object} x {first candidate exists, a later one, none, one name, empty, non-string entries before / behind an existing name} x {ignore missing or not} x {include, import, from-import of a macro, from-import of a variable} x {top level, loop, macro call, autoescape block, block}), variable visibility (includer's set before/after, loop variable, block frame, macro argument x include/import/from-import), super() outside of blocks in included chains, block references in macro bodies, nested autoescape blocks; template names carry mixed extensions and the variable values contain the characters the modes treat differently; the Lean specification itself is evaluated on every case inside the fragment, an independent substitution-style spec in Python (which reads the candidates off the argument without looking at the object kind) is the oracle, and a metamorphic oracle checks for every case that a wrapper template of another mode that only includes t0 renders exactly what t0 renders on its own. SESSION 4: (1) PER-ACTIVATION STATE ACROSS THE PARENT SWITCH — MJ/Model/BlocksAct.lean models the id-indexed caches of an activation (`loaded_filters` / `loaded_tests`, filled in execution order by get_or_lookup_local, indexed by the per-stream local ids code generation hands out in source order) over any sequence of uses and switches to parent streams; wiped_cache_is_transparent (a cache wiped at every switch behaves like no cache, for every chain of switches), parent_switch_resets_per_template_state (every local of eval_impl that the regenerated table C06_ACTIVATION_STATE finds as an argument of get_or_lookup_local is assigned UNCONDITIONALLY in the end-of-instructions arm — a reset moved under a condition turns the row into `conditional` and the theorem stops building), every_activation_resolves_its_own_names (the whole render: block bodies, super() definitions, included / imported templates and macro bodies are activations of their own with empty caches — events call / ret over a stack of suspended callers, each activation free to switch to parents of its own; with the treatment the table reports, every use in every activation resolves the name its own current stream gives the id), carried_cache_is_wrong / wipe_if_slot0_is_wrong (why: ids are handed out in source order, slots fill in execution order), activation_state_classified (locals: reset / taken / carried, carried ones are not id-indexed; State fields: exactly `instructions` is re-targeted, blocks / loaded_templates / current_block / auto_escape / ctx are carried — which is what MJ.Blocks.evalImpl models). Behavioural side: items `fx` = pure expressions applying one of 6 filters / performing one of 7 tests (printed, hidden in a branch that is not taken, hidden behind a short-circuit), anywhere an item can stand (layouts, blocks, loops, macro bodies, autoescape blocks, included / imported templates); to model and specification such an expression is text: what it prints when rendered ON ITS OWN in a fresh environment (computed by the harness per name, so a changed builtin filter is not an alarm) — wherever it stands and whatever ran before in the same activation; extends decided by a test (mode q: `{% if 3 is number %}`); family local-ids (child and parent use different names at the same local ids, the child's first use hidden in branch / short-circuit / macro body / block, before / behind the tag, static / dynamic / conditional / test-decided extends, chains of 2 and 3), local-ids-cond, and +fx decorated random chains. (2) FAILURE AND RECOVERY ON ONE STATE — item `fuse` (`{{ fuse() }}` prints nothing; while the harness has it armed its k-th call fails), family recover (chains of 2..3 x super before / after / captured per level x fuse at every level and position x nested block) and fuses sprinkled over decorated chains; recovery stream: on the State left by render_captured, render every block (reference), render it with the fuse armed for k = 1..3 (must fail), then render all three blocks again: each must equal its reference (a failed render of a block must not move any block's cursor: the next render still starts at the most-derived definition). The same INSIDE one render: item `tryb` (`{{ try_block('b<n>', k) }}`: a function taking &mut State renders block n on the running State with the fuse armed at k, swallows whatever happens and prints nothing — to model and specification it is empty text, since a render of a block leaves no variables behind), placed at the top level of chain templates (family recover-in-render: the root's layout first tries the block, then renders it; and in decorated chains). SEVERAL super() PER DEFINITION — family multi-super: every definition of b0 at every level of a chain of 3..4 templates holds a sequence of 0..3 super() calls, each the plain statement (FastSuper) or in value position (set-assigned then printed: the captured path of perform_super), in every order (exhaustive: 3 levels with sequences up to 3, 4 levels with sequences up to 2 / 2 / 1); other value-position spellings (filtered, concatenated, passed as argument) compile to the same CallFunction path and are not generated separately. (3) ENTRY POINTS — render_captured (output), render_captured_to (what was written), Environment::render_named_str (a template not stored in the environment) must give what Template::render gives, State::render_block_to_write what State::render_block gives. (4) NAME SHAPES — sixth configuration digit: variables / macros / exports are spelled v3, _v3 or V3_ (an import exposes EXACTLY the top-level names, whatever they look like).",
    "design_ref": "DESIGN.md §3 C06",
    "level_note": "Trusted: Lean kernel; hand transcription of vm/mod.rs (LoadBlocks, end of instructions, call_block, perform_super, perform_include, ExportLocals, macro calls), vm/state.rs (BlockStack, with_execution_state), vm/context.rs (depth accounting) and the Import/FromImport/Extends/Block code generation into MJ/Model/Blocks.lean, validated differentially (not proved) on ~2.0e4 (quick) / ~1.5e5 (thorough) environments; the table extractor lib/tables/c06.py (shapes it does not recognise are reported missing = broken tie); the pretty-printer from abstract templates to Jinja source and the mapping `argument kind -> (ObjectRepr, what it yields)` in harness/src/bin/c06.rs and MJ/Drive/C06.lean (a wrong mapping shows up as a model disagreement). MOVED FROM VALIDATED TO PROVED in this round: the include / import / from-import argument as a value of any kind with the candidate-selection rule (was: lists of names only); super() at the top level of an included template and in macro bodies (was excluded from the fragment; the spec now carries the inherited block name); block references from inside macro bodies (was excluded; macro bodies now count as part of the enclosing block body); an autoescape block directly inside another one (was `unsupported`; now nested up to 8 deep, with the fuel bound of rendering_terminates extended accordingly); the variable visibility rule of include and the isolation rule of import (were implicit in the shared frame threading; now separate theorems via the frames-below invariant of Rel). SESSION 4 moved from validated to proved: the reset of the id-indexed per-activation caches at the parent switch (was: not modelled at all; now a model of its own with the tie to the source by table). STILL outside the proven fragment (validated by the correspondence only, ~0.5% of the generated cases): block references from a block to a lower- or equal-numbered block (block recursion; there the engine renders the definition at the cursor level, not the most-derived one, and the error chains of the ensuing recursion differ), extends inside loops / macros / blocks (the model answers `unsupported`; not generated), {% call %} blocks (not modelled: `caller` is a macro value that closes over the calling activation's frames AND its current block; bringing it in means a second kind of callable in Val plus the caller-closure rules of C18, i.e. a new simulation argument for Rel, not an extension of the existing one), closures opened inside the body of a macro call (macros with parameters / nested macro definitions: the model's closure heap is per file and scope, a macro-local closure needs a frame-indexed heap — same reason), the recursion cost of calling a closure macro; block recursion stays out because there the ENGINE, not the model, departs from the property's reading (a block referencing a lower- or equal-numbered block renders the definition at the cursor level): the specification would have to carry the cursor, which is exactly what it abstracts from. The activation model BlocksAct is tied to the source by table and by the fx streams, not by a proof that MJ.Blocks.evalImpl refines it (filters and tests are not items of MJ.Blocks: to it a pure expression is its value). In-render recovery is generated only in the form whose result is dropped (`tryb` prints nothing whether the nested render failed or not): the model has no catch, so a helper that prints the block on success and a fallback on failure is outside it; `tryb` is never placed inside block bodies (it would recurse). Recorded finding (KNOWN_FINDINGS, family super-inherited): super() outside of blocks in an included chain that defines the includer's block name twice renders the second definition instead of failing; model and Lean specification describe it, the Python oracle reports it. The specification threads variable frames exactly like the engine (it abstracts from the block machinery, not from variable scoping).",
}

ARG_RE = re.compile(r" (ia [01]|impa|froma) ([a-z]+) ")
LIMIT = 60  # nesting bound of the Python spec (only cycles reach it)


# ---------------------------------------------------------------------------- case parser
class Toks:
    def __init__(self, s):
        self.t = s.split()
        self.i = 0

    def next(self):
        x = self.t[self.i]
        self.i += 1
        return x

    def num(self):
        return int(self.next())

    def items(self):
        return [self.item() for _ in range(self.num())]

    def arg(self):
        """kind k cand..: the value behind include / import / from-import; a candidate is a template
        index (the string naming it) or None (a value that is not a string)"""
        kind = self.next()
        cands = []
        for _ in range(self.num()):
            t = self.next()
            cands.append(None if t.startswith("!") else int(t))
        return (kind, cands)

    def item(self):
        k = self.next()
        if k == "t":
            return ("text", self.next())
        if k == "fx":
            # a pure expression with one filter / test: prints what it prints on its own, wherever
            # it stands (hidden in a branch that does not run: nothing)
            hide = self.num()
            self.next()
            exp = self.next()
            return ("text", exp if hide == 0 else "")
        if k == "fuse":
            return ("text", "")
        if k == "tryb":
            # a helper renders a block on the running State, swallows its failure, prints nothing
            self.num()
            self.num()
            return ("text", "")
        if k == "b":
            return ("block", self.num())
        if k == "s":
            return ("super",)
        if k == "x":
            ex = self.num() == 1
            mode = self.next()
            return ("extends", ex, mode, self.num())
        if k == "i":
            ign = self.num() == 1
            n = self.num()
            names = [self.num() for _ in range(n)]
            return ("incl", ("str" if n == 1 else "lit", names), ign)
        if k == "ia":
            ign = self.num() == 1
            return ("incl", self.arg(), ign)
        if k == "impa":
            a = self.arg()
            return ("imp", a, self.num())
        if k == "froma":
            a = self.arg()
            return ("from", a, self.num(), self.num())
        if k == "v":
            return ("var", self.num())
        if k == "set":
            return ("set", self.num(), self.next())
        if k == "mac":
            return ("mac", self.num(), self.next())
        if k == "macv":
            return ("macv", self.num(), self.num())
        if k == "imp":
            return ("imp", ("str", [self.num()]), self.num())
        if k == "from":
            return ("from", ("str", [self.num()]), self.num(), self.num())
        if k == "attr":
            return ("attr", self.num(), self.num())
        if k == "keys":
            return ("keys", self.num())
        if k == "call":
            return ("call", self.num())
        if k == "req":
            return ("req",)
        if k == "ssuper":
            return ("ssuper", self.num())
        if k == "sself":
            return ("sself", self.num(), self.num())
        if k == "self":
            return ("block", self.num())
        if k == "for":
            v = self.num()
            n = self.num()
            vals = [self.next() for _ in range(n)]
            return ("for", v, vals, self.items())
        if k == "inmac":
            return ("inmac", self.num(), self.num(), self.next(), self.items())
        if k == "ae":
            return ("ae", self.next(), self.items())
        if k == "bad":
            return ("bad", self.num())
        raise ValueError("bad item tag " + k)


def parse_case(line):
    tk = Toks(line)
    fam = tk.next()
    env = []
    for _ in range(tk.num()):
        assert tk.next() == "T"
        ext = tk.next()
        layout = tk.items()
        blocks = {}
        for _ in range(tk.num()):
            n = tk.num()
            blocks[n] = tk.items()
        ext, _, broken = ext.partition("!")
        env.append((layout, blocks, mode_of_name("t." + ext), broken or None))
    return fam, env


# ---------------------------------------------------------------------------- the spec (oracle)
V0 = "C<&\"'/\u00e90"   # the harness' render context value of v0


def mode_of_name(name):
    """the environment's default auto-escape callback, read off the documentation of
    `Environment::set_auto_escape_callback` / `default_auto_escape_callback`"""
    for ign in (".j2", ".jinja2", ".jinja"):
        if name.endswith(ign):
            name = name[: -len(ign)]
            break
    ext = name.rsplit(".", 1)[-1]
    if ext in ("html", "htm", "xml"):
        return "html"
    if ext in ("json", "json5", "js", "yaml", "yml"):
        return "json"
    return "none"


def fmt(mode, s):
    """how `{{ value }}` prints a plain string under an auto-escape mode"""
    if mode == "html":
        return (s.replace("&", "&amp;").replace("<", "&lt;").replace(">", "&gt;").replace('"', "&quot;")
                .replace("'", "&#x27;").replace("/", "&#x2f;"))
    if mode == "json":
        return json.dumps(s, ensure_ascii=False)
    return s


def load_error(env, t):
    """what looking up template t reports when the name exists but cannot be loaded (None: loads fine).
    `ignore missing` never applies to these: the template is not missing."""
    kind = env[t][3]
    if kind is None:
        return None
    return {"s": "SyntaxError@t%d" % t, "r": "InvalidOperation", "c": "BadSerialization"}[kind]


class SpecErr(Exception):
    """the specification says: rendering is an error of this (innermost) kind"""

    def __init__(self, kind):
        self.kind = kind


UNDEF = ("undef",)


class Spec:
    """Substitution-style reading of the property statement.  No block stacks, no cursor, no
    capture stack: an inheritance chain is resolved into `defs[name] = [most derived, ..., least
    derived]`, a block reference renders `defs[name][0]`, `super()` at level k renders level k+1,
    everything outside blocks after an executed `extends` produces no output, an include renders
    the first existing template as its own chain with the current variables, an import exposes
    exactly what the imported template assigned at its top level."""

    def __init__(self, env, ub=0):
        self.env = env
        self.ub = ub          # 0 lenient, 1 chainable, 2 semi-strict, 3 strict
        self.main_defs = None
        self.heap = []        # the closures of the render: one per file / frame that declared a macro with free variables
        self.root_ctx = {0: ("str", V0)}
        self.mode = "none"  # the current auto-escape mode

    def assign(self, scopes, name, val):
        """a `set` / macro definition / import target: into the current scope and, when macros with
        free variables were declared in this scope *by this file*, into their closure as well"""
        scopes[-1][name] = val
        if "__c" in scopes[-1]:
            self.heap[scopes[-1]["__c"]][name] = val

    def lookup(self, scopes, v):
        for sc in reversed(scopes):
            if v in sc:
                return sc[v]
        return self.root_ctx.get(v)

    def render(self):
        if load_error(self.env, 0):
            raise SpecErr(load_error(self.env, 0))
        self.mode = self.env[0][2]
        self.root_scopes = [{}]
        return "".join(self.template(0, self.root_scopes, False, 0))

    def render_block_after_render(self, n):
        """Template::render_captured + State::render_block: the block is resolved against the
        whole chain the render followed, on the variables the render left at top level"""
        self.render()
        self.mode = self.env[0][2]
        return "".join(self.block(self.main_defs, n, self.root_scopes, False, 0))

    def render_block_fresh(self, n):
        """Template::new_state().render_block: only the template's own blocks, no context"""
        if load_error(self.env, 0):
            raise SpecErr(load_error(self.env, 0))
        self.mode = self.env[0][2]
        self.root_ctx = {}
        defs = {k: [b] for k, b in self.env[0][1].items()}
        return "".join(self.block(defs, n, [], False, 0))

    def undef(self, say):
        if self.ub >= 2:
            raise SpecErr("UndefinedError")
        return say("null") if self.mode == "json" else []

    def captured(self, txt):
        return ("str", txt) if self.mode == "none" else ("safe", txt)

    def template(self, idx, scopes, silent, depth):
        """render template idx (and whatever it extends) → list of pieces"""
        if depth > LIMIT:
            raise SpecErr("InvalidOperation")
        out = []
        defs = {}
        extended = set()
        t = idx
        for n, b in self.env[t][1].items():
            defs.setdefault(n, []).append(b)
        while True:
            layout, blocks = self.env[t][0], self.env[t][1]
            parent = None
            for it in layout:
                if it[0] == "extends":
                    if not it[1]:
                        continue
                    if parent is not None:
                        raise SpecErr("InvalidOperation")  # second extends
                    if it[3] in extended:
                        raise SpecErr("InvalidOperation")  # inheritance cycle
                    if it[3] >= len(self.env):
                        raise SpecErr("TemplateNotFound")
                    if load_error(self.env, it[3]):
                        raise SpecErr(load_error(self.env, it[3]))
                    extended.add(it[3])
                    parent = it[3]
                    # from here on the parent's definitions are known (behind the tag nothing
                    # renders blocks except macro bodies and captured self-calls inside them)
                    for n, b in self.env[parent][1].items():
                        defs.setdefault(n, []).append(b)
                    continue
                # after an executed extends nothing outside blocks is rendered (side effects and
                # errors of statements still happen)
                quiet = silent or parent is not None
                out += self.item(it, defs, None, scopes, quiet, parent is not None, depth)
            if parent is None:
                if depth == 0 and idx == 0 and scopes is getattr(self, "root_scopes", None):
                    self.main_defs = defs
                return out
            t = parent

    def body(self, defs, n, k, scopes, silent, depth):
        if depth > LIMIT:
            raise SpecErr("InvalidOperation")
        scopes.append({})
        try:
            out = []
            for it in defs[n][k]:
                out += self.item(it, defs, (n, k), scopes, silent, False, depth)
            return out
        finally:
            scopes.pop()

    def block(self, defs, n, scopes, silent, depth):
        """a block reference ({% block %}, self.n()): the most-derived definition"""
        ds = defs.get(n, [])
        if not ds:
            raise SpecErr("UnknownBlock")
        if len(ds) == 1 and ds[0] == [("req",)]:
            raise SpecErr("InvalidOperation")  # required block not provided
        return self.body(defs, n, 0, scopes, silent, depth + 1)

    @staticmethod
    def candidates(arg):
        """the property: "the named template (or the first existing one of a list)".  A value that
        can be iterated is the list of what it yields — a list, a tuple, a lazily evaluated
        sequence, an iterator, a map (its keys), an object that enumerates: the statement does not
        depend on which; anything else is one name (and a name has to be a string)."""
        kind, cands = arg
        if kind in ("str", "sc"):
            return [cands[0]]
        if kind == "plain":
            return [None]           # neither a string nor iterable: not a template name
        if kind == "rep":
            return cands + cands    # the list repeated twice
        if kind in ("lit", "tup", "ctx", "slice", "rev", "lazy", "once", "map", "ctxmap", "pobj"):
            return list(cands)
        raise NotImplementedError

    def include(self, arg, ign, scopes, silent, depth):
        missing = False
        for t in self.candidates(arg):
            if t is None:
                raise SpecErr("InvalidOperation")  # template name is not a string
            if t < len(self.env) and load_error(self.env, t):
                # the name exists but cannot be loaded: that is not "missing"
                raise SpecErr(load_error(self.env, t))
            if t < len(self.env):
                # the included template renders as it would on its own: in the mode of its name
                saved, self.mode = self.mode, self.env[t][2]
                # closures are per file: the included file neither writes into the includer's
                # closure nor shares it for its own macros
                mine = scopes[-1].pop("__c", None) if scopes else None
                try:
                    return self.template(t, scopes, silent, depth + 1)
                finally:
                    self.mode = saved
                    if scopes:
                        scopes[-1].pop("__c", None)
                        if mine is not None:
                            scopes[-1]["__c"] = mine
            missing = True
        if missing and not ign:
            raise SpecErr("TemplateNotFound")
        return []

    def item(self, it, defs, cur, scopes, silent, extending, depth):
        k = it[0]
        say = (lambda s: []) if silent else (lambda s: [s])
        if k == "text":
            return say(it[1])
        if k == "block":
            if silent or extending:
                return []
            return self.block(defs, it[1], scopes, silent, depth)
        if k == "super":
            if cur is None:
                raise SpecErr("InvalidOperation")
            n, lvl = cur
            if lvl + 1 >= len(defs.get(n, [])):
                raise SpecErr("InvalidOperation")
            return self.body(defs, n, lvl + 1, scopes, silent, depth + 1)
        if k == "incl":
            # an included template is its own inheritance chain; `cur` does not reach into it
            # except that super() at its top level has no parent block
            return self.include(it[1], it[2], scopes, silent, depth)
        if k == "var":
            v = self.lookup(scopes, it[1])
            if v is None or v == UNDEF:
                return self.undef(say)
            if v[0] == "str":
                return say(fmt(self.mode, v[1]))
            if v[0] == "safe":
                return say(v[1])
            if v[0] == "mac":
                if self.mode == "json":
                    return say('{"name":"v%d","arguments":[],"caller":false}' % v[1])
                return say(fmt(self.mode, "<macro v%d>" % v[1]))
            raise NotImplementedError
        if k == "set":
            self.assign(scopes, it[1], ("str", it[2]))
            return []
        if k == "mac":
            self.assign(scopes, it[1], ("mac", it[1], it[2]))
            return []
        if k == "macv":
            # a macro with the free variable it[2]: the scope's closure (one per file and scope) is
            # opened on first use and holds the variable's value as of now; later assignments in
            # this scope by this file update it
            top = scopes[-1]
            if "__c" not in top:
                top["__c"] = len(self.heap)
                self.heap.append({})
            c = top["__c"]
            if it[2] not in self.heap[c]:
                v = self.lookup(scopes, it[2])
                self.heap[c][it[2]] = UNDEF if v is None else v
            self.assign(scopes, it[1], ("macv", it[1], it[2], c))
            return []
        if k == "imp":
            scopes.append({})
            try:
                self.include(it[1], False, scopes, False, depth)
                exports = {k: v for k, v in scopes[-1].items() if k != "__c"}
            finally:
                scopes.pop()
            self.assign(scopes, it[2], ("module", exports))
            return []
        if k == "from":
            scopes.append({})
            try:
                self.include(it[1], False, scopes, True, depth)
                val = scopes[-1].get(it[2], UNDEF)
            finally:
                scopes.pop()
            self.assign(scopes, it[3], val)
            return []
        if k == "bad":
            raise SpecErr("InvalidOperation")  # template name is not a string
        if k == "attr":
            v = self.lookup(scopes, it[1])
            if v is None or v == UNDEF:
                if self.ub == 1:
                    return self.undef(say)   # chainable: an attribute of undefined is undefined
                raise SpecErr("UndefinedError")
            if v[0] != "module":
                raise NotImplementedError
            a = v[1].get(it[2], UNDEF)
            if a == UNDEF:
                return self.undef(say)
            if a[0] == "str":
                return say(fmt(self.mode, a[1]))
            if a[0] == "safe":
                return say(a[1])
            raise NotImplementedError
        if k == "keys":
            v = self.lookup(scopes, it[1])
            if v is None or v == UNDEF:
                if self.ub >= 2:
                    raise SpecErr("InvalidOperation")  # an undefined value is not iterable
                return say(fmt(self.mode, ""))
            if v[0] != "module":
                raise NotImplementedError
            return say(fmt(self.mode, ",".join("v%d" % x for x in sorted(v[1]))))
        if k == "call":
            v = self.lookup(scopes, it[1])
            if v is None:
                raise SpecErr("UnknownFunction")
            if v != UNDEF and v[0] == "macv":
                val = self.heap[v[3]].get(v[2], UNDEF)
                if val == UNDEF:
                    inner = "".join(self.undef(lambda x: [x]))
                elif val[0] == "str":
                    inner = fmt(self.mode, val[1])
                elif val[0] == "safe":
                    inner = val[1]
                else:
                    raise NotImplementedError
                return say("<m%d:%s>" % (v[1], inner))
            if v == UNDEF or v[0] in ("str", "safe"):
                raise SpecErr("InvalidOperation")  # not callable
            if v[0] != "mac":
                raise NotImplementedError
            return say(v[2])
        if k == "req":
            return []
        if k == "ssuper":
            # captured super(): never silent inside the capture
            if cur is None:
                raise SpecErr("InvalidOperation")
            n, lvl = cur
            if lvl + 1 >= len(defs.get(n, [])):
                raise SpecErr("InvalidOperation")
            txt = "".join(self.body(defs, n, lvl + 1, scopes, False, depth + 1))
            self.assign(scopes, it[1], self.captured(txt))
            return []
        if k == "sself":
            # captured self.block(): skipped only while a parent is pending
            if extending:
                self.assign(scopes, it[1], self.captured(""))
                return []
            txt = "".join(self.block(defs, it[2], scopes, False, depth))
            self.assign(scopes, it[1], self.captured(txt))
            return []
        if k == "for":
            out = []
            scopes.append({})
            try:
                for val in it[2]:
                    keep = scopes[-1].get("__c")
                    scopes[-1].clear()      # the loop frame's locals are cleared, its closure stays
                    if keep is not None:
                        scopes[-1]["__c"] = keep
                    self.assign(scopes, it[1], ("str", val))
                    for sub in it[3]:
                        if sub[0] == "extends":
                            raise NotImplementedError
                        out += self.item(sub, defs, cur, scopes, silent, extending, depth + 1)
            finally:
                scopes.pop()
            return out
        if k == "ae":
            saved, self.mode = self.mode, it[1]
            try:
                out = []
                for sub in it[2]:
                    if sub[0] == "extends":
                        raise NotImplementedError
                    out += self.item(sub, defs, cur, scopes, silent, extending, depth + 1)
                return out
            finally:
                self.mode = saved
        if k == "inmac":
            self.assign(scopes, it[1], ("opaque",))
            inner = [{it[2]: ("str", it[3])}]
            out = []
            for sub in it[4]:
                if sub[0] == "extends":
                    raise NotImplementedError
                out += self.item(sub, defs, None, inner, False, False, depth + 1)
            return [] if silent else out
        raise NotImplementedError


def cfg_of(case):
    fam = case.split(" ", 1)[0]
    c = fam.split("~")[1] if "~" in fam else "00000"
    return {"loader": c[0] == "1", "syntax": c[1] == "1", "pathjoin": c[2] == "1", "ub": int(c[3]), "blk": int(c[4])}


def spec_result(env, ub=0, stream="render", blk=0):
    try:
        sp = Spec(env, ub)
        if stream == "render":
            return "ok:" + sp.render()
        if stream == "rblock":
            return "ok:" + sp.render_block_after_render(blk)
        return "ok:" + sp.render_block_fresh(blk)
    except SpecErr as e:
        return "err:" + e.kind
    except RecursionError:
        return "err:InvalidOperation"
    except NotImplementedError:
        return None


def discarded_markers(env):
    """markers of text that stands outside blocks after an unconditional extends of template 0's
    own chain (followed statically); they must never show up in a successful render of t0"""
    out = []
    t, seen = 0, set()
    while t < len(env) and t not in seen:
        seen.add(t)
        layout = env[t][0]
        nxt = None
        for it in layout:
            if it[0] == "extends" and it[1] and nxt is None:
                nxt = it[3]
            elif nxt is not None and it[0] == "text" and it[1].startswith("<T"):
                out.append(it[1])
        if nxt is None:
            break
        t = nxt
    return out


# ---------------------------------------------------------------------------- check
def judge(r, case, impl, detail, stream="render"):
    fam, env = parse_case(case)
    fam = fam.split("~")[0] + ("" if stream == "render" else ":" + stream)
    cfg = cfg_of(case)
    sys.setrecursionlimit(10000)
    if impl in ("panic", "hang") or impl.startswith("crash"):
        r.oracle_failure(case, f"engine {impl} ({detail}) instead of rendering or reporting an error", impl.split(":")[0] + ":" + detail.split(" (")[0][:80])
        return True
    if impl.startswith("syntax:") or impl.startswith("bad"):
        r.broken.append(f"harness generated an unparsable template: {case[:200]} -> {impl}")
        return True
    want = spec_result(env, cfg["ub"], stream, cfg["blk"])
    if want is None:
        r.hist["oracle"]["spec-undecided"] += 1
        return False
    r.hist["oracle"]["decided"] += 1
    if want.startswith("ok:"):
        if impl != want:
            what = "an error" if impl.startswith("err:") else "different output"
            r.oracle_failure(case, f"spec renders {want[:300]} but the engine gave {what}: {impl[:300]}",
                             ("error-instead-of-render:" if impl.startswith("err:") else "wrong-output:") + fam)
            return True
    else:
        if impl.startswith("ok:"):
            r.oracle_failure(case, f"spec: error ({want}) but the engine reported success with output {impl[:300]}",
                             "success-instead-of-error:" + fam)
            return True
        inner = impl[4:].split(">")[-1]
        if inner != want[4:]:
            r.oracle_failure(case, f"spec: error {want} but the engine's innermost error kind is {inner}", "error-kind:" + fam)
            return True
    if impl.startswith("ok:") and stream == "render":
        for m in discarded_markers(env):
            if m in impl:
                r.oracle_failure(case, f"text outside blocks of an extending template was rendered: {m}", "child-text-rendered:" + fam)
                return True
    return False


def nontrivial(case):
    f = case.split(" ", 2)
    return f[0] not in ("all1",) and any(t in case for t in (" x 1 ", " i ", " imp ", " from ", " ia ", " impa ", " froma "))


def run(r):
    r.rule = ("templates named t<i>.<ext> with mixed extensions; every assignment of {absent, override, super-before, super-after} to 3 blocks (one nestable) for chains of 1 and 2 "
              "templates (exhaustive), seeded random chains of 1..4 templates with static/dynamic/conditional extends, the same "
              "with 1-2 include/import/self-call snippets (48 kinds, incl. lazily evaluated / map / object arguments) at top level / in blocks / loops / macros / autoescape blocks, plus enumerated auto-escape mode crossings, inheritance "
              "cycles, include cycles, double extends, missing templates, macro closures across composition, templates that exist but cannot be loaded and non-string template names; "
              "family incl-arg: the include / import / from-import ARGUMENT as an axis — {string, 4 non-string scalars, list literal, tuple, Vec, sliced list, |reverse, make_iterable, one-shot iterator, list repetition, map literal, BTreeMap, enumerable plain object, non-iterable object} x "
              "{first exists, later exists, none exists, single existing, single missing, empty, non-string entries before/behind an existing name} x {ignore missing or not} x {include, import, from-import macro, from-import variable} x {top level, loop, macro, autoescape, block}; "
              "family multi-super (0..3 super() calls per definition at every level of chains of 3..4, plain or captured, every order); family local-ids / local-ids-cond (child and parent use different filters / tests at the same local ids, first use hidden in an untaken branch / short-circuit / macro body / block; extends decided by a test), recover (fuse at every level of super chains), chain<n>[+x]+fx (random chains decorated with pure filter / test expressions and fuses, also in the included / imported templates); "
              "family visibility (who sees and changes which variable), super-included / super-inherited (super() outside of blocks in included chains), macro-blocks (block references and super() in macro bodies), ae-nested (autoescape blocks 2-3 deep); "
              "every case carries an environment configuration (add_template vs loader-backed, default vs custom delimiters, plain names vs directories + path-join callback with relative references, undefined behaviour lenient/chainable/semi-strict/strict, the spelling of variable / macro names (v3, _v3, V3_)) and is rendered through three modelled entry points (Template::render, render_captured + State::render_block, new_state + render_block), four more that must agree with them (render_captured output, render_captured_to, render_named_str, render_block_to_write) and, when it holds a fuse, the recovery stream (failed render_block, then the same State again); a case is non-trivial when it executes an extends, "
              "include or import")
    r.assumptions = [
        "template/block/variable names are the harness' canonical t<i>.<ext> (optionally in directories d<k>/ with relative references resolved by the documentation's path-join callback) / b<n> / v<n>",
        "the model runs with the fuel `renderFuel env` for which rendering_terminates proves that fuel is never what stops a render inside the fragment; outside the fragment the driver marks an exhausted fuel explicitly (FUEL-EXHAUSTED = broken), it did not occur",
    ]
    r.regen_tables(["MAX_RECURSION_ENV", "INCLUDE_RECURSION_COST", "MACRO_RECURSION_COST",
                    "C06_AUTO_ESCAPE_EXTENSIONS", "C06_UNDEFINED_TABLES", "HTML_ESCAPE_TABLE",
                    "C06_INCLUDE_CHOICES", "C06_ACTIVATION_STATE"])
    r.lean_prove("MJ.Props.C06", "MJ/Audit/C06.lean", extra_targets=["drive_c06"])
    exe = r.cargo_build("c06")
    if exe is None:
        return
    rc, out, err = r.harness(exe, ["gen", r.tier], timeout=2400)
    if rc != 0:
        r.broken.append(f"harness c06 exited {rc}: {err[-300:]}")
        return
    lines = out.splitlines()
    model = r.driver("drive_c06", "\n".join(l.split("\t")[0] for l in lines) + "\n")
    if model is None or len(model) != len(lines):
        r.broken.append("model driver output does not line up with the harness cases")
        model = None
    r.exhaustive = False
    for i, line in enumerate(lines):
        f = line.split("\t")
        if len(f) != 8:
            r.broken.append(f"malformed harness line {i}")
            continue
        case, impl, detail, meta, rblock, fresh, recov, entry = f
        r.hist["entry points agree"][":".join(entry.split(":")[:2])] += 1
        if entry.startswith("diff:"):
            _, which, rest = entry.split(":", 2)
            r.oracle_failure(case, f"{which} does not give what Template::render / State::render_block give for the same templates and variables: "
                             f"render {impl[:300]} — {which} {rest[:400]}", "entry-point-differs:" + which + ":" + case.split(" ", 1)[0].split("~")[0])
        if re.search(r" fx \d \w+ [!?]", case):
            r.broken.append(f"a filter / test expression of the menu does not render on its own: {case[:200]}")
        r.hist["recovery after a failed render_block"][recov.split(":")[0] + (":" + recov.split(":")[1] if recov.startswith("same:") else "")] += 1
        if recov.startswith("diff:"):
            _, blk, kth, seen, rest = recov.split(":", 4)
            r.oracle_failure(case, f"render_captured + State::render_block: after a render of block {blk} failed (the fuse at its {kth[1:]}. call) "
                             f"the same State renders block {seen} differently than before the failure: {rest[:400]}",
                             "state-not-restored-after-failed-block:" + case.split(" ", 1)[0].split("~")[0])
        r.hist["metamorphic include == alone"][meta.split(":")[0]] += 1
        if meta.startswith("diff:"):
            r.oracle_failure(case, "a wrapper template that only includes t0 does not render what t0 renders on its own "
                             f"with the same variables: t0 alone {impl[:300]} — wrapper {meta[5:300]}",
                             "include-differs-from-standalone:" + case.split(" ", 1)[0])
        fam = case.split(" ", 1)[0]
        if impl == "skipped":
            r.hist["result"]["skipped"] += 1
            continue
        r.count(case, nontrivial(case))
        r.hist["family"][fam.split("~")[0]] += 1
        for m in ARG_RE.finditer(case):
            r.hist["include/import argument kind"][m.group(1).split()[0] + ":" + m.group(2)] += 1
        r.hist["result"]["ok" if impl.startswith("ok:") else impl.split(">")[0][:40]] += 1
        r.hist["detail"][detail[:40]] += 1
        if model is not None:
            c2, m, lean_spec, m_rblock, m_fresh = model[i].split("\t")
            if "FUEL-EXHAUSTED" in model[i]:
                r.broken.append(f"the model ran out of fuel on {case[:200]} (rendering_terminates says it cannot inside the fragment)")
            for nm, a, b in (("render_captured+render_block", rblock, m_rblock), ("new_state+render_block", fresh, m_fresh)):
                if a != "skip":
                    r.hist["stream"][nm] += 1
                    if a != b:
                        r.model_disagreement(case + " [" + nm + "]", a, b)
            if lean_spec != "n/a":
                # the case lies in the fragment of `blocks_refine_spec`: the Lean spec itself must
                # agree with the engine and with the Python reading of the statement
                r.hist["oracle"]["inside proven fragment (Lean spec evaluated)"] += 1
                if lean_spec != impl:
                    r.oracle_failure(case, f"Lean specRender gives {lean_spec[:300]} but the engine {impl[:300]}", "lean-spec:" + fam)
                py = spec_result(parse_case(case)[1], cfg_of(case)["ub"])
                # family `super-inherited`: the Lean specification describes what the engine does with
                # `super()` outside of blocks in an included chain (it resolves the includer's block
                # name there), the Python specification reads the property (an error): the
                # difference is the recorded finding, reported below by `judge`
                if py is not None and (py.startswith("ok:") or lean_spec.startswith("ok:")) and py != lean_spec \
                        and not fam.startswith("super-inherited~"):
                    r.broken.append(f"Lean spec and Python spec disagree on {case[:200]}: {lean_spec[:200]} vs {py[:200]}")
            if m.startswith("bad-case") or "UNSUPPORTED" in m:
                r.broken.append(f"model cannot evaluate generated case {case[:200]}: {m}")
            elif impl != m:
                r.model_disagreement(case, impl, m)
        failed = judge(r, case, impl, detail)
        # the render_block streams render the template first: when the render itself already
        # contradicts the specification, what follows is a consequence, not a second finding
        if rblock != "skip" and not failed:
            judge(r, case, rblock, "render_block", "rblock")
            judge(r, case, fresh, "render_block", "fresh")
        cfgv = cfg_of(case)
        for key in ("loader", "syntax", "pathjoin"):
            r.hist["config"][key + "=" + str(int(cfgv[key]))] += 1
        r.hist["config"]["undefined=" + ["lenient", "chainable", "semi-strict", "strict"][cfgv["ub"]]] += 1
        if i % 1300 == 7:
            r.sample({"case": case[:400], "engine": impl[:300]})
    r.extra["cases"] = len(lines)
    inside = r.hist["oracle"]["inside proven fragment (Lean spec evaluated)"]
    r.extra["fraction_inside_proven_fragment"] = round(inside / max(1, len(lines)), 4)


def replay(r, path):
    d = json.load(open(path))
    exe = r.cargo_build("c06")
    for case in [d.get("case")] + d.get("more_cases", []):
        if not case:
            continue
        rc, out, err = r.harness(exe, ["src"] + case.split())
        print(out.strip())
        for l in out.strip().splitlines():
            if "\tdiff:" in l:
                print("metamorphic:", l.split("\t")[3][:400])
        last = [l for l in out.strip().splitlines() if "\t" in l][0] if out.strip() else ""
        model = r.driver("drive_c06", case + "\n")
        print("model:", model[0].split("\t")[1] if model else None)
        print("lean spec:", model[0].split("\t")[2] if model else None)
        print("spec :", spec_result(parse_case(case)[1], cfg_of(case)["ub"]))
        print("engine:", last.split("\t")[1] if "\t" in last else last)
    return 0
