"""C03 — core language constructs render according to the documented semantics (DESIGN.md §3 C03)."""
import json, os, re, glob, collections
from common import VERIF

READY = True

EXCLUDED = "parameter defaults that contain a call or read a parameter (the engine binds parameters back to front, the reference semantics front to back), macros used as values ({{ m }}, a macro passed as an argument: macro names are only called or tested with is defined / is undefined), an explicit caller= keyword argument, calls of names that are not declared macros, reads in a macro body that find_macro_closure does not enclose"
STAGE = ("3: vm_refines_eval proved for text / emit / set (incl. unpacking) / set-block / filter-block / if-elif-else / with / for-else with unpacking targets, loop filter, break and continue, macro declarations at any depth (closures: Enclose / GetClosure / BuildMacro, write-through closure cells against by-reference scoping) with parameter defaults (evaluated at call time in the macro's scope), macro calls with positional and keyword arguments (prepare_args, Kwargs bundle, fresh callee context, captured output), call blocks and caller (the hidden keyword argument, caller(args), call blocks with parameters and defaults) over expressions with constant folding, short-circuit and/or, if-expressions, filters, tests, attribute/item access, list/map literals, chained comparisons, and vm_refines_eval_discard for the same fragment run with a discarding output (top level of a child template / imported module followed by the layout / importer; captures under discard still capture; macros declared there are called from the tail); stage 2 (model code generator incl. macros, call blocks, calls and the find_macro_closure analysis == real instruction stream on every generated program; model VM with closures and calls == exec == engine on all programs it runs; extended model VM with the live loop object with its adjacent-item look-ahead == exec == engine on all programs); still outside the theorem: " + EXCLUDED)

META = {
    "technique": "Lean 4: reference interpreter of the core fragment with kernel-checked scoping / loop-variable / for-else laws; model of the code generator (back-patched absolute jumps) and of the VM with a kernel-checked refinement theorem for a fragment; ties: typed random programs -> real parser (AST dumped and compared) -> (a) Template::render vs. the interpreter (oracle, delta-debugging shrinker), (b) model code generator vs. the real instruction stream instruction by instruction, (c) model VM vs. engine and vs. the interpreter; tables regenerated from source",
    "category": "proof",
    "text": "MJ/Model/Eval.lean is the documented semantics of the core fragment (expressions, if/elif/else, for/else/filter/unpacking/loop, set, set-block, with, filter-block, macros with defaults and keyword arguments, call blocks, break/continue) as a structurally recursive interpreter that shares nothing with the compiler and VM. Kernel-checked: assignments inside for/with/macro/call-block bodies leave every enclosing scope unchanged, assignments at template level and in if-branches persist, the loop object of iteration i is <i, len, xs[i-1]?, xs[i+1]?> for every list, the else branch runs iff the filtered sequence is empty; constant folding is sound; the back-patching code generator model equals a structured generator with resolved targets; vm_refines_eval: the model VM on the generated code renders what the interpreter renders, for templates of text / emit / set (with unpacking) / set-block / filter-block / if / with / for-else with loop filter, break and continue, macro declarations with closures and parameter defaults at any depth, macro calls with positional and keyword arguments, call blocks and caller, over expressions with short-circuit and/or, if-expressions, filters, tests, attribute and item access, list and map literals (outside: " + EXCLUDED + "). The engine is tied to the models by rendering generated programs with the real engine (real parser in the loop), by comparing the real instruction streams with the model generator's, and by running the model VM. Argument binding: MJ.Eval.bindArgs / slotOf are Macro::prepare_args and the default rule as functions (parameters, positional values, keyword values -> value of every parameter | TooManyArguments); kernel-checked: an explicitly passed value (none included) is bound as it is, the default is used and evaluated iff the parameter is bound to undefined, one more positional value = the same value by keyword for the next free parameter, every keyword is consumed by a parameter that is not filled by position or is an error, the error cases exactly, and the model VM's prepareArgs is this binder; the engine's binder is compared with it on an exhaustive box (incl. splats in three forms, calls from Rust and macros called BY A CALL BLOCK with literal = static and variable = dynamic keyword arguments); kernel-checked: the constant keyword bundle of the static fast path of compile_call_args and the bundle BuildKwargs builds on the slow path hold the same value under every name (static_kwargs_eq_dynamic). Auto-escaping (the safe mark of captures) has no value model of its own; it is checked through two absolute modes (esc-ident: AutoEscape::Custom + identity formatter; esc-off: {% autoescape false %} in an HTML-escaping environment — both must render what the reference semantics renders) and through NEUTRAL TWINS under HTML / JSON escaping, {% autoescape true %} and a formatter that brackets safe values: a program and its twin (do-nothing statements inserted, bodies wrapped in {% if true %}, template data split, a run of statements captured by a set-block / macro / call block and printed) must render alike; the do-nothing rewrites are kernel-checked laws of the reference semantics (twin_if_false, twin_if_empty, twin_for_empty, twin_if_true, twin_text_split, twin_block_noop) and the Lean driver renders every pair (a pair that differs in the reference semantics is reported as broken, not as a failure). A box of fast-path body shapes (every construct with a body x empty / data-only / single literal / single variable / data+expression / single nested construct / single assignment bodies x 8 observations) runs as plain cases, under all six modes and through the discarding entry forms.",
    "design_ref": "DESIGN.md §3 C03",
    "level_note": "Stage reached: " + STAGE + ". Trusted: Lean kernel; the reading of syntax.rs in MJ/Model/Eval.lean; hand transcription of codegen.rs / vm/mod.rs in MJ/Model/{Compile,Vm}.lean (validated on every generated program: instruction streams identical, VM results identical); harness unparse + serde AST dump (checked by AST equality on every case). Not proved: " + EXCLUDED + " are modelled in Eval / Compile / both model VMs and compared on every generated program (instruction streams, results) but are outside the fragment of the refinement theorem (wfBlock in MJ/Proofs/Scoping.lean is the decidable description; the share of generated programs inside it is reported as in_theorem_percentage, the reasons for the rest in the proved_fragment histogram). The theorem assumes a render context of plain data (undefined, none, booleans, integers, strings, lists, maps); kernel-checked with it: the values that flow through expressions of the fragment stay plain data, so a positional argument is never taken for the keyword bundle. The entry forms other than `render` are run against `renderAfter` (run P discarding its output, then the tail in the same top-level scope); vm_refines_eval_discard proves the model VM's discarding run for the proved fragment, the multi-template machinery itself (LoadBlocks, Include, ExportLocals, module objects) is validated by the differential runs only.",
}

STMT_HEADS = {"text", "emit", "ifs", "for", "set", "setb", "with", "fblk", "macro", "callb", "break", "continue"}
EXPR_HEADS = {"c", "v", "not", "neg", "b", "cmp", "if", "flt", "tst", "attr", "item", "call", "list", "map"}


# ------------------------------------------------------------------------------------ s-expressions
def sx_parse(s):
    toks = re.findall(r"\(|\)|[^\s()]+", s)
    pos = 0

    def go():
        nonlocal pos
        t = toks[pos]; pos += 1
        if t == "(":
            out = []
            while toks[pos] != ")":
                out.append(go())
            pos += 1
            return out
        return t
    return go()


def sx_str(x):
    return x if isinstance(x, str) else "(" + " ".join(sx_str(y) for y in x) + ")"


def head(x):
    return x[0] if isinstance(x, list) and x and isinstance(x[0], str) else None


def kinds_of(x, acc):
    """construct kinds of a program: statement heads + a few expression kinds"""
    h = head(x)
    if h in STMT_HEADS and h != "text":
        acc.add({"ifs": "if", "setb": "set-block", "fblk": "filter-block", "callb": "call-block"}.get(h, h))
        if h == "for":
            if x[3] != "_": acc.add("loop-filter")
            if len(x[5]) > 1: acc.add("for-else")
            if head(x[1]) == "tt": acc.add("unpack")
    elif h == "call": acc.add("call")
    elif h == "flt": acc.add("filter:" + x[1])
    elif h == "tst": acc.add("test:" + x[1])
    elif h == "cmp": acc.add("compare-chain")
    elif h == "if": acc.add("if-expr")
    elif h == "attr" and x[1] == ["v", "loop"]: acc.add("loop." + x[2])
    elif h == "b": acc.add("op:" + x[1])
    if isinstance(x, list):
        for y in x: kinds_of(y, acc)
    return acc


def size_of(x):
    return 1 + sum(size_of(y) for y in x) if isinstance(x, list) else 1


def variants(prog):
    """one-step reductions of a program (list of new programs), smaller first where cheap"""
    out = []

    def rec(node, rebuild):
        h = head(node)
        if h == "blk":
            for i in range(1, len(node)):
                out.append(rebuild(node[:i] + node[i + 1:]))                      # drop a statement
                st = node[i]
                for sub in st[1:] if isinstance(st, list) else []:
                    if head(sub) == "blk" and len(sub) > 1:
                        out.append(rebuild(node[:i] + sub[1:] + node[i + 1:]))    # hoist a body
                if head(st) == "for" and st[3] != "_":
                    out.append(rebuild(node[:i] + [st[:3] + ["_"] + st[4:]] + node[i + 1:]))  # drop the loop filter
        elif h in EXPR_HEADS and h not in ("c", "v"):
            for sub in node[1:]:
                # the bare `loop` object is outside the fragment (only `loop.<attr>` is): never
                # reduce `loop.x` to `loop`
                if sub == ["v", "loop"]:
                    continue
                if head(sub) in EXPR_HEADS:
                    out.append(rebuild(sub))                                       # replace by a sub-expression
                elif isinstance(sub, list):
                    for s2 in sub:
                        if head(s2) in EXPR_HEADS:
                            out.append(rebuild(s2))
            out.append(rebuild(["c", "i", "1"]))
        if isinstance(node, list):
            for i, ch in enumerate(node):
                if isinstance(ch, list):
                    rec(ch, lambda new, i=i, node=node, rebuild=rebuild: rebuild(node[:i] + [new] + node[i + 1:]))

    rec(prog, lambda new: new)
    out.sort(key=size_of)
    return out


def ctx_variants(ctx):
    out = []
    for i in range(1, len(ctx)):
        out.append(ctx[:i] + ctx[i + 1:])
    return out


# ------------------------------------------------------------------------------------ running cases
def unhex(h):
    return "" if h == "-" else bytes.fromhex(h).decode("utf-8", "replace")


def show(res):
    return "ok:" + repr(unhex(res[3:])) if res.startswith("ok:") else res


def classify(impl, model):
    """-> (verdict, detail); verdict in same | skip | broken | fail"""
    if impl.startswith("parse-"):
        return "broken", "real parser did not reproduce the generated AST: " + impl
    if impl == "skip":
        return "skip", "entry form not applicable"
    if impl == "bad-case" or model.startswith("bad-case"):
        return "broken", f"case not understood (impl {impl}, model {model})"
    if impl.startswith("twin-same:"):
        return "same", "twin"
    if impl.startswith("twin-differs:"):
        a, b = impl[len("twin-differs:"):].split("|", 1)
        return "fail", ("a program and its neutral twin (the same documented meaning - the reference semantics renders both alike -, "
                        f"other body shapes) render differently under auto-escaping: {show(a)} vs. the twin {show(b)}")
    if model == "err:OUT-OF-FRAGMENT":
        return "skip", ""
    if model == "err:FUEL":
        # unbounded macro recursion has no value in the reference semantics; the engine must stop
        # it with an error (recursion limit).  Anything else means the fuel was too small.
        if impl.startswith("err:"):
            return "skip", "divergent"
        return "broken", "reference interpreter ran out of fuel"
    if impl == "panic":
        return "fail", "engine panicked"
    if impl == model:
        return "same", ""
    if impl.startswith("err:") and model.startswith("err:"):
        return "same", "errkind"
    return "fail", f"engine {show(impl)}, documented semantics {show(model)}"


class Runner:
    def __init__(self, r, exe):
        self.r, self.exe = r, exe

    def run(self, cases):
        """cases: list of (id, ctx_sexp, prog_sexp) -> list of (impl_result, model_result, src)"""
        inp = "".join(f"{i}\t{c}\t{p}\n" for i, c, p in cases)
        rc, out, err = self.r.harness(self.exe, ["batch"], inp=inp)
        if rc != 0:
            raise RuntimeError("harness batch failed: " + err[-300:])
        lines = [l.split("\t") for l in out.splitlines()]
        # the AST sent to Lean is the one the real parser produced
        model = self.r.driver("drive_c03", "".join("\t".join(l[:3]) + "\n" for l in lines))
        if model is None or len(model) != len(lines) or len(lines) != len(cases):
            raise RuntimeError("driver output does not line up")
        return [(l[3], m.split("\t")[1], unhex(l[4])) for l, m in zip(lines, model)]

    def run_full(self, cases):
        """-> list of (harness fields, driver fields)"""
        inp = "".join(f"{i}\t{c}\t{p}\n" for i, c, p in cases)
        rc, out, err = self.r.harness(self.exe, ["batch"], inp=inp)
        if rc != 0:
            raise RuntimeError("harness batch failed: " + err[-300:])
        lines = [l.split("\t") for l in out.splitlines()]
        model = self.r.driver("drive_c03", "".join("\t".join(l[:3]) + "\n" for l in lines))
        if model is None or len(model) != len(lines) or len(lines) != len(cases):
            raise RuntimeError("driver output does not line up")
        return [(l, m.split("\t")) for l, m in zip(lines, model)]

    def fails(self, results):
        return [classify(i, m)[0] == "fail" for i, m, _ in results]

    def shrink(self, ctx, prog, budget=60):
        """greedy delta debugging over the AST (and the context): keep any one-step reduction that
        still makes engine and reference interpreter disagree"""
        ctx, prog = sx_parse(ctx), sx_parse(prog)
        for _ in range(budget):
            cands = [(ctx, p) for p in variants(prog)] + [(c, prog) for c in ctx_variants(ctx)]
            if not cands:
                break
            cands = cands[:400]
            res = self.run([(f"s{k}", sx_str(c), sx_str(p)) for k, (c, p) in enumerate(cands)])
            hit = next((k for k, f in enumerate(self.fails(res)) if f), None)
            if hit is None:
                break
            ctx, prog = cands[hit]
        return sx_str(ctx), sx_str(prog)


def report_failure(r, runner, cid, ctx, prog, detail):
    try:
        sctx, sprog = runner.shrink(ctx, prog)
        (impl, model, src), = runner.run([("min", sctx, sprog)])
        verdict, d2 = classify(impl, model)
        if verdict != "fail":   # should not happen: keep the unshrunk case
            sctx, sprog, src, d2 = ctx, prog, "", detail
    except Exception as e:  # shrinking is best effort
        sctx, sprog, src, d2 = ctx, prog, "", detail + f" (shrinker failed: {e})"
    site = "+".join(sorted(kinds_of(sx_parse(sprog), set()))) or "expression"
    if "panicked" in d2:
        site = "panic:" + site
    r.oracle_failure(f"{sctx}\t{sprog}", f"{d2}  [source: {src}] (found as {cid})", site)


def run(r):
    r.rule = ("typed random programs of the core fragment (depth <= 6, <= 40 nodes incl. ill-typed slots) x random contexts of "
              "ints/strings/bools/none/lists/pairs/maps; quick 3000, thorough 100000 programs + corpus; a case is non-trivial "
              "when it is distinct and contains at least one control construct; constant-foldable constructs (comparison chains of 3-4 small operands incl. in / not in links, arithmetic, concat, and/or/not, subscripts / attributes / filters on literal containers, if-expressions, filters / tests on literals) are emitted in three forms — operands as variables, as literals, mixed — as {{ e }}, if condition and loop filter, and all three must render the documented result; every generated program is also run through one of 13 other "
              "entry forms (top level of a child template of a layout that prints its assignments / calls its macros / renders an overridden block; "
              "module for from-import and import-as; include; render_captured + render_block / call_macro; Expression API; template_from_str; render_captured_to an io::Write; loader-backed environment; custom delimiters; custom formatter; debug off) against the "
              "reference semantics 'run P discarding its output, then the tail in the same top-level scope'; "
              "argument binding (Macro::prepare_args) on an exhaustive box: 0-2 parameters with 0-n defaults (marker value / expression that fails when evaluated) x "
              "every slot not passed | positional | keyword | both x values none, undefined, false, 0, '', [], 5 (literals = static keyword arguments, or variables) x "
              "unknown keyword, hidden caller keyword (macro that refers to caller or not), one positional too many x macro call / caller() of a call block, "
              "observed through 'is defined', 'is none', {{ p }}, {{ [p] }} and error-or-not; quick: literal/variable and macro/caller alternate over the box, thorough: full product; "
              "cases with keyword arguments again with *[..] / **{..} splats and (macros) from Rust through State::call_macro with a Kwargs value; "
              "the random generator passes foldable values (none, undefined, false, 0, '', []) in one of five argument slots, positional or keyword, also to caller(), "
              "and observes parameters with is none / is defined; "
              "the box also calls the macro BY A CALL BLOCK ({% call m(args) %} / {% call(x) m(args) %}: literal keyword arguments = the static fast path of compile_call_args, variables = the slow path, "
              "macro that renders caller() / caller(7) or never mentions caller), and the splat twin comes in three forms (all through *[..] / **{..}; first argument plain, the rest behind it in splats; splats first, last argument plain); "
              "AUTO-ESCAPE MODES: every generated program also runs under one of six modes — esc-ident (AutoEscape::Custom + a formatter that writes values as they are: captures are marked safe, the output must be the reference's) "
              "or against its NEUTRAL TWIN under HTML escaping, JSON escaping, inside {% autoescape true %}, and under a formatter that brackets values marked safe: the twin has the same documented meaning "
              "(statements that do nothing inserted into bodies, a body wrapped in {% if true %}, template data split in two, a run of statements captured by a set-block / macro / call block and printed; "
              "the Lean reference semantics renders both and must render them alike, else the case is reported as broken) but other body shapes, and both renders must be equal; "
              "the box of fast-path shapes (c03 shapes): 22 constructs with a body (set-block plain / filtered, macro, macro with keyword call, caller(), top level, if, else, for, for-else, with, filter-blocks, printed macro, call blocks plain / literal keyword / parameter, "
              "failing if / elif / for / loop-filter / with heads) x 11 body shapes (empty, template data only, one character, one literal, one variable, one safe variable, data+expression, one nested if / for, one assignment, nested set-block) "
              "x 8 ways of looking at the captured value, each as a plain case, under esc-ident / esc-off ({% autoescape false %} in an HTML-escaping environment: absolute) and as twin pairs under the four other modes, and the value-producing ones with the observation as the tail of the child / include / render_block / from / import entry forms; "
              "generator axes added: bodies may be empty, loop filters read the ENCLOSING loop's loop.*, default filter applied to none, idiom self-rebind (a macro / call-block body re-binds an enclosing name from its own old value: set v = f(v), with v = f(v), with a = .., v = f(a, v), for v in [v, ..], set-block v printing v, tuple assignment, guarded set, loop over v filtered by v), idiom read-after-scope (inside a macro / call-block body every binding construct - loop target, unpacking target, name set in a loop / with body, with binding, nested-macro / call-block parameter - binds an enclosing name that is read AFTER the binding's scope ended: in the loop's else branch with empty / filtered iterables, after endfor / endwith), idiom ctl-out-of-scope (break / continue out of set-block / filter-block / with inside a loop)")
    r.assumptions = [
        "programs deeper than 6 / larger than 40 nodes behave compositionally like the sampled ones (proved for the reference interpreter's laws, sampled for the engine)",
        "argument-binding box: at most two parameters; splats are dict / list literals (not map values of the render context); calls from Rust go through State::call_macro",
        "macro defaults of generated programs do not refer to sibling parameters (the engine binds parameters back to front — recorded finding, probed by the sb cases); recursion is bounded by a literal counter; macro values are stored under other names and passed as arguments, but not put into lists/maps or printed",
        "context values are ints (incl. the i64 limits), strings, safe strings, bools, none, lists, pairs and string-keyed maps: no floats, bytes, custom objects or one-shot iterators (outside the value model of the reference semantics)",
        "auto-escaping: the safe mark itself has no reference semantics of its own (the value model folds safe and plain strings); it is judged through esc-ident (values unchanged) and through twin equality under HTML / JSON / autoescape block / bracketing formatter, i.e. a defect that treats a program and all its twins alike AND keeps every value is not seen; no custom auto-escape callback by template name",
        "entry forms: child template + layout, from-import, import-as, include, render_captured + render_block / call_macro, Expression API, template_from_str, render_captured_to, loader, custom delimiters, custom formatter, debug off; default undefined behaviour, no auto-escaping, default build (no preserve_order)",
        "results outside the fragment (list + list, list * int, non-string map keys, bool subscripts) are skipped, not judged",
    ]
    r.extra["stage"] = STAGE
    r.regen_tables(needed=["C03_LOOP_ATTRS", "C03_LOOP_FLAG_WITH_LOOP_VAR", "C03_RESERVED_NAMES", "MAX_LOCALS", "VALUE_KIND_ORDER",
                           "C03_MACRO_CALLER", "C03_CAPTURE_MODES", "C03_INSTRUCTIONS", "C03_TEST_NAMES", "FILTER_NAMES"])
    r.lean_prove("MJ.Props.C03", "MJ/Audit/C03.lean", extra_targets=["drive_c03"])
    exe = r.cargo_build("c03")
    if exe is None:
        return
    runner = Runner(r, exe)
    n = 100000 if r.tier == "thorough" else 3000

    # ---- corpus first (id<TAB>ctx<TAB>prog per line)
    corpus = []
    for f in sorted(glob.glob(os.path.join(VERIF, "corpus", "C03", "*.case"))):
        for k, line in enumerate(open(f)):
            line = line.rstrip("\n")
            if line and not line.startswith("#"):
                fs = line.split("\t")
                corpus.append((f"{os.path.basename(f)}:{k}", fs[-2], fs[-1]))
    cases = []
    if corpus:
        res = runner.run_full(corpus)
        cases += [(cid, c, p, l[3], m[1], unhex(l[4]), "kinds=corpus", l[6], m[2], m[3], m[4], m[5]) for (cid, c, p), (l, m) in zip(corpus, res)]

    # ---- generated programs
    rc, out, err = r.harness(exe, ["gen", r.tier, str(n)])
    if rc != 0:
        r.broken.append(f"harness c03 exited {rc}: {err[-300:]}")
        return
    lines = [l.split("\t") for l in out.splitlines()]
    # ---- the argument-binding box (Macro::prepare_args): exhaustive, see harness/src/bin/c03_args.inc
    rc, out, err = r.harness(exe, ["argbind", r.tier])
    if rc != 0:
        r.broken.append(f"harness c03 argbind exited {rc}: {err[-300:]}")
        return
    ablines = [l.split("\t") for l in out.splitlines()]
    # ---- the box of fast-path body shapes x auto-escape modes: see harness/src/bin/c03_esc.inc
    rc, out, err = r.harness(exe, ["shapes"])
    if rc != 0:
        r.broken.append(f"harness c03 shapes exited {rc}: {err[-300:]}")
        return
    fplines = [l.split("\t") for l in out.splitlines()]
    r.extra["shape_box_cases"] = len(fplines)
    lines += fplines
    r.extra["argbind_box_cases"] = sum(1 for l in ablines if not l[2].startswith("(wrap "))
    r.extra["argbind_splat_and_rust_call_cases"] = sum(1 for l in ablines if l[2].startswith("(wrap "))
    lines += ablines
    model = r.driver("drive_c03", "".join("\t".join(l[:3]) + "\n" for l in lines))
    if model is None or len(model) != len(lines):
        r.broken.append("model driver output does not line up with the harness cases")
        return
    for l, m in zip(lines, model):
        mf = m.split("\t")
        if mf[0] != l[0] or len(mf) != 6 or len(l) != 7:
            r.broken.append("model driver answered out of order / malformed line")
            return
        cases.append((l[0], l[1], l[2], l[3], mf[1], unhex(l[4]), l[5], l[6], mf[2], mf[3], mf[4], mf[5]))

    conds = constconds = 0
    skipped = 0
    nfail = 0
    ncode = nvm = nvmfuel = 0
    nfrag = nfragw = nbase = nwrap = 0
    share = collections.defaultdict(lambda: [0, 0])      # stream -> [in the theorem, all]
    nlit = 0
    nvmm = 0
    for cid, ctx, prog, impl, mres, src, stats, realcode, modelcode, vmres, frag, vmmres in cases:
        is_wrap = prog.startswith("(wrap ")
        is_sibling = cid.startswith("sb")
        if frag == "frag3" and modelcode != "oof":
            # syntactically in the fragment and compiled by the model generator (constant folding
            # stayed inside the value model): the hypotheses of vm_refines_eval (stand-alone
            # programs, entry forms that keep the output) / vm_refines_eval_discard (child template,
            # module, render_block / call_macro after the render) hold
            if is_wrap:
                nfragw += 1
                r.hist["proved_fragment"]["entry form: in (vm_refines_eval_discard / vm_refines_eval applies)"] += 1
            else:
                nfrag += 1
                r.hist["proved_fragment"]["in (vm_refines_eval applies)"] += 1
        else:
            why = frag[2:] if frag.startswith("-:") else "not compiled by the model generator"
            r.hist["proved_fragment"][("entry form: " if is_wrap else "") + "outside (" + why + ")"] += 1
        stream = "probe: defaults that read an earlier parameter (known deviation)" if is_sibling else \
                 ("fast-path shape box" + (" through entry forms / under auto-escape modes" if is_wrap else "")) if cid.startswith("fp") else \
                 ("argument-binding box" + (" through splats / from Rust" if is_wrap else "")) if cid.startswith("ab") else \
                 ("entry-form cases" if is_wrap else ("generated programs" if cid.startswith("g") else "corpus / hand-written programs"))
        share[stream][1] += 1
        share[stream][0] += 1 if (frag == "frag3" and modelcode != "oof") else 0
        nbase += 0 if is_wrap else 1
        nwrap += 1 if is_wrap else 0
        # ---- stage 2 streams: model code generator vs real instruction stream, model VM vs engine / exec
        if modelcode != "oof" and impl != "skip" and not impl.startswith("twin-"):
            # (wrapper cases run several templates: there is no single real instruction stream)
            if realcode != "-":
                ncode += 1
                if modelcode != realcode:
                    ra, rb = realcode[6:-1].split(") ("), modelcode[6:-1].split(") (")
                    k = next((k for k, (x, y) in enumerate(zip(ra, rb)) if x != y), min(len(ra), len(rb)))
                    r.model_disagreement(f"codegen\t{ctx}\t{prog}", f"instr {k}: {ra[k] if k < len(ra) else 'END'} [source: {src}]",
                                         f"instr {k}: {rb[k] if k < len(rb) else 'END'}")
            if vmres == "err:FUEL" or (vmres != "-" and mres == "err:FUEL"):
                nvmfuel += 1
            elif vmres != "-" and mres != "err:OUT-OF-FRAGMENT":
                nvm += 1
                cls = lambda x: x if x.startswith("ok:") else "err"
                if cls(vmres) != cls(impl):
                    r.model_disagreement(f"vm\t{ctx}\t{prog}", show(impl) + f" [source: {src}]", show(vmres))
                # (`sb…`: the probe of the known deviation — defaults that read an earlier parameter; the model VM
                # follows the engine there, the reference semantics follows Jinja, and the program is outside the fragment)
                if cls(vmres) != cls(mres) and not (is_sibling and frag != "frag3"):
                    r.broken.append(f"model VM on model code disagrees with exec (counterexample to vm_refines_eval): {src} -> vm {show(vmres)}, exec {show(mres)}")
            # the extended model VM (macros, calls, live loop object): all compiled programs
            if vmmres != "-" and mres not in ("err:OUT-OF-FRAGMENT", "err:FUEL") and vmmres != "err:FUEL":
                nvmm += 1
                cls = lambda x: x if x.startswith("ok:") else "err"
                if cls(vmmres) != cls(impl):
                    r.model_disagreement(f"vmM\t{ctx}\t{prog}", show(impl) + f" [source: {src}]", show(vmmres))
                if cls(vmmres) != cls(mres) and not (is_sibling and frag != "frag3"):
                    r.broken.append(f"extended model VM on model code disagrees with exec: {src} -> vmM {show(vmmres)}, exec {show(mres)}")
        r.hist["codegen_fragment"]["in" if modelcode != "oof" else "outside (method calls, filter kwargs, ...)"] += 1
        st = dict(kv.split("=", 1) for kv in stats.split(";") if "=" in kv)
        kinds = [k for k in st.get("kinds", "-").split("+") if k != "-"]
        r.count(ctx + prog, nontrivial=bool(kinds))
        for k in kinds:
            r.hist["construct"][k] += 1
        if "nodes" in st:
            r.hist["nodes"][str(min(int(st["nodes"]) // 10 * 10, 60)) + "+"] += 1
            r.hist["depth"][st["depth"]] += 1
            conds += int(st["conds"]); constconds += int(st["constconds"])
        r.hist["engine_result"][impl.split(":")[0] if impl.startswith(("ok", "twin-")) else impl[:40]] += 1
        # input distribution: entry form and the value kinds of the render context
        r.hist["entry_form"][prog.split(" ")[1] if is_wrap else "render (stand-alone template)"] += 1
        for tag, name in (("(ss ", "safe string"), ("(s ", "string"), ("(i ", "int"), ("(l", "list"), ("(m ", "map")):
            if tag in ctx: r.hist["context_value_kinds"][name] += 1
        if re.search(r"\(i -?\d{10,}\)", ctx): r.hist["context_value_kinds"]["int beyond 32 bits (up to the i64 limits)"] += 1
        if " t)" in ctx or " f)" in ctx: r.hist["context_value_kinds"]["bool"] += 1
        if " none)" in ctx: r.hist["context_value_kinds"]["none"] += 1
        # constant-foldable constructs are written with variable / literal / mixed operands between
        # ⟦ ¦ ¦ ⟧: the documented result must be produced also when the engine decides to fold
        # (that folding equals run-time evaluation in general is C04's property)
        for k in kinds:
            if k.startswith("literal-forms:"):
                r.hist["literal_forms"][k.split(":", 1)[1]] += 1
        if impl.startswith("ok:") and "\u27e6" in (out_txt := unhex(impl[3:])):
            for seg in re.findall("\u27e6([^\u27e6\u27e7]*)\u27e7", out_txt):
                forms = seg.split("\u00a6")
                r.hist["literal_forms"]["triples rendered"] += 1
                if len(forms) == 3 and not (forms[0] == forms[1] == forms[2]):
                    r.hist["literal_forms"]["triples that differ"] += 1
                    nlit += 1
                    if nlit <= 3:
                        r.oracle_failure(f"{ctx}\t{prog}", f"variable / literal / mixed form of one construct render differently: {forms} [source: {src}] (found as {cid})",
                                         "literal-forms")
        verdict, detail = classify(impl, mres)
        r.hist["verdict"][verdict + (":" + detail if detail in ("errkind", "twin") else "")] += 1
        if verdict == "same" and detail == "errkind" and impl != mres:
            r.hist["errkind_differs"][impl + "/" + mres] += 1
        if verdict == "skip":
            skipped += 1
            if detail: r.hist["verdict"]["skip:" + detail] += 1
        elif verdict == "broken":
            if len(r.broken) < 5:
                r.broken.append(f"{cid}: {detail} [source: {src}]")
        elif verdict == "fail" and is_sibling:
            # the engine binds parameters back to front: a default that reads an earlier parameter sees the
            # variable of that name outside the macro (KNOWN_FINDINGS.jsonl)
            r.oracle_failure(f"{ctx}\t{prog}", detail + f" [source: {src}] (found as {cid})", "macro-default-reads-earlier-parameter")
        elif verdict == "fail":
            nfail += 1
            if nfail <= 6:      # shrink the first few, they usually share a site
                report_failure(r, runner, cid, ctx, prog, detail)
            else:
                r.oracle_failure(f"{ctx}\t{prog}", detail + f" [source: {src}] (found as {cid}, not shrunk)",
                                 "unshrunk:" + "+".join(sorted(kinds_of(sx_parse(prog), set()))))
        if len(r.samples) < 8 and kinds and cid.startswith("g") and cid[1:].isdigit() and int(cid[1:]) % 400 == 7:
            r.sample({"source": src, "ctx": ctx, "engine": show(impl), "spec": show(mres)})
    r.extra["programs_in_proved_fragment"] = nfrag
    r.extra["entry_form_cases_in_proved_fragment"] = nfragw
    r.extra["in_theorem_percentage"] = {k: round(100.0 * a / max(b, 1), 1) for k, (a, b) in sorted(share.items())}
    r.extra["in_theorem_counts"] = {k: f"{a} of {b}" for k, (a, b) in sorted(share.items())}
    r.extra["codegen_streams_compared"] = ncode
    r.extra["vm_runs_compared"] = nvm
    r.extra["vm_runs_out_of_fuel_not_compared"] = nvmfuel
    r.extra["vmM_runs_compared"] = nvmm
    r.extra["conditions_generated"] = conds
    r.extra["conditions_constant"] = constconds
    r.extra["skipped_out_of_fragment"] = skipped
    r.extra["corpus_cases"] = len(corpus)
    if cases and skipped > 0.05 * len(cases):
        r.broken.append(f"{skipped} of {len(cases)} cases fall outside the reference interpreter's fragment (> 5%)")
    if conds and constconds > 0.2 * conds:
        r.broken.append(f"{constconds} of {conds} generated conditions are constant (> 20%)")


def replay(r, path):
    d = json.load(open(path))
    exe = r.cargo_build("c03")
    runner = Runner(r, exe)
    rc = 0
    for case in [d.get("case")] + d.get("more_cases", []):
        if not case:
            continue
        ctx, prog = case.split("\t")
        (impl, model, src), = runner.run([("replay", ctx, prog)])
        print("source:", src)
        print("ctx:   ", ctx)
        print("engine:", show(impl))
        print("spec:  ", show(model))
        v = classify(impl, model)
        print("verdict:", v)
        if v[0] == "fail":
            rc = 1
    return rc
