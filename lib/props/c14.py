"""C14 — errors point at the right template line; reported ranges are valid slices (DESIGN.md §3 C14)."""
import json, os, re, collections, subprocess, tempfile
import common

READY = True

META = {
    "technique": "Lean 4 proof (lexer line/column/offset bookkeeping, span widening, parser span discipline, the code generator's "
                 "line/span bookkeeping on whole programs — every compile_* arm —, instruction line/span side tables, debug-render "
                 "arithmetic, source ties decided on tables regenerated from /repo) + differential correspondence of the model "
                 "against the real tokenizer, the real parser's AST spans, the real CodeGenerator on real ASTs (per-pc name/line/span "
                 "of every compiled program) and located errors of planted failures under vertical/horizontal shifts, "
                 "newline-at-every-token-gap layouts, environment configurations and API entry points; grammar-drawn templates "
                 "through the ast / stm / cga / cge / err streams; error display paths into failing writers; end-to-end theorem "
                 "error_line_is_construct_line and C14_main with the validated-only parts as named hypotheses",
    "category": "proof",
    "text": "Kernel-checked theorems about an executable model of Tokenizer::{advance,loc,span,syntax_error}, "
            "TokenStream::{next,current_span,last_span,expand_span}, every arm of CodeGenerator::{compile_stmt,compile_expr,"
            "compile_assignment,compile_call,compile_call_args,compile_macro_expression,compile_for_loop,...} reduced to its "
            "set_line/push_span/pop_span/add/add_with_span/location-less add calls, Instructions::{add_with_line,add_with_span,"
            "get_line,get_span}, process_err and the arithmetic of render_debug_info: "
            "the line is 1 + number of consumed newlines (saturating at 65535), the offset is the UTF-8 length of the consumed "
            "prefix, every span the tokenizer can create (for every possible sequence of advance/loc/span/syntax_error calls) is "
            "an in-bounds char-boundary slice whose line/column are those of its offsets, a prefix of N lines shifts every span by "
            "exactly N lines and nothing else, text inserted in a line shifts only the columns of that line; a parse function that "
            "remembers current_span() and expands covers exactly the tokens it consumed, one that remembers last_span() starts at "
            "the token in front (span_covers_construct, _partial, _counterexample; which site does which is decided on a table "
            "regenerated from parser.rs); for every AST whose construct line ranges nest and contain the start lines of the spans "
            "(hypothesis wf, evaluated by the model driver on every AST of the real parser) EVERY instruction of EVERY compile arm "
            "is recorded on a line within the first and last line of the construct whose arm emitted it "
            "(instr_line_in_construct, _expr; excluded region = constant-folded comparisons, _counterexample); the side tables "
            "return the recorded line/span for every add sequence, the debug renderer's arithmetic never panics; and, decided on a "
            "table regenerated from vm/mod.rs, every fallible expression of every instruction arm of the interpreter leaves through "
            "process_err. Tied to /repo by running the model against the real tokenizer (all token spans), the real parser (every AST "
            "span classified against the token range of its construct), the real CodeGenerator run on the real AST of ~3700 "
            "programs x 4 layouts (as written, newline at every / every even / every odd token gap inside tags): name, line and "
            "span of every instruction of the root and of every block, equal to the model's; and by evaluating the property itself "
            "(name, line inside source, range valid slice, shift invariance, some error on the lines of the failing operation's own "
            "tokens, formatting never panics) on the located error chains of ~3000 failing templates: one construct per fallible "
            "interpreter row x contexts, span-less code generator sites x span-stack contexts x sub-expression kinds, failing "
            "prints in every construct, syntax errors at every token position, under 7x4 shifts, the three token-gap layouts and the trimmed own-line layout, 16 "
            "environment configurations and the entry points render / render_str / render_named_str / template_from_str / "
            "template_from_named_str / add_template_owned / loader / render_block / call_macro / compile_expression+eval.",
    "design_ref": "DESIGN.md §3 C14",
    "level_note": "Moved from validated to proved in this revision: (1) the parser's span discipline (what current_span/last_span + "
                  "expand_span yield, theorem span_covers_construct with the last_span sites as explicit exception, tie "
                  "source_tie_parser_spans); (2) the whole code generator: that every compile arm records every instruction on a "
                  "line of its own construct (instr_line_in_construct over MJ/Model/LocAst.lean, 45 arms incl. call blocks, "
                  "macros, blocks/sub-generators, fast paths of {{ super() }} / {{ loop(x) }} / {{ self.b() }}, short-circuit "
                  "jumps without location). Trusted: Lean kernel; hand transcription of the listed Rust functions into "
                  "MJ/Model/{Loc,LocAst,LocParse}.lean (validated by the correspondence streams lex/ast/cg/tbl/ins/cga/cge; cga "
                  "compares all instructions of all programs); lib/tables/c14.py (regular-expression extraction of the interpreter "
                  "rows, the Spanned::new sites of parser.rs, the location calls of codegen.rs and integer widths); std's "
                  "binary_search_by_key is modelled by its contract on sorted slices (sortedness of the tables is proved). Inputs of "
                  "the code generator model that other parts of /repo compute and the harness reads off the real objects: whether an "
                  "expression is folded (Expr::as_const), the number of Enclose instructions of a macro (meta.rs), and the first / "
                  "last line of every construct (lib/props/c14.py from the real token stream; wf is then checked by the model "
                  "driver). Only validated, not proved: that the parser's grammar consumes exactly the tokens of a construct between "
                  "remembering the start and expand_span (the span-vs-token-range classification of every real AST node checks it); "
                  "that the simple line semantics execL of the theorem equals the run-length side tables (cross-checked by the driver "
                  "on every program, per-primitive theorems cg_add_records_current_line / line_table_lookup); that the tokenizer's "
                  "rules call the location primitives with the span of the token at hand (lex stream). "
                  "MOVED FROM VALIDATED TO PROVED in session 4 (the session-3 work was lost and is rebuilt here): (1) that the simple "
                  "line semantics execL equals what the run-length side tables answer: theorem tables_answer_execL "
                  "(MJ/Proofs/LocEndToEnd.lean) — for EVERY script of set_line / push_span / pop_span / add / add_with_span / "
                  "location-less add calls of one generator and every pc, process_err (get_span else get_line, binary search "
                  "included) on the tables built by the model of CodeGenerator + Instructions attaches exactly the line execL assigns "
                  "to instruction pc, and a span only if it starts on that line (before: cross-checked by the driver per program); "
                  "(2) the end-to-end composition error_line_is_construct_line: well-formed AST -> every compile arm "
                  "(instr_line_in_construct) -> side tables -> process_err: the location attached to an error raised at ANY pc is a "
                  "line within the first and last line of the construct whose arm emitted that instruction; (3) C14_statement / "
                  "C14_main: the property as stated over the model with the remaining gap as NAMED hypotheses: h_parser_wf (the "
                  "construct line ranges of the parser's AST nest and contain the span start lines: VALIDATED on every AST dumped from "
                  "the real parser incl. the grammar-drawn ones; which parser site starts its span where is decided on the "
                  "regenerated table, source_tie_parser_spans), h_root, h_one_generator (no {% block %} sub-generator inside the "
                  "program: blocks stay VALIDATED by the cga stream, the bookkeeping per generator is the proved one), h_size. "
                  "(4) block bodies: block_body_tables_answer_execL — the same table theorem for the sub-generator of a {% block %} "
                  "(new_subgenerator: line and innermost span carried over, empty instruction list), whatever is suspended below it; "
                  "(5) every_node_span_covers_its_tokens: over the REGENERATED parser table, every Spanned::new site that is not a "
                  "listed last_span() site builds a span from the first to the last token of its construct for every token stream "
                  "(composition of source_tie_parser_spans and span_covers_construct); (6) instr_span_is_node_span: new regenerated "
                  "table C14_CODEGEN_SPAN_ARGS (every push_span / set_line_from_span / add_with_span call of codegen.rs with the span "
                  "it is handed), decided: each is <node>.span() of the arm's AST node, the span parameter of one of the three "
                  "helpers, or the innermost pushed span. "
                  "STILL ONLY VALIDATED: the parser grammar itself (that a parse function consumes exactly the tokens of its "
                  "construct), the tokenizer rules' use of the location primitives, the sub-generator hand-over of blocks in the "
                  "end-to-end theorem, Error's accessors / Display / Debug and render_debug_info's text (their arithmetic is "
                  "proved; the display paths are exercised by the err stream in 5 forms into a String and into writers that fail "
                  "after k bytes).  NEW STREAMS in session 4: templates and expressions drawn from the GRAMMAR of parser.rs (every "
                  "production with its optional parts, trailing commas, empty collections, chained postfix operators, white-space "
                  "control, line breaks between the tokens of a tag) feed ast (every span of every node a valid slice, start <= end, "
                  "line/column as the model computes), stm, cga/cge (span start classification, wf, model code generator = real per-pc "
                  "tables) and — rendered as they are, every second one under strict undefined — the err stream (static predicates "
                  "and shift invariance of the whole chain; as main template, as included template, as parent of a child template "
                  "and as macro library that is imported and called); a fourth layout of every run-time failing case and of the cga "
                  "stream: every tag on a line of its own with the white space around it trimmed ({{- -}} / {%- -%}), so that "
                  "neighbouring constructs have no instruction on a common line — an error attached to the instruction before / "
                  "after the failing one then reports a line outside the failing construct; the LINE TERMINATOR axis (after seeded change "
                  "C14-8): layouts 11 / 12 put a lone CR / a CRLF directly behind every tag end of every failing case, run in the "
                  "default configuration and under trim_blocks+lstrip_blocks and keep_trailing_newline (a lone CR is no line: line = "
                  "1 + number of LF in the prefix, theorem advance_line; the construct's lines are taken from the default-configuration "
                  "token stream, so the reported line may not depend on the white-space switches), lone-CR pieces behind block / "
                  "comment / endraw ends in the lexer soup alphabet (model correspondence of skip_newline_if_trim_blocks); every error of the err stream is additionally formatted in its 5 forms "
                  "into fmt::Write sinks that fail after 0, 1, k/8.., len-1 bytes (a panic there is a failing input).",
}

CFG_NAMES = {"1": "entry point Environment::render_str", "2": "entry point template_from_named_str", "3": "entry point add_template_owned",
             "4": "entry point render_named_str", "5": "entry point template_from_str",
             "d": "default (debug on)", "x": "debug off", "p": "pass-through custom formatter", "n": "failing custom formatter",
             "a": "custom auto-escape format", "j": "JSON auto-escape", "u": "HTML auto-escape", "k": "keep_trailing_newline", "t": "trim_blocks+lstrip_blocks",
             "c": "custom delimiters", "s": "strict undefined", "m": "semi-strict undefined", "h": "chainable undefined",
             "r": "recursion limit 1", "w": "render_captured_to a writer", "l": "loader-backed, lazily compiled templates"}

# Every instruction that the code generator emits through `CodeGenerator::add` (location = current line /
# innermost span) AND that can fail in the VM (tables C14_CODEGEN_ADDS, C14_VM_FALLIBLE, regenerated from the
# sources on every run).  "own": the generator pushes the construct's own span around the add;
# "planted": failing cases with these id prefixes must exist and fail in the run; "benign": cannot produce
# a template error that needs a location.
SPANLESS_CLASS = {
    "Add": ("benign", "only the integer counter of a filtered for loop is added through `add`; binary + sits under its own span"),
    "ApplyFilter": ("own", "Filter expression span"), "PerformTest": ("own", "Test expression span"),
    "CallFunction": ("own", "Call span"), "CallMethod": ("own", "Call span"), "CallObject": ("own", "Call span"),
    "MergeKwargs": ("own", "Call / Filter span"), "UnpackLists": ("own", "Call / Filter span"),
    "CompareAndPreserve": ("own", "Compare span"), "Eq": ("own", "Compare span"), "Ne": ("own", "Compare span"),
    "Lt": ("own", "Compare span"), "Lte": ("own", "Compare span"), "Gt": ("own", "Compare span"),
    "Gte": ("own", "Compare span"), "In": ("own", "Compare span"), "JumpIfFalseOrPop": ("own", "Compare span"),
    "GetAttr": ("own", "GetAttr span"), "GetItem": ("own", "GetItem span"), "Slice": ("own", "Slice span"),
    "SetAttr": ("own", "attribute target span"), "UnpackList": ("own", "list target span"),
    "PushLoop": ("own", "iterable / filter expression span"), "Iterate": ("own", "iterable / filter expression span"),
    "CallBlock": ("planted", ["block_body", "child_block", "print_none_block_", "sl_autoescape_block_", "sl_autoescape_child_block_"]),
    "Emit": ("planted", ["sl_filter_emit_", "sl_callblock_emit_", "print_none_", "print_undef_"]),
    "JumpIfFalse": ("planted", ["sl_ifexpr_jump_", "strict_if"]),
    "Not": ("planted", ["sl_not_op_"]),
    "PushAutoEscape": ("planted", ["sl_autoescape_", "autoescape_bad"]),
    "PushWith": ("planted", ["sl_with_push_", "sl_import_push_", "sl_from_import_push_"]),
    "EmitRaw": ("benign", "only a write failure of the output (C19)"),
    "GetClosure": ("benign", "fails only on an internal invariant"), "Lookup": ("benign", "lookups do not fail"),
}

# Table C14_VM_ROWS (regenerated from vm/mod.rs): every fallible expression of an instruction arm.  For each
# row the planted cases (id prefixes) that make exactly that expression fail; ("structure", why) for rows that
# describe the helper macros; ("allowed", why) for rows that legitimately leave without location.
def _cap(op):
    return {f"CompareAndPreserve|{op}|ctx_ok|undefined_behavior.assert_value_not_undefined": [f"row_cap_{op.lower()}_a__"],
            f"CompareAndPreserve|{op}|ctx_ok|undefined_behavior.assert_value_not_undefined#2": [f"row_cap_{op.lower()}_b__"]}


ROW_CASES = {
    "macro:recurse_loop||bail|Error::new": ["row_fn_loop_recurse__", "row_fastrecurse_nonrecursive__"],
    "macro:recurse_loop||bail|Error::new#2": ["row_recurse_other_block"],
    "macro:recurse_loop||bail|Error::new#3": ["row_recurse_inactive"],
    "macro:func_binop||ctx_ok|ops::$method": ("structure", "func_binop! expands to ctx_ok!"),
    "macro:op_binop||ctx_ok|undefined_behavior.assert_value_not_undefined": ("structure", "op_binop! expands to ctx_ok!"),
    "macro:op_binop||ctx_ok|undefined_behavior.assert_value_not_undefined#2": ("structure", "op_binop! expands to ctx_ok!"),
    "macro:bail||return_err|err": ("structure", "bail! returns after process_err"),
    "macro:bail||calls|process_err": ("structure", "bail! calls process_err"),
    "macro:ctx_ok||bail|err": ("structure", "ctx_ok! bails"),
    "macro:assert_valid||bail|err": ("structure", "assert_valid! bails"),
    "pre||ctx_ok|tracker.track": ["out_of_fuel"],
    "EmitRaw||ok|out.write_str": ("allowed", "write failure of the output sink (C19)"),
    "Emit||bail|Error::from": ["row_emit_undef__", "strict_print"],
    "Emit||ctx_ok|write_escaped": ["print_none_top"],
    "Emit||ctx_ok|state.env.format": ["print_none_top", "print_undef_top"],
    "Lookup||assert_valid|state.lookup": ["row_lookup_invalid__"],
    "GetAttr||assert_valid|value": ["row_getattr_invalid__"],
    "GetAttr||ctx_ok|undefined_behavior.handle_undefined": ["row_getattr_undef__"],
    "SetAttr||bail|Error::new": ["row_setattr_bad__"],
    "GetItem||assert_valid|value": ["row_getitem_invalid__"],
    "GetItem||ctx_ok|undefined_behavior.handle_undefined": ["row_getitem_undef__"],
    "Slice||bail|Error::from": ["row_slice_undef__"],
    "Slice||ctx_ok|ops::slice": ["row_slice_zero__"],
    "MergeKwargs||ctx_ok|Self::merge_kwargs": ["row_mergekwargs__"],
    "UnpackList||ctx_ok|Self::unpack_list": ["row_unpacklist__", "row_unpacklist_arity__"],
    "UnpackLists||ctx_ok|undefined_behavior.try_iter": ["row_unpacklists__"],
    "Add||func_binop|add": ["row_add__"], "Sub||func_binop|sub": ["row_sub__"],
    "Mul||func_binop|mul": ["row_mul__", "row_mul_overflow__"], "Div||func_binop|div": ["row_div__"],
    "IntDiv||func_binop|int_div": ["row_intdiv_zero__"], "Rem||func_binop|rem": ["row_rem_zero__"],
    "Pow||func_binop|pow": ["row_pow__"],
    "Eq||op_binop|==": ["row_eq_undef__"], "Ne||op_binop|!=": ["row_ne_undef__"], "Gt||op_binop|>": ["row_gt_undef__"],
    "Gte||op_binop|>=": ["row_gte_undef__"], "Lt||op_binop|<": ["row_lt_undef__"], "Lte||op_binop|<=": ["row_lte_undef__"],
    "Not||ctx_ok|undefined_behavior.is_true": ["row_not_undef__"],
    "StringConcat||ctx_ok|undefined_behavior.assert_value_not_undefined": ["row_concat_left__"],
    "StringConcat||ctx_ok|undefined_behavior.assert_value_not_undefined#2": ["row_concat_right__"],
    "In||ctx_ok|state.undefined_behavior.assert_iterable": ["row_in_iterable__"],
    "In||ctx_ok|state.undefined_behavior.assert_value_not_undefined": ["row_in_undef__"],
    "In||ctx_ok|ops::contains": ["row_in_contains__", "row_notin_contains__"],
    "CompareAndPreserve|In|NotIn|ctx_ok|undefined_behavior.assert_iterable": ["row_cap_in_iterable__"],
    "CompareAndPreserve|In|NotIn|ctx_ok|undefined_behavior.assert_value_not_undefined": ["row_cap_in_undef__"],
    "CompareAndPreserve|In|NotIn|ctx_ok|ops::contains": ["row_cap_in_contains__", "row_cap_notin_contains__", "row_cap_in_contains_mid__"],
    "Neg||ctx_ok|ops::neg": ["row_neg__"],
    "PushWith||ctx_ok|state.ctx.push_frame": ["sl_with_push_", "sl_import_push_"],
    "PushLoop||ctx_ok|Self::push_loop": ["row_pushloop__"],
    "Iterate||assert_valid|item": ["row_iterate_invalid__"],
    "JumpIfFalse||ctx_ok|undefined_behavior.is_true": ["row_jump_if_false__"],
    "JumpIfFalseOrPop||ctx_ok|undefined_behavior.is_true": ["row_jump_if_false_or_pop__"],
    "JumpIfTrueOrPop||ctx_ok|undefined_behavior.is_true": ["row_jump_if_true_or_pop__"],
    "PushAutoEscape||ctx_ok|Self::derive_auto_escape": ["row_autoescape__"],
    "ApplyFilter||ctx_ok|get_or_lookup_local": ["row_filter_unknown__"],
    "ApplyFilter||ctx_ok|filter.call": ["row_filter_fails__"],
    "PerformTest||ctx_ok|get_or_lookup_local": ["row_test_unknown__"],
    "PerformTest||ctx_ok|test.call": ["row_test_fails__"],
    "CallFunction||bail|Error::new": ["row_super_args"],
    "CallFunction||ctx_ok|Self::perform_super": ["row_super_call_no_parent", "row_super_call_err"],
    "CallFunction||bail|Error::new#2": ["row_fn_loop_args__"],
    "CallFunction||recurse_loop|true": ["row_fn_loop_recurse__"],
    "CallFunction||ctx_ok|func.call": ["row_fn_fails__", "row_fn_not_callable__"],
    "CallFunction||bail|Error::new#3": ["row_fn_unknown__"],
    "ApplyFilter||ctx_ok|*": ["row_filter_unknown__", "row_filter_fails__"],
    "PerformTest||ctx_ok|*": ["row_test_unknown__", "row_test_fails__"],
    "CallFunction||ctx_ok|*": ["row_fn_fails__", "row_fn_not_callable__", "row_super_call_no_parent"],
    "CallMethod||ctx_ok|*": ["row_method_unknown__"],
    "CallObject||ctx_ok|*": ["row_callobject__"],
    "CallMethod||ctx_ok|args[0].call_method": ["row_method_unknown__"],
    "CallObject||ctx_ok|args[0].call": ["row_callobject__"],
    "FastSuper||ctx_ok|*": ["super_no_parent", "super_err"],
    "FastRecurse||recurse_loop|false": ["row_fastrecurse_nonrecursive__"],
    "FastRecurse||bail|Error::new": ["row_fastrecurse_unknown"],
    "LoadBlocks||bail|Error::new": ["extends_twice"],
    "LoadBlocks||ctx_ok|Self::load_blocks": ["extends_missing", "extends_bad_type", "lazy_extends_syntax"],
    "Include||ctx_ok|*": ["row_include_nonstring__", "row_include_missing__", "row_import_nonstring__"],
    "CallBlock||ctx_ok|*": ["row_required_block", "block_body"],
}
for _op in ("Eq", "Ne", "Lt", "Lte", "Gt", "Gte"):
    ROW_CASES.update(_cap(_op))

# what the innermost error of a row site has to say (so that the construct really hits the intended row)
SITE_DETAIL = {
    "lookup_invalid": "refuses to serialize", "getattr_invalid": "refuses to serialize", "getitem_invalid": "refuses to serialize",
    "iterate_invalid": "refuses to serialize", "setattr_bad": "can only assign to namespaces",
    "slice_zero": "step size of 0", "mergekwargs": "", "unpacklist": "not iterable", "unpacklist_arity": "wrong length",
    "in_contains": "containment check", "notin_contains": "containment check", "cap_in_contains": "containment check",
    "cap_notin_contains": "containment check", "cap_in_contains_mid": "containment check",
    "autoescape": "invalid value to autoescape tag", "filter_unknown": "filter bogus is unknown", "filter_fails": "boom filter",
    "test_unknown": "test bogus is unknown", "test_fails": "boom test", "fn_loop_args": "loop() takes one argument",
    "fn_loop_recurse": "cannot recurse outside of recursive loop", "fastrecurse_nonrecursive": "cannot recurse outside of recursive loop",
    "fn_fails": "boom", "fn_unknown": "bogus is unknown", "fn_not_callable": "not callable", "method_unknown": "no method named bogus",
    "callobject": "not callable", "include_nonstring": "template name was not a string", "import_nonstring": "template name was not a string",
    "include_missing": "non-existing template", "pushloop": "not iterable", "neg": "", "intdiv_zero": "unable to calculate",
    "rem_zero": "unable to calculate", "div_zero": "unable to calculate",
}

# an empty / whitespace-only expression: the error is reported at the very start, whatever is inserted
UNANCHORED = {"expr_empty", "expr_ws_only"}

V_N = {0: 0, 1: 1, 2: 2, 3: 7, 4: 300, 5: None, 6: 70000}   # 5: fill up to exactly 65535 lines, 6: beyond the quantifier
EXPLODED_FIRST = 7   # vertical variants 7, 8, 9: a newline at every / every even / every odd token gap inside the tags
EXPLODED_NAMES = {7: "newline at every token gap", 8: "newline at every even token gap", 9: "newline at every odd token gap",
                  10: "every tag on its own line, white space trimmed", 11: "lone CR behind every tag end", 12: "CRLF behind every tag end"}
TRIMMED_LAYOUT = 10   # changes the data between the tags: what the values say may differ, where errors point may not
ENTRY_CFGS = ("1", "2", "3", "4", "5")

NSHARDS = min(8, max(2, (os.cpu_count() or 4) // 2))


def run_parallel(cmds, inputs=None):
    """run the commands concurrently (stdin/stdout through files); -> [(rc, stdout text, stderr text)]"""
    os.makedirs(os.path.join(common.BUILD, "c14"), exist_ok=True)
    procs = []
    for i, cmd in enumerate(cmds):
        fo = tempfile.TemporaryFile(mode="w+", dir=os.path.join(common.BUILD, "c14"))
        fe = tempfile.TemporaryFile(mode="w+", dir=os.path.join(common.BUILD, "c14"))
        fi = None
        if inputs is not None:
            fi = tempfile.TemporaryFile(mode="w+", dir=os.path.join(common.BUILD, "c14"))
            fi.write(inputs[i]); fi.flush(); fi.seek(0)
        procs.append((subprocess.Popen(cmd[0], stdin=fi if fi else subprocess.DEVNULL, stdout=fo, stderr=fe, env=cmd[1]), fo, fe, fi))
    out = []
    for p, fo, fe, fi in procs:
        rc = p.wait(timeout=3000)
        fo.seek(0); fe.seek(0)
        out.append((rc, fo.read(), fe.read()))
        for f in (fo, fe, fi):
            if f:
                f.close()
    return out


def harness_sharded(r, exe):
    """`c14 gen <tier> k n` for every shard in parallel; the lines merged in work-item order"""
    env = dict(common.ENV); env["VERIF_SEED"] = str(r.seed); env["VERIF_TIER"] = r.tier
    res = run_parallel([([exe, "gen", r.tier, str(k), str(NSHARDS)], env) for k in range(NSHARDS)])
    lines = []
    for k, (rc, out, err) in enumerate(res):
        if rc != 0:
            r.broken.append(f"harness c14 (shard {k}/{NSHARDS}) exited {rc}: {err[-300:]}")
            return None
        for l in out.splitlines():
            key, _, rest = l.partition("\t")
            a, _, b = key.partition(".")
            lines.append((int(a), int(b), rest))
    lines.sort(key=lambda x: (x[0], x[1]))
    return "\n".join(l[2] for l in lines) + "\n"


def unhexs(h):
    return "" if h == "-" else bytes.fromhex(h).decode("utf-8", "replace")


class Err:
    __slots__ = "name line kind detail rs re srclen nlines inb sb eb tsok fmtmask fmtmsg caret win".split()

    def __init__(self, txt):
        f = txt.split(",")
        self.name = None if f[0] == "-" else unhexs(f[0])
        self.line = None if f[1] == "-" else int(f[1])
        self.kind = f[2]
        self.detail = None if f[3] == "-" else unhexs(f[3])
        self.rs = None if f[4] == "-" else int(f[4])
        self.re = None if f[5] == "-" else int(f[5])
        self.srclen = None if f[6] == "-" else int(f[6])
        self.nlines = None if f[7] == "-" else int(f[7])
        self.inb, self.sb, self.eb, self.tsok = f[8], f[9], f[10], f[11]
        self.fmtmask = int(f[12])
        self.fmtmsg = unhexs(f[13]) if f[13] else ""
        self.caret = f[14]
        self.win = f[15]

    def brief(self):
        return f"{self.name}:{self.line} {self.kind} {self.detail!r} range={self.rs}..{self.re} caret={self.caret}"


def parse_err_record(res):
    head, how_body = res.split("|", 1)
    how, rest = how_body.split("|", 1)
    body, specs = rest.rsplit("|", 1)
    pv, ph, vline, n, vbytes, hbytes, shifted, mline, mext, free, pe = head[1:].split(",")
    d = {"pv": int(pv), "ph": int(ph), "vline": int(vline), "n": int(n), "vbytes": int(vbytes), "hbytes": int(hbytes),
         "shifted": unhexs(shifted), "mline": int(mline), "mext": int(mext), "free": free == "1", "pe": int(pe),
         "how": how, "errors": [], "specs": {}, "panic": None}
    if how == "panic":
        d["panic"] = unhexs(body)
    elif body:
        d["errors"] = [Err(x) for x in body.split(";")]
    for s in specs.split(";"):
        if s:
            k, v = s.split("=", 1)
            d["specs"][unhexs(k)] = v
    return d


def panic_site(msg):
    m = re.search(r"(src/[\w/]+\.rs:\d+)", msg)
    return "panic:" + (msg[:80] if not m else m.group(1) + ":" + msg[:60])


def py_tbl_spec(ops, n):
    """independent statement of what the side tables must answer"""
    out = []
    for pc in range(n):
        line, span = None, None
        for op in ops[:pc + 1]:
            if op == "a":
                continue
            if op[0] == "l":
                line, span = int(op[1:]), None
            else:
                sp = [int(x) for x in op[1:].split(".")]
                line, span = sp[0], (sp if any(sp) else None)
        out.append(("-" if line is None else str(line)) + "/" + ("-" if span is None else ":".join(map(str, span))))
    return ",".join(out)


class Queries:
    """batch of `q` requests to the Lean driver, answered in one run"""

    def __init__(self):
        self.lines, self.keys = [], {}

    def add(self, keep, spec, offs=(), serrs=(), wins=()):
        offs = sorted(set(offs)); serrs = list(dict.fromkeys(serrs)); wins = list(dict.fromkeys(wins))
        key = (keep, spec, tuple(offs), tuple(serrs), tuple(wins))
        if key not in self.keys:
            self.keys[key] = len(self.lines)
            self.lines.append("q %d %s %s %s %s" % (keep, spec, ",".join(map(str, offs)) or "-", ",".join(map(str, serrs)) or "-",
                                                    ",".join("x" if w is None else str(w) for w in wins) or "-"))
        return key

    def add_raw(self, line):
        key = ("raw", line)
        if key not in self.keys:
            self.keys[key] = len(self.lines)
            self.lines.append(line)
        return key

    def run(self, r):
        if not self.lines:
            self.out = []
            return True
        ok, _ = r.lean_build(["drive_c14"])
        if not ok:
            r.broken.append("model driver drive_c14 does not build")
            self.out = None
            return False
        exe = os.path.join(common.LEAN, ".lake", "build", "bin", "drive_c14")
        n = len(self.lines)
        # contiguous chunks of about equal size in bytes
        total = sum(len(l) + 1 for l in self.lines)
        chunks, cur, size = [], [], 0
        for l in self.lines:
            cur.append(l); size += len(l) + 1
            if size >= total / NSHARDS and len(chunks) < NSHARDS - 1:
                chunks.append(cur); cur, size = [], 0
        if cur:
            chunks.append(cur)
        res = run_parallel([([exe], common.ENV) for _ in chunks], ["\n".join(c) + "\n" for c in chunks])
        out = []
        for (rc, o, e), c in zip(res, chunks):
            ol = o.splitlines()
            if rc != 0 or len(ol) != len(c):
                r.broken.append(f"model driver drive_c14 exited {rc} / answered {len(ol)} of {len(c)} requests: {e[-300:]}")
                self.out = None
                return False
            out += ol
        self.out = out
        return True

    def raw(self, key):
        return self.out[self.keys[key]]

    def get(self, key):
        """-> (pos: {off: (line, col) | None}, serr: {off: span-tuple | None}, win: {line: str})"""
        a, b, c = self.out[self.keys[key]].split("|")
        _, _, offs, serrs, wins = key
        pos = {}
        for o, x in zip(offs, a.split(",") if a else []):
            pos[o] = None if x == "X" else tuple(int(v) for v in x.split(":"))
        se = {}
        for o, x in zip(serrs, b.split(";") if b else []):
            se[o] = None if x == "panic" else tuple(int(v) for v in x.split(":"))
        wi = dict(zip(wins, c.split(";") if c else []))
        return pos, se, wi


def model_caret(span):
    sl, sc, so, el, ec, eo = span
    if sl != el:
        return "-"
    return "c%dw%d" % (sc, max(0, ec - sc))


def evaluate(r, text, tables=None):
    tables = tables or {}
    fallible = set(tables.get("C14_VM_FALLIBLE") or [])
    q = Queries()
    err_recs = collections.OrderedDict()   # id -> {(vi,hi): rec}
    classes = {}
    pending = []   # closures evaluated once the driver answered
    streams = collections.Counter()

    for line in text.splitlines():
        case, res = line.split("\t", 1)
        f = case.split(" ")
        streams[f[0]] += 1
        if f[0] == "err":
            cid, cls, cfg, vi, hi = f[1], f[2], f[3], int(f[4]), int(f[5])
            classes[(cid, cfg)] = cls
            err_recs.setdefault((cid, cfg), {})[(vi, hi)] = (case, parse_err_record(res))
        elif f[0] == "lex":
            do_lex(r, q, pending, case, f[1], f[2], res)
        elif f[0] == "ast":
            do_ast(r, q, pending, case, f[1], res)
        elif f[0] == "ins":
            do_ins(r, q, pending, case, f[3], res)
        elif f[0] == "tbl":
            do_tbl(r, q, pending, case, f[1], res)
        elif f[0] == "cg":
            do_cg(r, q, pending, case, f[1], res)
        elif f[0] == "stm":
            do_stm(r, case, res, fallible)
        elif f[0] == "cga":
            do_cga(r, q, pending, case, "s", f[1], res, tables, fallible)
        elif f[0] == "cge":
            do_cga(r, q, pending, case, "e", "o", res, tables, fallible)
    for s in ("err", "lex", "ast", "ins", "tbl", "cg", "stm", "cga", "cge"):
        if streams[s] == 0:
            r.broken.append(f"harness produced no `{s}` cases")

    failing_ids = do_err(r, q, pending, err_recs, classes)
    check_spanless_table(r, tables, failing_ids)
    check_vm_rows(r, tables, failing_ids, err_recs)
    check_inner_layout(r, failing_ids)
    if not q.run(r):
        return
    for fn in pending:
        fn()
    r.extra["streams"] = dict(streams)
    r.extra["driver_requests"] = len(q.lines)


# ---------------------------------------------------------------------------------------------- err stream
def check_error_static(r, case, e, depth, rec, in_quantifier):
    """the per-error predicates of the property"""
    k = e.kind
    where = f"{k}:{(e.detail or '')[:40]}"
    if e.fmtmask:
        r.oracle_failure(case, f"formatting the error panics (forms plain/alternate/debug/alt-debug/debug-info: into a String {e.fmtmask & 31:05b}, "
                         f"into a failing writer {e.fmtmask >> 5:05b}): {e.fmtmsg}", "format-" + panic_site(e.fmtmsg))
    parent = rec["errors"][depth - 1] if 0 < depth <= len(rec["errors"]) else None
    nested_render = parent is not None and (parent.kind in ("BadInclude", "EvalBlock") or (parent.detail or "") == "wrapped by user code")
    if depth > 0 and not nested_render and e.name is None and e.line is None and e.rs is None:
        # a cause that carries no location at all (e.g. the `number is not iterable` behind `cannot join value`,
        # attached with `with_source` by a filter): the property speaks of the returned error and of every
        # LOCATED error of its chain.  (The cause behind an engine wrapper — BadInclude, EvalBlock — or behind
        # user code that hands through a render error WAS returned from rendering: it has to be located.)
        r.hist["located"]["unlocated cause (allowed)"] += 1
        return
    if e.name is None:
        r.oracle_failure(case, f"error #{depth} has no template name: {e.brief()}", "no-name:" + where)
        return
    if e.name not in rec["specs"]:
        r.oracle_failure(case, f"error #{depth} names {e.name!r} which is not a template of the case: {e.brief()}", "bad-name:" + where)
        return
    if e.line is None:
        r.oracle_failure(case, f"error #{depth} has no line: {e.brief()}", "no-line:" + where)
    elif e.nlines is not None and not (1 <= e.line <= e.nlines):
        r.oracle_failure(case, f"error #{depth} line {e.line} outside the source (1..{e.nlines}): {e.brief()}", "line-outside:" + where)
    if e.tsok == "0":
        r.oracle_failure(case, f"error #{depth}: template_source() is not the source of the named template {e.name!r}", "wrong-source:" + where)
    if e.rs is not None:
        if e.inb != "1":
            r.oracle_failure(case, f"error #{depth}: range {e.rs}..{e.re} out of bounds of the source (len {e.srclen}): {e.brief()}", "range-out-of-bounds:" + where)
        elif e.sb != "1" or e.eb != "1":
            r.oracle_failure(case, f"error #{depth}: range {e.rs}..{e.re} not on char boundaries (start ok={e.sb}, end ok={e.eb}): {e.brief()}", "range-not-char-boundary:" + where)


def inner_zone(rec):
    """inner cases (white space inserted inside a tag): where the insertion is relative to the failing operation"""
    if rec["pe"] < 0:
        return None
    if rec["pv"] <= rec["ph"]:
        return "before"
    if rec["pv"] >= rec["pe"]:
        return "after"
    return "inside"


def expected_shift(b, rec, vi):
    """what the baseline error `b` must look like in the shifted template"""
    pv, ph, n, vb, hb = rec["pv"], rec["ph"], rec["n"], rec["vbytes"], rec["hbytes"]
    zone = inner_zone(rec)
    if zone in ("before", "after"):
        # line by the position of the insertion relative to the failing operation; the range (when the error
        # carries one: `CodeGenerator::add` drops it as soon as the span starts on another line than the
        # instruction) by the generic offset rule
        line = None if b.line is None else b.line + (n if zone == "before" else 0)
        if b.rs is None:
            return line, None, None
        return line, b.rs + (vb if b.rs >= pv else 0), b.re + (vb if b.re > pv else 0)
    if b.rs is not None:
        rs = b.rs + (vb if b.rs >= pv else 0) + (hb if b.rs >= ph else 0)
        re_ = b.re + (vb if b.re > pv else 0) + (hb if b.re > ph else 0)
        line = None if b.line is None else b.line + (n if b.rs >= pv else 0)
    else:
        rs = re_ = None
        line = None if b.line is None else b.line + (n if b.line >= rec["vline"] else 0)
    return line, rs, re_


def do_err(r, q, pending, err_recs, classes):
    fixed_total = fixed_fail = 0
    failing_ids = set()
    print_fail = collections.Counter()
    for (cid, cfg), variants in err_recs.items():
        cls = classes[(cid, cfg)]
        base = variants.get((0, 0))
        if base is None:
            r.broken.append(f"case {cid} (configuration {cfg}) has no unshifted baseline")
            continue
        bcase, brec = base
        counted = cls != "planted" and cfg == "d" and not cid.startswith("print_none_")
        if counted:
            fixed_total += 1
        if brec["how"] == "noerror":
            for (vi, hi), (case, rec) in variants.items():
                r.count(case, False)
                if rec["how"] != "noerror":
                    r.oracle_failure(case, f"template renders unshifted but fails when shifted: {rec['how']} "
                                     + "; ".join(e.brief() for e in rec["errors"]), "shift-creates-failure")
            r.hist["err_outcome"]["valid (planting produced no error)"] += 1
            continue
        if counted:
            fixed_fail += 1
        failing_ids.add(cid)
        if cid.startswith("print_") and cfg in ("p", "n", "a"):
            print_fail[cfg] += 1
        for (vi, hi), (case, rec) in variants.items():
            exploded = vi >= EXPLODED_FIRST
            in_q = vi != 6 or rec["pe"] >= 0
            r.count(case, True)
            r.hist["err_class"][cls] += 1
            r.hist["err_config"][CFG_NAMES.get(cfg, cfg)] += 1
            r.hist["v_shift"][EXPLODED_NAMES[vi] if exploded else ("inner: %d line breaks" % rec["n"]) if rec["pe"] >= 0 else (str(V_N[vi]) if V_N[vi] is not None else "to 65535 lines")] += 1
            r.hist["h_shift"][["0", "1 col", "3 cols multi-byte", "65540 cols"][hi]] += 1
            if rec["panic"] is not None:
                r.oracle_failure(case, "loading/rendering panics: " + rec["panic"], panic_site(rec["panic"]))
                continue
            if rec["how"] == "noerror":
                r.oracle_failure(case, "template fails unshifted but not when shifted", "shift-removes-failure")
                continue
            for d, e in enumerate(rec["errors"]):
                r.hist["err_kind"][e.kind] += 1
                r.hist["located"]["range" if e.rs is not None else ("line only" if e.line is not None else "none")] += 1
                check_error_static(r, case, e, d, rec, in_q)
            # --- the right line: some error of the chain points into the marked failing construct
            if cls != "planted" and not rec["free"] and in_q and (cfg != "r" or cid.startswith("sl_")) and cid not in UNANCHORED:
                zone = inner_zone(rec)
                if zone is None:
                    lo = rec["mline"] + rec["n"]
                    hi_ = lo + rec["mext"]
                else:
                    lo = rec["mline"] + (rec["n"] if zone == "before" else 0)
                    hi_ = rec["mline"] + rec["mext"] + (rec["n"] if zone != "after" else 0)
                mine = [e for e in rec["errors"] if e.name == rec["shifted"] and e.line is not None]
                if mine and not any(lo <= e.line <= hi_ for e in mine):
                    r.oracle_failure(case, f"no error of the chain points at the failing construct on line(s) {lo}..{hi_}: "
                                     + "; ".join(e.brief() for e in rec["errors"]), f"wrong-line:{mine[-1].kind}:{(mine[-1].detail or '')[:40]}")
            # --- shift invariance against the baseline
            be, se = brec["errors"], rec["errors"]
            if cid in UNANCHORED:
                pass    # nothing in the source the error could be anchored to: only the static predicates apply
            elif exploded:
                # another layout of the same template: same chain of the same errors; where they point is bounded
                # by the right-line check above (the lines of the failing operation's own tokens)
                same = (lambda x: (x.name, x.kind)) if vi >= TRIMMED_LAYOUT else (lambda x: (x.name, x.kind, x.detail))
                if rec["how"] != brec["how"] or [same(x) for x in be] != [same(x) for x in se]:
                    r.oracle_failure(case, f"line breaks between the tokens of the tags change the error chain: {brec['how']} {[x.brief() for x in be]} -> "
                                     f"{rec['how']} {[x.brief() for x in se]}", "layout-changes-chain")
            elif rec["how"] != brec["how"] or len(be) != len(se):
                r.oracle_failure(case, f"shift changes the error chain: {brec['how']} {[x.brief() for x in be]} -> {rec['how']} {[x.brief() for x in se]}",
                                 "shift-changes-chain")
            else:
                for d, (b, s) in enumerate(zip(be, se)):
                    if (b.name, b.kind, b.detail) != (s.name, s.kind, s.detail):
                        r.oracle_failure(case, f"shift changes error #{d}: {b.brief()} -> {s.brief()}", f"shift-changes-error:{b.kind}")
                        continue
                    if b.name == rec["shifted"] and inner_zone(rec) == "inside":
                        # white space inside the failing operation: a different template as far as this
                        # operation is concerned; the right-line check above bounds the line
                        r.hist["inner_zone"]["inside"] += 1
                        continue
                    if b.name == rec["shifted"]:
                        line, rs, re_ = expected_shift(b, rec, vi)
                        if inner_zone(rec):
                            r.hist["inner_zone"][inner_zone(rec)] += 1
                    else:
                        line, rs, re_ = b.line, b.rs, b.re
                    if in_q and s.line != line:
                        r.oracle_failure(case, f"error #{d}: line {b.line} unshifted, {s.line} after inserting {rec['n']} lines (expected {line}): {s.brief()}",
                                         f"line-shift:{b.kind}:{(b.detail or '')[:40]}")
                    if not in_q and (b.rs is None) != (s.rs is None):
                        continue   # beyond 65535 lines saturated lines coincide: a line-only error may gain a span
                    if rec["pe"] >= 0 and (b.rs is None) != (s.rs is None):
                        r.hist["inner_zone"]["range present only on one side"] += 1
                        continue   # white space inside the tag: the span may start on another line than the instruction
                    if (s.rs, s.re) != (rs, re_):
                        r.oracle_failure(case, f"error #{d}: range {b.rs}..{b.re} unshifted, {s.rs}..{s.re} shifted (expected {rs}..{re_}; "
                                         f"v insert {rec['vbytes']}B at {rec['pv']}, h insert {rec['hbytes']}B at {rec['ph']})",
                                         f"range-shift:{b.kind}:{(b.detail or '')[:40]}")
            # --- model predictions for every error with a range / a debug window
            for d, e in enumerate(rec["errors"]):
                if e.name is None or e.name not in rec["specs"]:
                    continue
                spec = rec["specs"][e.name]
                offs, serrs, wins = [], [], []
                if e.rs is not None and e.inb == "1":
                    offs = [e.rs, e.re]
                    if e.kind == "SyntaxError":
                        serrs = [e.rs]
                if e.win not in ("n", "p"):
                    wins = [e.line]
                if not offs and not wins:
                    continue
                key = q.add(1 if cfg == "k" else 0, spec, offs, serrs, wins)
                pending.append(lambda key=key, e=e, case=case, d=d: err_model_check(r, q, key, e, case, d))
            if (vi, hi) in ((0, 0), (5, 3)) and len(r.samples) < 10 and cfg in ("d", "n") and cid in ("include_inner_err", "syn_unexpected_char_mb", "print_none_macro_imported", "plant_1_7_tag"):
                r.sample({"case": case, "errors": [e.brief() for e in rec["errors"]]})
    r.extra["failing_print_cases_by_formatter_config"] = dict(print_fail)
    if err_recs and (print_fail["n"] < 40 or print_fail["p"] < 20 or print_fail["a"] < 40):
        r.broken.append(f"too few failing prints through the custom formatter / custom auto-escape paths: {dict(print_fail)}")
    r.extra["fixed_site_cases"] = fixed_total
    r.extra["fixed_site_cases_failing"] = fixed_fail
    if fixed_total and fixed_fail * 10 < fixed_total * 9:
        r.broken.append(f"only {fixed_fail}/{fixed_total} fixed-site cases still produce an error: the case list no longer matches /repo")
    return failing_ids


def check_vm_rows(r, tables, failing_ids, err_recs):
    """every fallible row of the interpreter has a planted construct that fails there, in several contexts"""
    rows = tables.get("C14_VM_ROWS")
    if not rows:
        return
    cov = {}
    for row in rows:
        key = "|".join(row)
        cl = ROW_CASES.get(key) or ROW_CASES.get("|".join(row[:3]) + "|*")   # `*`: the call is wrapped by instrumentation
        if cl is None:
            r.broken.append(f"eval_impl row {key} (a fallible expression of the interpreter loop) has no planted failing construct in C14")
            continue
        if isinstance(cl, tuple):
            cov[key] = cl[0] + ": " + cl[1]
            continue
        hit = sorted(i for i in failing_ids if any(i.startswith(p) for p in cl))
        if not hit:
            r.broken.append(f"no planted case {cl} fails for eval_impl row {key}")
        ctxs = sorted({i.split("__", 1)[1] for i in hit if "__" in i})
        cov[key] = {"failing_cases": len(hit), "contexts": ctxs or ["(fixed site)"]}
    r.extra["vm_row_coverage"] = cov
    r.extra["vm_rows"] = len(rows)
    # the row sites hit the row they are meant for
    for (cid, cfg), variants in err_recs.items():
        if cfg != "d" or not (cid.startswith("row_") and cid.endswith("__top")):
            continue
        site = cid[4:].split("__", 1)[0]
        want = SITE_DETAIL.get(site)
        base = variants.get((0, 0))
        if not want or base is None or not base[1]["errors"]:
            continue
        inner = base[1]["errors"][-1]
        if want not in (inner.detail or ""):
            r.broken.append(f"row site {cid} fails with {inner.kind} {inner.detail!r}, not with the intended `{want}`")


# instructions that are added with the current line only (plain `add` at statement level / fast paths):
# each needs failing cases in the "line break after the opening delimiter" layout (inner cases, slot 0)
INNER_REQUIRED = {
    "CallBlock": ["inn_self_block_unknown_0", "inn_self_block_required_0", "inn_block_required_0"],
    "FastSuper": ["inn_super_fast_0"], "FastRecurse": ["inn_loop_fast_0"],
    "Include": ["inn_include_nonstring_0", "inn_import_nonstring_0", "inn_from_import_missing_0"],
    "LoadBlocks": ["inn_extends_nonstring_0", "inn_extends_missing_0"],
    "PushAutoEscape": ["inn_autoescape_0"], "PushLoop": ["inn_for_noniterable_0"], "UnpackList": ["inn_set_unpack_0"],
    "JumpIfFalse": ["inn_if_strict_0"], "CallFunction": ["inn_call_0", "inn_super_in_expr_0", "inn_loop_in_expr_0"],
    "ApplyFilter": ["inn_filter_0", "inn_filter_block_0"], "PerformTest": ["inn_test_0"], "CallMethod": ["inn_method_0"],
    "Add": ["inn_add_0", "inn_with_expr_0"], "In": ["inn_in_0"], "CompareAndPreserve": ["inn_compare_chain_0"],
}


def check_inner_layout(r, failing_ids):
    missing = [(k, c) for k, cs in INNER_REQUIRED.items() for c in cs if c not in failing_ids]
    for k, c in missing:
        r.broken.append(f"no failing case in the line-break-after-the-opening-delimiter layout for Instruction::{k} ({c})")
    r.extra["inner_layout_sites"] = {k: len(v) for k, v in INNER_REQUIRED.items()}


def check_spanless_table(r, tables, failing_ids):
    """every fallible instruction emitted through CodeGenerator::add is classified, and the planted ones fail"""
    adds, fall = tables.get("C14_CODEGEN_ADDS"), tables.get("C14_VM_FALLIBLE")
    if not adds or not fall:
        return   # missing items are reported by regen_tables
    sites = sorted(set(adds) & set(fall))
    r.extra["spanless_fallible_sites"] = {}
    for name in sites:
        cl = SPANLESS_CLASS.get(name)
        if cl is None:
            r.broken.append(f"`CodeGenerator::add(Instruction::{name})` is a fallible instruction without explicit span that C14 has "
                            "neither classified nor planted a failing case for")
            continue
        r.extra["spanless_fallible_sites"][name] = cl[0]
        if cl[0] == "planted":
            for prefix in cl[1]:
                if not any(i.startswith(prefix) for i in failing_ids):
                    r.broken.append(f"no failing planted case `{prefix}*` for the span-less site Instruction::{name}")



# ---------------------------------------------------------------------------------------------- cga / cge streams
SPANLESS_KINDS = {"absent", "body", "cmpop", "apos", "akw", "asplat", "akwsplat", "withassign", "importname", "macroarg", "template"}
STMT_KINDS = {"emitexpr", "emitraw", "for", "ifcond", "with", "set", "setblock", "autoescape", "filterblock", "block", "import", "fromimport",
              "extends", "include", "macro", "callermacro", "callblock", "continue", "break", "do"}
COMPARE_OPS = {"Eq", "Ne", "Lt", "Lte", "Gt", "Gte", "In"}
# where the span of a node may start relative to the tokens of its construct (table C14_PARSER_SPANS says which
# parser site builds which node from which start): cover = at the first token, inside = at a later token of the
# construct (operator / name token), before = at the token in front of the construct (parse_compare, parse_ifexpr)
ALLOWED_START = {
    "var": {"cover"}, "const": {"cover"}, "list": {"cover"}, "map": {"cover"}, "neg": {"cover"},
    "tuple": {"cover", "inside"}, "slice": {"cover", "inside"}, "attr": {"cover", "inside"}, "item": {"cover", "inside"},
    "call": {"cover", "inside"}, "filter": {"cover", "inside"}, "test": {"inside"},
    "bin": {"cover", "before"}, "cmp": {"before"}, "if": {"before", "inside"}, "not": {"cover", "inside", "before"},
}
PREV_TOKEN_KINDS = {"cmp", "if", "not", "bin"}


class N:
    __slots__ = "kind sp flags name num kids first last lo hi cls name_plain".split()


def parse_sexp(toks, i):
    assert toks[i] == "("
    n = N()
    n.kind = toks[i + 1]
    n.sp = tuple(int(v) for v in toks[i + 2].split(":"))
    n.flags = int(toks[i + 3]); n.name = toks[i + 4]; n.num = toks[i + 5]
    n.kids = []
    n.first = n.last = n.lo = n.hi = n.cls = None
    i += 6
    while toks[i] != ")":
        k, i = parse_sexp(toks, i)
        n.kids.append(k)
    return n, i + 1


def sexp_str(n, out):
    out.append("( %s %s %d %s %s %d %d" % (n.kind, ":".join(map(str, n.sp)), n.flags, n.name, n.num, n.lo, n.hi))
    for k in n.kids:
        sexp_str(k, out)
    out.append(")")


def token_ranges(r, case, root, toks):
    """first/last token index and line range of the construct of every node; classification of the span start"""
    starts = {t[1][2]: i for i, t in reversed(list(enumerate(toks)))}
    ends = {t[1][5]: i for i, t in enumerate(toks)}
    match, stack = {}, []
    for i, (k, _) in enumerate(toks):
        if k == "po":
            stack.append(i)
        elif k == "pc" and stack:
            match[stack.pop()] = i
    fails = []

    def walk(n, parent):
        own = n.kind not in SPANLESS_KINDS and n.sp != (0, 0, 0, 0, 0, 0)
        for k in n.kids:
            walk(k, n)
        kf = [k.first for k in n.kids if k.first is not None]
        kl = [k.last for k in n.kids if k.last is not None]
        if not own:
            n.first, n.last = (min(kf), max(kl)) if kf else (None, None)
            return
        oe = ends.get(n.sp[5])
        os_ = None if n.sp[:3] == (0, 0, 0) and toks and toks[0][1][:3] != (0, 0, 0) else starts.get(n.sp[2])
        if n.sp[:3] == (0, 0, 0) and n.kind in PREV_TOKEN_KINDS and kf and min(kf) == 0:
            os_ = None   # `last_span` before any token: Span::default()
        if oe is None or (os_ is None and n.sp[:3] != (0, 0, 0)):
            fails.append((f"AST span {n.sp} of a {n.kind} node does not start / end at a token boundary", f"ast-span-not-at-token:{n.kind}"))
            n.first, n.last = (min(kf), max(kl)) if kf else (None, None)
            return
        if kl and max(kl) > oe:
            fails.append((f"AST span {n.sp} of a {n.kind} node ends before its last child (token {max(kl)} > {oe})", f"ast-span-end:{n.kind}"))
        n.last = max([oe] + kl)
        # the first token of the construct
        own_first = n.kind in STMT_KINDS or n.kind in ("var", "const", "map", "neg") or not kf
        if n.kind == "list":
            own_first = toks[os_][0] == "ko" if os_ is not None else False
        elif n.kind == "tuple":
            own_first = toks[os_][0] == "po" if os_ is not None else False
        elif n.kind == "not":
            own_first = os_ is not None and toks[os_][0] == "id.6e6f74" and os_ < min(kf)
        elif n.kind == "filter" and n.kids and n.kids[0].kind == "absent":
            own_first = True    # the filters of `{% filter a|b %}` / `{% set x | a %}` have no operand
        if own_first and os_ is not None:
            n.first = os_
        else:
            i = min(kf) if kf else os_
            while i is not None and i > 0 and toks[i - 1][0] == "po" and match.get(i - 1) is not None and match[i - 1] <= n.last:
                i -= 1
            n.first = i
        if os_ is None:
            n.cls = "before"
        elif os_ == n.first:
            n.cls = "cover"
        elif n.first < os_ <= n.last:
            n.cls = "inside"
        else:
            n.cls = "before"
            if os_ != n.first - 1:
                fails.append((f"span of a {n.kind} node starts at token {os_}, {n.first - os_} tokens in front of its construct", f"ast-span-far-before:{n.kind}"))
        r.hist["ast_span_start"][f"{n.kind}: {n.cls}"] += 1
        allowed = ALLOWED_START.get(n.kind, {"cover"})
        if n.cls == "before" and n.kind == "bin" and n.name_plain not in COMPARE_OPS:
            allowed = {"cover"}
        if n.cls not in allowed:
            fails.append((f"the span {n.sp} of a {n.kind} node starts {n.cls} its construct (tokens {n.first}..{n.last}); allowed: {sorted(allowed)}",
                          f"ast-span-start:{n.kind}:{n.cls}"))
        elif n.cls == "before":
            fails.append((f"the span {n.sp} of a {n.kind} node starts at the token in front of the expression (tokens {n.first}..{n.last}): "
                          "parse_compare / parse_ifexpr take the start from last_span()", "ast-span-starts-at-previous-token"))

    def names(n):
        n.name_plain = "" if n.name == "-" else unhexs(n.name)
        for k in n.kids:
            names(k)
    names(root)
    walk(root, None)

    def ranges(n, plo, phi):
        if n.first is not None and n.kind not in SPANLESS_KINDS:
            n.lo, n.hi = toks[n.first][1][0], toks[n.last][1][3]
        else:
            n.lo, n.hi = plo, phi
        for k in n.kids:
            ranges(k, n.lo, n.hi)
    top_hi = max([t[1][3] for t in toks] + [1])
    ranges(root, 0, top_hi) if root.kind == "template" else ranges(root, 1, top_hi)
    if root.kind == "template":
        root.lo, root.hi = 0, top_hi
    return fails


def do_cga(r, q, pending, case, mode, layout, res, tables, fallible):
    how, _, body = res.partition("|")
    if how == "panic":
        r.count(case, True)
        r.oracle_failure(case, "parsing / compiling panics: " + unhexs(body), panic_site(unhexs(body)))
        return
    if how != "ok":
        r.count(case, False)
        return
    r.count(case, True)
    r.hist["cga_layout"][{"o": "as written", "x0": "newline at every token gap", "x1": "at every even gap", "x2": "at every odd gap", "x3": "every tag on its own line, trimmed", "g": "grammar-drawn"}.get(layout, layout)] += 1
    sexp, toks_s, tbls = body.split("|")
    root, _ = parse_sexp(sexp.split(" "), 0)
    toks = []
    for t in toks_s.split(",") if toks_s else []:
        k, _, sp = t.partition("@")
        toks.append((k, tuple(int(v) for v in sp.split(":"))))
    for what, site in token_ranges(r, case, root, toks):
        r.oracle_failure(case, what, site)
    out = []
    sexp_str(root, out)
    key = q.add_raw("cga %s %s" % (mode, " ".join(out)))
    real = {}
    for part in tbls.split(";"):
        name, _, tb = part.partition("=")
        real[unhexs(name) if name else ""] = tb

    def check():
        ans = q.raw(key)
        if ans == "bad-case":
            r.broken.append("the model driver cannot read the AST dump of " + case[:200])
            return
        w, bad, mt, tg = ans.split("|", 3)
        model, tags = {}, {}
        for i, part in enumerate(mt.split(";")):
            if i == 0:
                model[""] = part
            else:
                name, _, tb = part.partition("=")
                model[name] = tb
        for i, part in enumerate(tg.split(";")):
            name, _, tb = ("", "", part) if i == 0 else part.partition("=")
            tags[name] = [tuple(int(v) for v in x.split("-")) for x in tb.split(",")] if tb else []
        # the property itself on the REAL tables: a fallible instruction recorded outside the lines of the construct
        # it belongs to (attribution by the model's arms; possible whenever the instruction names line up)
        outside = 0
        for name, tb in real.items():
            ents = [x.split("/") for x in tb.split(",")] if tb else []
            mnames = [x.split("/")[0] for x in (model.get(name) or "").split(",")] if model.get(name) else []
            if [e[0] for e in ents] != mnames or len(tags.get(name, [])) != len(ents) or w != "1":
                continue
            for pc, (e, (lo_, hi_)) in enumerate(zip(ents, tags[name])):
                if e[0] in fallible and (e[1] == "-" or not (lo_ <= int(e[1]) <= hi_)):
                    outside += 1
                    r.oracle_failure(case, f"instruction #{pc} {e[0]} of {name or '<root>'} is recorded on line {e[1]}, outside the lines {lo_}..{hi_} of "
                                     "the construct whose compile arm emits it: an error raised there is reported outside the failing construct",
                                     f"cga-line-outside:{e[0]}")
        if model != real:
            for name in sorted(set(model) | set(real)):
                if model.get(name) != real.get(name):
                    a, b = (real.get(name) or "").split(","), (model.get(name) or "").split(",")
                    d = next((i for i in range(max(len(a), len(b))) if i >= len(a) or i >= len(b) or a[i] != b[i]), 0)
                    r.model_disagreement(case, f"instructions {name or '<root>'}: pc {d}: {a[d] if d < len(a) else '(end)'} ({len(a)} instructions)",
                                         f"model: pc {d}: {b[d] if d < len(b) else '(end)'} ({len(b)} instructions)")
            return
        n_ins = sum(len(t.split(",")) for t in real.values() if t)
        r.hist["cga_instr"]["compared (name, line, span)"] += n_ins
        folded = False
        if w != "1":
            f = w.split(":")
            kind, flag = (f[1].split(".")[-1], f[2]) if len(f) > 2 else ("?", "?")
            if flag == "true" and kind in ("bin", "cmp", "ifx", "not"):
                folded = True
                r.oracle_failure(case, f"a constant-folded {kind} expression whose span starts on line {f[3]}, in front of its construct (lines {f[4]}..{f[5]}): its LoadConst "
                                 "is recorded on the line of the previous token", "cga-const-folded-span-before-construct")
            else:
                r.oracle_failure(case, f"the span / line range of a {kind} node violates the parser invariant `wf` (span line {f[3] if len(f) > 3 else '?'}, "
                                 f"construct lines {f[4] if len(f) > 4 else '?'}..{f[5] if len(f) > 5 else '?'})", f"cga-wf:{kind}")
        if bad.startswith("D"):
            r.model_disagreement(case, "side tables", "model: the line semantics execL and the side tables disagree")
            bad = bad[1:]
        for ent in bad.split(",") if bad else []:
            pc, name, line, lo, hi = ent.split(":")
            if name not in fallible or folded:
                # LoadConst of the folded comparison and the location-less short-circuit jump that inherits its line
                r.hist["cga_instr"]["instruction on the line of a const-folded comparison's previous token"] += 1
                continue
            r.oracle_failure(case, f"instruction {name} is recorded on line {line}, outside the lines {lo}..{hi} of the construct it belongs to",
                             f"cga-line-outside:{name}")
    pending.append(check)

# ---------------------------------------------------------------------------------------------- cg / stm streams
def do_cg(r, q, pending, case, ops, res):
    opl = [] if ops == "-" else ops.split(",")
    r.count(case, any(o in ("a",) or o[0] == "s" for o in opl))
    r.hist["cg_len"][str(min(len(opl), 10)) + ("+" if len(opl) >= 10 else "")] += 1
    if res.startswith("panic|"):
        r.oracle_failure(case, "code generator panics: " + unhexs(res[6:]), panic_site(unhexs(res[6:])))
        return
    key = q.add_raw("cg " + ops)

    def check():
        m = q.raw(key)
        if m != res:
            r.model_disagreement(case, res, m)
    pending.append(check)


def do_stm(r, case, res, fallible):
    how, body = res.split("|", 1)
    if how == "panic":
        r.count(case, True)
        r.oracle_failure(case, "compiling panics: " + unhexs(body), panic_site(unhexs(body)))
        return
    if how != "ok" or not body:
        r.count(case, False)
        return
    r.count(case, True)
    for part in body.split("|"):
        head, _, instrs = part.partition("=")
        kind, _, span = head.partition("@")
        if span == "-" or not instrs:
            continue
        sl, sc, so, el, ec, eo = (int(v) for v in span.split(":"))
        for pc, ent in enumerate(instrs.split(";")):
            name, line, isp = ent.split("/")
            r.hist["stm_instr"]["fallible" if name in fallible else "infallible"] += 1
            if name not in fallible:
                continue    # cannot raise: its location is never reported
            if line == "-" or not (sl <= int(line) <= el):
                r.oracle_failure(case, f"{kind} statement on lines {sl}..{el}: its instruction #{pc} {name} carries line {line} "
                                 f"(span {isp}): an error raised there is reported outside the statement",
                                 f"stm-line-outside:{kind}:{name}")
            elif isp != "-":
                sp = [int(v) for v in isp.split(":")]
                if not (so <= sp[2] and sp[5] <= eo):
                    r.oracle_failure(case, f"{kind} statement at bytes {so}..{eo}: its instruction #{pc} {name} carries the span "
                                     f"{isp} of a different construct", f"stm-span-outside:{kind}:{name}")


def err_model_check(r, q, key, e, case, d):
    pos, se, wi = q.get(key)
    if e.rs is not None and e.inb == "1":
        ps, pe = pos.get(e.rs), pos.get(e.re)
        if ps is None or pe is None:
            # the model cannot reach the offset with `advance`: not a char boundary (already an oracle failure)
            if e.sb == "1" and e.eb == "1":
                r.model_disagreement(case, f"range {e.rs}..{e.re} valid", "model: offset not reachable")
        else:
            if e.line != ps[0]:
                r.model_disagreement(case, f"error #{d} line {e.line} range {e.rs}..{e.re}", f"model: offset {e.rs} is on line {ps[0]}")
            cands = [model_caret((ps[0], ps[1], e.rs, pe[0], pe[1], e.re))]
            s = se.get(e.rs)
            if s is not None and s[5] == e.re and s[2] == e.rs:
                cands.append(model_caret(s))
            if e.tsok != "n" and e.caret not in ("p",) and e.caret not in cands:   # no debug info: nothing is rendered
                r.model_disagreement(case, f"error #{d} caret {e.caret} range {e.rs}..{e.re}", f"model: {cands}")
    if e.win not in ("n", "p"):
        w = wi.get(e.line)
        if w != e.win:
            r.model_disagreement(case, f"error #{d} debug window {e.win} for line {e.line}", f"model: {w}")


# ---------------------------------------------------------------------------------------------- lex stream
def do_lex(r, q, pending, case, cfg, spec, res):
    keep = 1 if cfg == "trim" else 0
    r.hist["lex_cfg"][cfg] += 1
    if res.startswith("panic|"):
        msg = unhexs(res[6:])
        r.count(case, True)
        r.oracle_failure(case, "tokenizer panics: " + msg, panic_site(msg))
        return
    toks, tail = res.rsplit("|", 1)
    spans = [tuple(int(v) for v in t.split(":")) for t in toks.split(",")] if toks else []
    r.count(case, bool(spans) or tail != "end")
    r.hist["lex_tail"][tail.split(":")[0]] += 1
    offs, serrs = [], []
    prev = 0
    for sp in spans:
        if not (prev <= sp[2] <= sp[5]):
            r.oracle_failure(case, f"token spans not ordered: {sp} after offset {prev}", "lex-span-order")
        prev = sp[5]
        offs += [sp[2], sp[5]]
    err = None
    if tail.startswith("err:"):
        _, line, rs, re_ = tail.split(":")
        if "-" in (line, rs, re_):
            # errors of `unescape` are created without a location; the parser attaches one later
            r.hist["lex_tail"]["err without location (located by the parser)"] += 1
        else:
            err = (int(line), int(rs), int(re_))
            serrs = [err[1]]
    if not offs and not serrs:
        return
    key = q.add(keep, spec, offs, serrs)

    def check():
        pos, se, _ = q.get(key)
        for sp in spans:
            a, b = pos.get(sp[2]), pos.get(sp[5])
            if a is None or b is None:
                r.oracle_failure(case, f"token span {sp} does not lie on char boundaries inside the source", "lex-span-invalid")
            elif (sp[0], sp[1], sp[3], sp[4]) != (a[0], a[1], b[0], b[1]):
                r.model_disagreement(case, f"token span {sp}", f"model: start {a} end {b}")
        if err:
            s = se.get(err[1])
            if s is None:
                r.oracle_failure(case, f"lexer error at offset {err[1]} which is not a char boundary inside the source", "lex-error-invalid")
            elif (s[0], s[2], s[5]) != err:
                r.model_disagreement(case, f"lexer error line {err[0]} range {err[1]}..{err[2]}", f"model: {s}")
    pending.append(check)


# ---------------------------------------------------------------------------------------------- ast stream
def do_ast(r, q, pending, case, spec, res):
    how, body = res.split("|", 1)
    if how == "panic":
        r.count(case, True)
        r.oracle_failure(case, "parser panics: " + unhexs(body), panic_site(unhexs(body)))
        return
    if how != "ok":
        r.count(case, False)
        return
    spans = [tuple(int(v) for v in t.split(":")) for t in body.split(",")] if body else []
    r.count(case, bool(spans))
    r.hist["ast_spans"]["spans"] += len(spans)
    offs = []
    for sp in spans:
        offs += [sp[2], sp[5]]
    key = q.add(0, spec, offs)

    def check():
        pos, _, _ = q.get(key)
        for sp in spans:
            if sp == (0, 0, 0, 0, 0, 0):
                continue   # Span::default(): "no location"
            a, b = pos.get(sp[2]), pos.get(sp[5])
            if sp[:3] == (0, 0, 0) and a is not None:
                a = (0, 0)  # the root `Template` node starts at `Span::default()` (parser: last_span before any token)
            if sp[2] > sp[5] or a is None or b is None:
                r.oracle_failure(case, f"AST span {sp} is not a valid slice of the source", "ast-span-invalid")
            elif (sp[0], sp[1], sp[3], sp[4]) != (a[0], a[1], b[0], b[1]):
                r.model_disagreement(case, f"AST span {sp}", f"model: start {a} end {b}")
    pending.append(check)


# ---------------------------------------------------------------------------------------------- ins / tbl streams
def do_tbl(r, q, pending, case, ops, res):
    opl = [] if ops == "-" else ops.split(",")
    r.count(case, len(opl) > 0)
    r.hist["tbl_len"][str(min(len(opl), 10)) + ("+" if len(opl) >= 10 else "")] += 1
    if res.startswith("panic|"):
        r.oracle_failure(case, "side tables panic: " + unhexs(res[6:]), panic_site(unhexs(res[6:])))
        return
    spec = py_tbl_spec(opl, len(opl) + 2)
    if res != spec:
        r.oracle_failure(case, f"get_line/get_span do not return the recorded locations: got {res}, recorded {spec}", "side-table-lookup")
    key = q.add_raw("tbl " + ops)

    def check():
        m = q.raw(key)
        if m != res:
            r.model_disagreement(case, res, m)
    pending.append(check)


def do_ins(r, q, pending, case, spec, res):
    if res.startswith("panic|"):
        r.count(case, True)
        r.oracle_failure(case, "compiling panics: " + unhexs(res[6:]), panic_site(unhexs(res[6:])))
        return
    if res.startswith("compile-error"):
        r.count(case, False)
        return
    entries = res.split(",")
    r.count(case, len(entries) > 1)
    ops, offs, spans = [], [], []
    for pc, ent in enumerate(entries):
        line, span = ent.split("/")
        if span != "-":
            sp = tuple(int(v) for v in span.split(":"))
            spans.append((pc, line, sp))
            offs += [sp[2], sp[5]]
            ops.append("s" + ".".join(map(str, sp)))
            r.hist["ins_located"]["span"] += 1
        elif line != "-":
            ops.append("l" + line)
            r.hist["ins_located"]["line only"] += 1
        else:
            ops.append("a")
            r.hist["ins_located"]["none"] += 1
    # the reconstructed add sequence must reproduce the lookups (tables are a faithful run-length encoding)
    ops = ops[:-1]     # last entry is the lookup one past the end
    tkey = q.add_raw("tbl " + (",".join(ops) or "-"))
    pkey = q.add(0, spec, offs)

    def check():
        m = q.raw(tkey).split(",")
        if m[:len(entries) - 1] != entries[:-1] or m[len(entries) - 1] != entries[-1]:
            r.model_disagreement(case, res, ",".join(m))
        pos, _, _ = q.get(pkey)
        for pc, line, sp in spans:
            a, b = pos.get(sp[2]), pos.get(sp[5])
            if sp[2] > sp[5] or a is None or b is None:
                r.oracle_failure(case, f"instruction {pc}: span {sp} is not a valid slice of the source", "ins-span-invalid")
            elif (sp[0], sp[1], sp[3], sp[4]) != (a[0], a[1], b[0], b[1]):
                r.model_disagreement(case, f"instruction {pc} span {sp}", f"model: start {a} end {b}")
            if line != str(sp[0]):
                r.oracle_failure(case, f"instruction {pc}: line {line} but span starts on line {sp[0]}", "ins-line-vs-span")
    pending.append(check)


# ---------------------------------------------------------------------------------------------- entry points
def run(r):
    r.rule = ("err: failing templates = fixed-site cases (runtime errors in every construct incl. macros, blocks, includes, super, "
              "call/filter blocks, loops; every lexer/parser error site; failing prints in 31 constructs; one construct per fallible "
              "row of eval_impl (table C14_VM_ROWS) x 10 contexts incl. the entry points render_block / call_macro / "
              "compile_expression; span-less code generator sites x 20 span-stack contexts x 9 sub-expression kinds; user code "
              "handing through located errors; lazily loaded templates with syntax errors / failing loaders) and syntax errors "
              "planted at every token position of 13 base templates, each under vertical shifts {0,1,2,7,300,up to 65535 lines,70000} x "
              "horizontal shifts {0,1,3 multi-byte,65540 columns} x environment configurations {default, debug off, pass-through / "
              "failing formatter, custom auto-escape format, JSON / HTML auto-escape, keep_trailing_newline, trim+lstrip, custom delimiters, strict / "
              "semi-strict / chainable undefined, recursion limit 1, writer output, loader-backed} x entry points {render_str, "
              "render_named_str, template_from_str, template_from_named_str, add_template_owned} and, for every run-time failure, the "
              "three layouts with a newline at every / every even / every odd token gap inside the tags (rule there: the report lies "
              "on the lines of the failing operation's own tokens) (quick tier: whole shift grid in the default configuration, "
              "reduced grids elsewhere, generated sites rotate contexts/kinds; thorough: everything); "
              "lex: all those sources + random token soups under 4 lexer configurations; ast/ins/stm: every AST span, every "
              "instruction's line/span and per top-level statement line range of all valid templates; cga/cge: the real AST of every "
              "valid template / expression of the case lists in 4 layouts -> span of every node vs. the token range of its construct, "
              "model code generator vs. real per-pc (name, line, span) of root and blocks, wf and line-in-construct per instruction; "
              "tbl/cg: every add sequence / code generator script up to length 5/4 (6/5 thorough) + random long ones. "
              "Non-trivial = yields an error / tokens / spans / instructions.")
    r.assumptions = ["sources shorter than 2^32 bytes (offsets are stored as u32)",
                     "slice::binary_search_by_key meets its documented contract on sorted slices",
                     "shift invariance is claimed for templates of at most 65535 lines (u16 line counter saturates beyond)",
                     "errors raised by an API entry point itself (render_block / call_macro on a missing name or under a recursion "
                     "limit that already forbids their frame) belong to no template construct and are not expected to be located"]
    import time
    t0 = time.time(); phases = {}
    st = r.regen_tables(["C14_CODEGEN_ADDS", "C14_VM_FALLIBLE", "C14_VM_ROWS", "C14_LOC_WIDTHS", "C14_PARSER_SPANS", "C14_CODEGEN_ARMS", "C14_CODEGEN_SPAN_ARGS"])
    phases["tables"] = round(time.time() - t0, 1); t0 = time.time()
    r.lean_prove("MJ.Props.C14", "MJ/Audit/C14.lean", extra_targets=["drive_c14"])
    phases["lean"] = round(time.time() - t0, 1); t0 = time.time()
    exe = r.cargo_build("c14")
    phases["cargo"] = round(time.time() - t0, 1); t0 = time.time()
    if exe is None:
        return
    out = harness_sharded(r, exe)
    phases["harness"] = round(time.time() - t0, 1); t0 = time.time()
    if out is None:
        return
    r.extra["shards"] = NSHARDS
    evaluate(r, out, st.get("items", {}))
    phases["evaluate+model"] = round(time.time() - t0, 1)
    r.extra["phase_seconds"] = phases
    r.log("phases (s):", phases)


def replay(r, path):
    d = json.load(open(path))
    exe = r.cargo_build("c14")
    for case in [d.get("case")] + d.get("more_cases", []):
        if not case:
            continue
        f = case.split(" ")
        args = ["one"] + f + (["show"] if f[0] == "err" else [])
        rc, out, err = r.harness(exe, args)
        print(out.strip()[:3000])
        print(err.strip()[:3000])
        if f[0] == "err" and "\t" in out:
            rec = parse_err_record(out.split("\t", 1)[1].strip())
            print(rec["how"], rec["panic"] or "")
            for e in rec["errors"]:
                print("   ", e.brief(), "valid-slice:", e.inb, e.sb, e.eb, "format-panics:", e.fmtmask, e.fmtmsg)
    print("what:", d.get("what"))
    return 0
