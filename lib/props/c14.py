"""C14 — errors point at the right template line; reported ranges are valid slices (DESIGN.md §3 C14)."""
import json, os, re, collections

READY = True

META = {
    "technique": "Lean 4 proof (lexer line/column/offset bookkeeping, span widening, code generator line/span-stack machine, "
                 "instruction line/span side tables, debug-render arithmetic, source ties decided on tables regenerated from /repo) "
                 "+ differential correspondence of the model against the real tokenizer, parser spans, CodeGenerator, Instructions "
                 "tables and located errors of planted failures under vertical/horizontal shifts and environment configurations",
    "category": "proof",
    "text": "Kernel-checked theorems about an executable model of Tokenizer::{advance,loc,span,syntax_error}, "
            "TokenStream::expand_span, CodeGenerator::{set_line,push_span,pop_span,add,add_with_span}, "
            "Instructions::{add_with_line,add_with_span,get_line,get_span}, process_err and the arithmetic of render_debug_info: "
            "the line is 1 + number of consumed newlines (saturating at 65535), the offset is the UTF-8 length of the consumed "
            "prefix, every span the tokenizer can create (for every possible sequence of advance/loc/span/syntax_error calls) is "
            "an in-bounds char-boundary slice whose line/column are those of its offsets, a prefix of N lines shifts every span by "
            "exactly N lines and nothing else, text inserted in a line shifts only the columns of that line, an instruction added "
            "after a balanced push/pop script gets the statement's line and no foreign span, the side tables return the recorded "
            "line/span for every add sequence, the debug renderer's arithmetic never panics; and, decided on a table regenerated "
            "from vm/mod.rs, every fallible expression of every instruction arm of the interpreter leaves through process_err. "
            "Tied to /repo by running the model against the real tokenizer (all token spans), all AST spans, the real "
            "CodeGenerator and Instructions (exhaustive small scripts + compiled templates) and by evaluating the property itself "
            "(name, line inside source, range valid slice, shift invariance, some error on the failing construct, formatting never "
            "panics) on the located error chains of ~2500 failing templates: one construct per fallible interpreter row x contexts, "
            "span-less code generator sites x span-stack contexts x sub-expression kinds, failing prints in every construct, syntax "
            "errors at every token position, under 7x4 shifts and 14 environment configurations / entry points.",
    "design_ref": "DESIGN.md §3 C14",
    "level_note": "Trusted: Lean kernel; hand transcription of the listed Rust functions into MJ/Model/Loc.lean (validated by the "
                  "correspondence streams lex/ast/cg/tbl/ins); lib/tables/c14.py (regular-expression extraction of the interpreter "
                  "rows, CodeGenerator::add sites and integer widths); std's binary_search_by_key is modelled by its contract on "
                  "sorted slices (sortedness of the tables is proved). Only validated, not proved: that the tokenizer's rules, the "
                  "parser and the statement compilers call the location primitives with the span of the construct at hand (checked "
                  "by the shift / right-line oracle, the per-statement line-range check and the model predicting line, caret "
                  "column/width and window from the reported offsets on every planted failure).",
}

CFG_NAMES = {"d": "default (debug on)", "x": "debug off", "p": "pass-through custom formatter", "n": "failing custom formatter",
             "a": "custom auto-escape format", "k": "keep_trailing_newline", "t": "trim_blocks+lstrip_blocks",
             "c": "custom delimiters", "s": "strict undefined", "m": "semi-strict undefined", "h": "chainable undefined",
             "r": "recursion limit 1", "w": "render_captured_to a writer", "l": "loader-backed, lazily compiled templates"}

# Every instruction that the code generator emits through `CodeGenerator::add` (location = current line /
# innermost span) AND that can fail in the VM (tables C14_CODEGEN_ADDS, C14_VM_FALLIBLE, regenerated from the
# sources on every run).  "own": the generator pushes the construct's own span around the add;
# "planted": failing cases with these id prefixes must exist and fail in the run; "benign": cannot produce
# a template error that needs a location.
SPANLESS_CLASS = {
    "Add": ("benign", "only the integer counter of a filtered for loop is added through `add`; binary + sits under its own span"),
    "ApplyFilter": ("own", "Filter expression span"), "PerformTest": ("own", "Test expression span"),
    "CallFunction": ("own", "Call span"), "CallMethod": ("own", "Call span"), "CallObject": ("own", "Call span"),
    "MergeKwargs": ("own", "Call / Filter span"), "UnpackLists": ("own", "Call / Filter span"),
    "CompareAndPreserve": ("own", "Compare span"), "Eq": ("own", "Compare span"), "Ne": ("own", "Compare span"),
    "Lt": ("own", "Compare span"), "Lte": ("own", "Compare span"), "Gt": ("own", "Compare span"),
    "Gte": ("own", "Compare span"), "In": ("own", "Compare span"), "JumpIfFalseOrPop": ("own", "Compare span"),
    "GetAttr": ("own", "GetAttr span"), "GetItem": ("own", "GetItem span"), "Slice": ("own", "Slice span"),
    "SetAttr": ("own", "attribute target span"), "UnpackList": ("own", "list target span"),
    "PushLoop": ("own", "iterable / filter expression span"), "Iterate": ("own", "iterable / filter expression span"),
    "CallBlock": ("planted", ["block_body", "child_block", "print_none_block_", "sl_autoescape_block_", "sl_autoescape_child_block_"]),
    "Emit": ("planted", ["sl_filter_emit_", "sl_callblock_emit_", "print_none_", "print_undef_"]),
    "JumpIfFalse": ("planted", ["sl_ifexpr_jump_", "strict_if"]),
    "Not": ("planted", ["sl_not_op_"]),
    "PushAutoEscape": ("planted", ["sl_autoescape_", "autoescape_bad"]),
    "PushWith": ("planted", ["sl_with_push_", "sl_import_push_", "sl_from_import_push_"]),
    "EmitRaw": ("benign", "only a write failure of the output (C19)"),
    "GetClosure": ("benign", "fails only on an internal invariant"), "Lookup": ("benign", "lookups do not fail"),
}

# Table C14_VM_ROWS (regenerated from vm/mod.rs): every fallible expression of an instruction arm.  For each
# row the planted cases (id prefixes) that make exactly that expression fail; ("structure", why) for rows that
# describe the helper macros; ("allowed", why) for rows that legitimately leave without location.
def _cap(op):
    return {f"CompareAndPreserve|{op}|ctx_ok|undefined_behavior.assert_value_not_undefined": [f"row_cap_{op.lower()}_a__"],
            f"CompareAndPreserve|{op}|ctx_ok|undefined_behavior.assert_value_not_undefined#2": [f"row_cap_{op.lower()}_b__"]}


ROW_CASES = {
    "macro:recurse_loop||bail|Error::new": ["row_fn_loop_recurse__", "row_fastrecurse_nonrecursive__"],
    "macro:recurse_loop||bail|Error::new#2": ["row_recurse_other_block"],
    "macro:recurse_loop||bail|Error::new#3": ["row_recurse_inactive"],
    "macro:func_binop||ctx_ok|ops::$method": ("structure", "func_binop! expands to ctx_ok!"),
    "macro:op_binop||ctx_ok|undefined_behavior.assert_value_not_undefined": ("structure", "op_binop! expands to ctx_ok!"),
    "macro:op_binop||ctx_ok|undefined_behavior.assert_value_not_undefined#2": ("structure", "op_binop! expands to ctx_ok!"),
    "macro:bail||return_err|err": ("structure", "bail! returns after process_err"),
    "macro:bail||calls|process_err": ("structure", "bail! calls process_err"),
    "macro:ctx_ok||bail|err": ("structure", "ctx_ok! bails"),
    "macro:assert_valid||bail|err": ("structure", "assert_valid! bails"),
    "pre||ctx_ok|tracker.track": ["out_of_fuel"],
    "EmitRaw||ok|out.write_str": ("allowed", "write failure of the output sink (C19)"),
    "Emit||bail|Error::from": ["row_emit_undef__", "strict_print"],
    "Emit||ctx_ok|write_escaped": ["print_none_top"],
    "Emit||ctx_ok|state.env.format": ["print_none_top", "print_undef_top"],
    "Lookup||assert_valid|state.lookup": ["row_lookup_invalid__"],
    "GetAttr||assert_valid|value": ["row_getattr_invalid__"],
    "GetAttr||ctx_ok|undefined_behavior.handle_undefined": ["row_getattr_undef__"],
    "SetAttr||bail|Error::new": ["row_setattr_bad__"],
    "GetItem||assert_valid|value": ["row_getitem_invalid__"],
    "GetItem||ctx_ok|undefined_behavior.handle_undefined": ["row_getitem_undef__"],
    "Slice||bail|Error::from": ["row_slice_undef__"],
    "Slice||ctx_ok|ops::slice": ["row_slice_zero__"],
    "MergeKwargs||ctx_ok|Self::merge_kwargs": ["row_mergekwargs__"],
    "UnpackList||ctx_ok|Self::unpack_list": ["row_unpacklist__", "row_unpacklist_arity__"],
    "UnpackLists||ctx_ok|list.try_iter": ["row_unpacklists__"],
    "Add||func_binop|add": ["row_add__"], "Sub||func_binop|sub": ["row_sub__"],
    "Mul||func_binop|mul": ["row_mul__", "row_mul_overflow__"], "Div||func_binop|div": ["row_div__"],
    "IntDiv||func_binop|int_div": ["row_intdiv_zero__"], "Rem||func_binop|rem": ["row_rem_zero__"],
    "Pow||func_binop|pow": ["row_pow__"],
    "Eq||op_binop|==": ["row_eq_undef__"], "Ne||op_binop|!=": ["row_ne_undef__"], "Gt||op_binop|>": ["row_gt_undef__"],
    "Gte||op_binop|>=": ["row_gte_undef__"], "Lt||op_binop|<": ["row_lt_undef__"], "Lte||op_binop|<=": ["row_lte_undef__"],
    "Not||ctx_ok|undefined_behavior.is_true": ["row_not_undef__"],
    "StringConcat||ctx_ok|undefined_behavior.assert_value_not_undefined": ["row_concat_left__"],
    "StringConcat||ctx_ok|undefined_behavior.assert_value_not_undefined#2": ["row_concat_right__"],
    "In||ctx_ok|state.undefined_behavior.assert_iterable": ["row_in_iterable__"],
    "In||ctx_ok|state.undefined_behavior.assert_value_not_undefined": ["row_in_undef__"],
    "In||ctx_ok|ops::contains": ["row_in_contains__", "row_notin_contains__"],
    "CompareAndPreserve|In|NotIn|ctx_ok|undefined_behavior.assert_iterable": ["row_cap_in_iterable__"],
    "CompareAndPreserve|In|NotIn|ctx_ok|undefined_behavior.assert_value_not_undefined": ["row_cap_in_undef__"],
    "CompareAndPreserve|In|NotIn|ctx_ok|ops::contains": ["row_cap_in_contains__", "row_cap_notin_contains__", "row_cap_in_contains_mid__"],
    "Neg||ctx_ok|ops::neg": ["row_neg__"],
    "PushWith||ctx_ok|state.ctx.push_frame": ["sl_with_push_", "sl_import_push_"],
    "PushLoop||ctx_ok|Self::push_loop": ["row_pushloop__"],
    "Iterate||assert_valid|item": ["row_iterate_invalid__"],
    "JumpIfFalse||ctx_ok|undefined_behavior.is_true": ["row_jump_if_false__"],
    "JumpIfFalseOrPop||ctx_ok|undefined_behavior.is_true": ["row_jump_if_false_or_pop__"],
    "JumpIfTrueOrPop||ctx_ok|undefined_behavior.is_true": ["row_jump_if_true_or_pop__"],
    "PushAutoEscape||ctx_ok|Self::derive_auto_escape": ["row_autoescape__"],
    "ApplyFilter||ctx_ok|get_or_lookup_local": ["row_filter_unknown__"],
    "ApplyFilter||ctx_ok|filter.call": ["row_filter_fails__"],
    "PerformTest||ctx_ok|get_or_lookup_local": ["row_test_unknown__"],
    "PerformTest||ctx_ok|test.call": ["row_test_fails__"],
    "CallFunction||bail|Error::new": ["row_super_args"],
    "CallFunction||ctx_ok|Self::perform_super": ["row_super_call_no_parent", "row_super_call_err"],
    "CallFunction||bail|Error::new#2": ["row_fn_loop_args__"],
    "CallFunction||recurse_loop|true": ["row_fn_loop_recurse__"],
    "CallFunction||ctx_ok|func.call": ["row_fn_fails__", "row_fn_not_callable__"],
    "CallFunction||bail|Error::new#3": ["row_fn_unknown__"],
    "ApplyFilter||ctx_ok|*": ["row_filter_unknown__", "row_filter_fails__"],
    "PerformTest||ctx_ok|*": ["row_test_unknown__", "row_test_fails__"],
    "CallFunction||ctx_ok|*": ["row_fn_fails__", "row_fn_not_callable__", "row_super_call_no_parent"],
    "CallMethod||ctx_ok|*": ["row_method_unknown__"],
    "CallObject||ctx_ok|*": ["row_callobject__"],
    "CallMethod||ctx_ok|args[0].call_method": ["row_method_unknown__"],
    "CallObject||ctx_ok|args[0].call": ["row_callobject__"],
    "FastSuper||ctx_ok|*": ["super_no_parent", "super_err"],
    "FastRecurse||recurse_loop|false": ["row_fastrecurse_nonrecursive__"],
    "FastRecurse||bail|Error::new": ["row_fastrecurse_unknown"],
    "LoadBlocks||bail|Error::new": ["extends_twice"],
    "LoadBlocks||ctx_ok|Self::load_blocks": ["extends_missing", "extends_bad_type", "lazy_extends_syntax"],
    "Include||ctx_ok|*": ["row_include_nonstring__", "row_include_missing__", "row_import_nonstring__"],
    "CallBlock||ctx_ok|*": ["row_required_block", "block_body"],
}
for _op in ("Eq", "Ne", "Lt", "Lte", "Gt", "Gte"):
    ROW_CASES.update(_cap(_op))

# what the innermost error of a row site has to say (so that the construct really hits the intended row)
SITE_DETAIL = {
    "lookup_invalid": "refuses to serialize", "getattr_invalid": "refuses to serialize", "getitem_invalid": "refuses to serialize",
    "iterate_invalid": "refuses to serialize", "setattr_bad": "can only assign to namespaces",
    "slice_zero": "step size of 0", "mergekwargs": "", "unpacklist": "not iterable", "unpacklist_arity": "wrong length",
    "in_contains": "containment check", "notin_contains": "containment check", "cap_in_contains": "containment check",
    "cap_notin_contains": "containment check", "cap_in_contains_mid": "containment check",
    "autoescape": "invalid value to autoescape tag", "filter_unknown": "filter bogus is unknown", "filter_fails": "boom filter",
    "test_unknown": "test bogus is unknown", "test_fails": "boom test", "fn_loop_args": "loop() takes one argument",
    "fn_loop_recurse": "cannot recurse outside of recursive loop", "fastrecurse_nonrecursive": "cannot recurse outside of recursive loop",
    "fn_fails": "boom", "fn_unknown": "bogus is unknown", "fn_not_callable": "not callable", "method_unknown": "no method named bogus",
    "callobject": "not callable", "include_nonstring": "template name was not a string", "import_nonstring": "template name was not a string",
    "include_missing": "non-existing template", "pushloop": "not iterable", "neg": "", "intdiv_zero": "unable to calculate",
    "rem_zero": "unable to calculate", "div_zero": "unable to calculate",
}

# an empty / whitespace-only expression: the error is reported at the very start, whatever is inserted
UNANCHORED = {"expr_empty", "expr_ws_only"}

V_N = {0: 0, 1: 1, 2: 2, 3: 7, 4: 300, 5: None, 6: 70000}   # 5: fill up to exactly 65535 lines, 6: beyond the quantifier


def unhexs(h):
    return "" if h == "-" else bytes.fromhex(h).decode("utf-8", "replace")


class Err:
    __slots__ = "name line kind detail rs re srclen nlines inb sb eb tsok fmtmask fmtmsg caret win".split()

    def __init__(self, txt):
        f = txt.split(",")
        self.name = None if f[0] == "-" else unhexs(f[0])
        self.line = None if f[1] == "-" else int(f[1])
        self.kind = f[2]
        self.detail = None if f[3] == "-" else unhexs(f[3])
        self.rs = None if f[4] == "-" else int(f[4])
        self.re = None if f[5] == "-" else int(f[5])
        self.srclen = None if f[6] == "-" else int(f[6])
        self.nlines = None if f[7] == "-" else int(f[7])
        self.inb, self.sb, self.eb, self.tsok = f[8], f[9], f[10], f[11]
        self.fmtmask = int(f[12])
        self.fmtmsg = unhexs(f[13]) if f[13] else ""
        self.caret = f[14]
        self.win = f[15]

    def brief(self):
        return f"{self.name}:{self.line} {self.kind} {self.detail!r} range={self.rs}..{self.re} caret={self.caret}"


def parse_err_record(res):
    head, how_body = res.split("|", 1)
    how, rest = how_body.split("|", 1)
    body, specs = rest.rsplit("|", 1)
    pv, ph, vline, n, vbytes, hbytes, shifted, mline, mext, free, pe = head[1:].split(",")
    d = {"pv": int(pv), "ph": int(ph), "vline": int(vline), "n": int(n), "vbytes": int(vbytes), "hbytes": int(hbytes),
         "shifted": unhexs(shifted), "mline": int(mline), "mext": int(mext), "free": free == "1", "pe": int(pe),
         "how": how, "errors": [], "specs": {}, "panic": None}
    if how == "panic":
        d["panic"] = unhexs(body)
    elif body:
        d["errors"] = [Err(x) for x in body.split(";")]
    for s in specs.split(";"):
        if s:
            k, v = s.split("=", 1)
            d["specs"][unhexs(k)] = v
    return d


def panic_site(msg):
    m = re.search(r"(src/[\w/]+\.rs:\d+)", msg)
    return "panic:" + (msg[:80] if not m else m.group(1) + ":" + msg[:60])


def py_tbl_spec(ops, n):
    """independent statement of what the side tables must answer"""
    out = []
    for pc in range(n):
        line, span = None, None
        for op in ops[:pc + 1]:
            if op == "a":
                continue
            if op[0] == "l":
                line, span = int(op[1:]), None
            else:
                sp = [int(x) for x in op[1:].split(".")]
                line, span = sp[0], (sp if any(sp) else None)
        out.append(("-" if line is None else str(line)) + "/" + ("-" if span is None else ":".join(map(str, span))))
    return ",".join(out)


class Queries:
    """batch of `q` requests to the Lean driver, answered in one run"""

    def __init__(self):
        self.lines, self.keys = [], {}

    def add(self, keep, spec, offs=(), serrs=(), wins=()):
        offs = sorted(set(offs)); serrs = list(dict.fromkeys(serrs)); wins = list(dict.fromkeys(wins))
        key = (keep, spec, tuple(offs), tuple(serrs), tuple(wins))
        if key not in self.keys:
            self.keys[key] = len(self.lines)
            self.lines.append("q %d %s %s %s %s" % (keep, spec, ",".join(map(str, offs)) or "-", ",".join(map(str, serrs)) or "-",
                                                    ",".join("x" if w is None else str(w) for w in wins) or "-"))
        return key

    def add_raw(self, line):
        key = ("raw", line)
        if key not in self.keys:
            self.keys[key] = len(self.lines)
            self.lines.append(line)
        return key

    def run(self, r):
        if not self.lines:
            self.out = []
            return True
        out = r.driver("drive_c14", "\n".join(self.lines) + "\n")
        if out is None or len(out) != len(self.lines):
            r.broken.append("model driver output does not line up with the requests")
            self.out = None
            return False
        self.out = out
        return True

    def raw(self, key):
        return self.out[self.keys[key]]

    def get(self, key):
        """-> (pos: {off: (line, col) | None}, serr: {off: span-tuple | None}, win: {line: str})"""
        a, b, c = self.out[self.keys[key]].split("|")
        _, _, offs, serrs, wins = key
        pos = {}
        for o, x in zip(offs, a.split(",") if a else []):
            pos[o] = None if x == "X" else tuple(int(v) for v in x.split(":"))
        se = {}
        for o, x in zip(serrs, b.split(";") if b else []):
            se[o] = None if x == "panic" else tuple(int(v) for v in x.split(":"))
        wi = dict(zip(wins, c.split(";") if c else []))
        return pos, se, wi


def model_caret(span):
    sl, sc, so, el, ec, eo = span
    if sl != el:
        return "-"
    return "c%dw%d" % (sc, max(0, ec - sc))


def evaluate(r, text, tables=None):
    tables = tables or {}
    fallible = set(tables.get("C14_VM_FALLIBLE") or [])
    q = Queries()
    err_recs = collections.OrderedDict()   # id -> {(vi,hi): rec}
    classes = {}
    pending = []   # closures evaluated once the driver answered
    streams = collections.Counter()

    for line in text.splitlines():
        case, res = line.split("\t", 1)
        f = case.split(" ")
        streams[f[0]] += 1
        if f[0] == "err":
            cid, cls, cfg, vi, hi = f[1], f[2], f[3], int(f[4]), int(f[5])
            classes[(cid, cfg)] = cls
            err_recs.setdefault((cid, cfg), {})[(vi, hi)] = (case, parse_err_record(res))
        elif f[0] == "lex":
            do_lex(r, q, pending, case, f[1], f[2], res)
        elif f[0] == "ast":
            do_ast(r, q, pending, case, f[1], res)
        elif f[0] == "ins":
            do_ins(r, q, pending, case, f[3], res)
        elif f[0] == "tbl":
            do_tbl(r, q, pending, case, f[1], res)
        elif f[0] == "cg":
            do_cg(r, q, pending, case, f[1], res)
        elif f[0] == "stm":
            do_stm(r, case, res, fallible)
    for s in ("err", "lex", "ast", "ins", "tbl", "cg", "stm"):
        if streams[s] == 0:
            r.broken.append(f"harness produced no `{s}` cases")

    failing_ids = do_err(r, q, pending, err_recs, classes)
    check_spanless_table(r, tables, failing_ids)
    check_vm_rows(r, tables, failing_ids, err_recs)
    check_inner_layout(r, failing_ids)
    if not q.run(r):
        return
    for fn in pending:
        fn()
    r.extra["streams"] = dict(streams)
    r.extra["driver_requests"] = len(q.lines)


# ---------------------------------------------------------------------------------------------- err stream
def check_error_static(r, case, e, depth, rec, in_quantifier):
    """the per-error predicates of the property"""
    k = e.kind
    where = f"{k}:{(e.detail or '')[:40]}"
    if e.fmtmask:
        r.oracle_failure(case, f"formatting the error panics (mask {e.fmtmask:05b}): {e.fmtmsg}", "format-" + panic_site(e.fmtmsg))
    if e.name is None:
        r.oracle_failure(case, f"error #{depth} has no template name: {e.brief()}", "no-name:" + where)
        return
    if e.name not in rec["specs"]:
        r.oracle_failure(case, f"error #{depth} names {e.name!r} which is not a template of the case: {e.brief()}", "bad-name:" + where)
        return
    if e.line is None:
        r.oracle_failure(case, f"error #{depth} has no line: {e.brief()}", "no-line:" + where)
    elif e.nlines is not None and not (1 <= e.line <= e.nlines):
        r.oracle_failure(case, f"error #{depth} line {e.line} outside the source (1..{e.nlines}): {e.brief()}", "line-outside:" + where)
    if e.tsok == "0":
        r.oracle_failure(case, f"error #{depth}: template_source() is not the source of the named template {e.name!r}", "wrong-source:" + where)
    if e.rs is not None:
        if e.inb != "1":
            r.oracle_failure(case, f"error #{depth}: range {e.rs}..{e.re} out of bounds of the source (len {e.srclen}): {e.brief()}", "range-out-of-bounds:" + where)
        elif e.sb != "1" or e.eb != "1":
            r.oracle_failure(case, f"error #{depth}: range {e.rs}..{e.re} not on char boundaries (start ok={e.sb}, end ok={e.eb}): {e.brief()}", "range-not-char-boundary:" + where)


def inner_zone(rec):
    """inner cases (white space inserted inside a tag): where the insertion is relative to the failing operation"""
    if rec["pe"] < 0:
        return None
    if rec["pv"] <= rec["ph"]:
        return "before"
    if rec["pv"] >= rec["pe"]:
        return "after"
    return "inside"


def expected_shift(b, rec, vi):
    """what the baseline error `b` must look like in the shifted template"""
    pv, ph, n, vb, hb = rec["pv"], rec["ph"], rec["n"], rec["vbytes"], rec["hbytes"]
    zone = inner_zone(rec)
    if zone in ("before", "after"):
        # line by the position of the insertion relative to the failing operation; the range (when the error
        # carries one: `CodeGenerator::add` drops it as soon as the span starts on another line than the
        # instruction) by the generic offset rule
        line = None if b.line is None else b.line + (n if zone == "before" else 0)
        if b.rs is None:
            return line, None, None
        return line, b.rs + (vb if b.rs >= pv else 0), b.re + (vb if b.re > pv else 0)
    if b.rs is not None:
        rs = b.rs + (vb if b.rs >= pv else 0) + (hb if b.rs >= ph else 0)
        re_ = b.re + (vb if b.re > pv else 0) + (hb if b.re > ph else 0)
        line = None if b.line is None else b.line + (n if b.rs >= pv else 0)
    else:
        rs = re_ = None
        line = None if b.line is None else b.line + (n if b.line >= rec["vline"] else 0)
    return line, rs, re_


def do_err(r, q, pending, err_recs, classes):
    fixed_total = fixed_fail = 0
    failing_ids = set()
    print_fail = collections.Counter()
    for (cid, cfg), variants in err_recs.items():
        cls = classes[(cid, cfg)]
        base = variants.get((0, 0))
        if base is None:
            r.broken.append(f"case {cid} (configuration {cfg}) has no unshifted baseline")
            continue
        bcase, brec = base
        counted = cls != "planted" and cfg == "d" and not cid.startswith("print_none_")
        if counted:
            fixed_total += 1
        if brec["how"] == "noerror":
            for (vi, hi), (case, rec) in variants.items():
                r.count(case, False)
                if rec["how"] != "noerror":
                    r.oracle_failure(case, f"template renders unshifted but fails when shifted: {rec['how']} "
                                     + "; ".join(e.brief() for e in rec["errors"]), "shift-creates-failure")
            r.hist["err_outcome"]["valid (planting produced no error)"] += 1
            continue
        if counted:
            fixed_fail += 1
        failing_ids.add(cid)
        if cid.startswith("print_") and cfg in ("p", "n", "a"):
            print_fail[cfg] += 1
        for (vi, hi), (case, rec) in variants.items():
            in_q = vi != 6 or rec["pe"] >= 0
            r.count(case, True)
            r.hist["err_class"][cls] += 1
            r.hist["err_config"][CFG_NAMES.get(cfg, cfg)] += 1
            r.hist["v_shift"][("inner: %d line breaks" % rec["n"]) if rec["pe"] >= 0 else (str(V_N[vi]) if V_N[vi] is not None else "to 65535 lines")] += 1
            r.hist["h_shift"][["0", "1 col", "3 cols multi-byte", "65540 cols"][hi]] += 1
            if rec["panic"] is not None:
                r.oracle_failure(case, "loading/rendering panics: " + rec["panic"], panic_site(rec["panic"]))
                continue
            if rec["how"] == "noerror":
                r.oracle_failure(case, "template fails unshifted but not when shifted", "shift-removes-failure")
                continue
            for d, e in enumerate(rec["errors"]):
                r.hist["err_kind"][e.kind] += 1
                r.hist["located"]["range" if e.rs is not None else ("line only" if e.line is not None else "none")] += 1
                check_error_static(r, case, e, d, rec, in_q)
            # --- the right line: some error of the chain points into the marked failing construct
            if cls != "planted" and not rec["free"] and in_q and (cfg != "r" or cid.startswith("sl_")) and cid not in UNANCHORED:
                zone = inner_zone(rec)
                if zone is None:
                    lo = rec["mline"] + rec["n"]
                    hi_ = lo + rec["mext"]
                else:
                    lo = rec["mline"] + (rec["n"] if zone == "before" else 0)
                    hi_ = rec["mline"] + rec["mext"] + (rec["n"] if zone != "after" else 0)
                mine = [e for e in rec["errors"] if e.name == rec["shifted"] and e.line is not None]
                if mine and not any(lo <= e.line <= hi_ for e in mine):
                    r.oracle_failure(case, f"no error of the chain points at the failing construct on line(s) {lo}..{hi_}: "
                                     + "; ".join(e.brief() for e in rec["errors"]), f"wrong-line:{mine[-1].kind}:{(mine[-1].detail or '')[:40]}")
            # --- shift invariance against the baseline
            be, se = brec["errors"], rec["errors"]
            if cid in UNANCHORED:
                pass    # nothing in the source the error could be anchored to: only the static predicates apply
            elif rec["how"] != brec["how"] or len(be) != len(se):
                r.oracle_failure(case, f"shift changes the error chain: {brec['how']} {[x.brief() for x in be]} -> {rec['how']} {[x.brief() for x in se]}",
                                 "shift-changes-chain")
            else:
                for d, (b, s) in enumerate(zip(be, se)):
                    if (b.name, b.kind, b.detail) != (s.name, s.kind, s.detail):
                        r.oracle_failure(case, f"shift changes error #{d}: {b.brief()} -> {s.brief()}", f"shift-changes-error:{b.kind}")
                        continue
                    if b.name == rec["shifted"] and inner_zone(rec) == "inside":
                        # white space inside the failing operation: a different template as far as this
                        # operation is concerned; the right-line check above bounds the line
                        r.hist["inner_zone"]["inside"] += 1
                        continue
                    if b.name == rec["shifted"]:
                        line, rs, re_ = expected_shift(b, rec, vi)
                        if inner_zone(rec):
                            r.hist["inner_zone"][inner_zone(rec)] += 1
                    else:
                        line, rs, re_ = b.line, b.rs, b.re
                    if in_q and s.line != line:
                        r.oracle_failure(case, f"error #{d}: line {b.line} unshifted, {s.line} after inserting {rec['n']} lines (expected {line}): {s.brief()}",
                                         f"line-shift:{b.kind}:{(b.detail or '')[:40]}")
                    if not in_q and (b.rs is None) != (s.rs is None):
                        continue   # beyond 65535 lines saturated lines coincide: a line-only error may gain a span
                    if rec["pe"] >= 0 and (b.rs is None) != (s.rs is None):
                        r.hist["inner_zone"]["range present only on one side"] += 1
                        continue   # white space inside the tag: the span may start on another line than the instruction
                    if (s.rs, s.re) != (rs, re_):
                        r.oracle_failure(case, f"error #{d}: range {b.rs}..{b.re} unshifted, {s.rs}..{s.re} shifted (expected {rs}..{re_}; "
                                         f"v insert {rec['vbytes']}B at {rec['pv']}, h insert {rec['hbytes']}B at {rec['ph']})",
                                         f"range-shift:{b.kind}:{(b.detail or '')[:40]}")
            # --- model predictions for every error with a range / a debug window
            for d, e in enumerate(rec["errors"]):
                if e.name is None or e.name not in rec["specs"]:
                    continue
                spec = rec["specs"][e.name]
                offs, serrs, wins = [], [], []
                if e.rs is not None and e.inb == "1":
                    offs = [e.rs, e.re]
                    if e.kind == "SyntaxError":
                        serrs = [e.rs]
                if e.win not in ("n", "p"):
                    wins = [e.line]
                if not offs and not wins:
                    continue
                key = q.add(1 if cfg == "k" else 0, spec, offs, serrs, wins)
                pending.append(lambda key=key, e=e, case=case, d=d: err_model_check(r, q, key, e, case, d))
            if (vi, hi) in ((0, 0), (5, 3)) and len(r.samples) < 10 and cfg in ("d", "n") and cid in ("include_inner_err", "syn_unexpected_char_mb", "print_none_macro_imported", "plant_1_7_tag"):
                r.sample({"case": case, "errors": [e.brief() for e in rec["errors"]]})
    r.extra["failing_print_cases_by_formatter_config"] = dict(print_fail)
    if err_recs and (print_fail["n"] < 40 or print_fail["p"] < 20 or print_fail["a"] < 40):
        r.broken.append(f"too few failing prints through the custom formatter / custom auto-escape paths: {dict(print_fail)}")
    r.extra["fixed_site_cases"] = fixed_total
    r.extra["fixed_site_cases_failing"] = fixed_fail
    if fixed_total and fixed_fail * 10 < fixed_total * 9:
        r.broken.append(f"only {fixed_fail}/{fixed_total} fixed-site cases still produce an error: the case list no longer matches /repo")
    return failing_ids


def check_vm_rows(r, tables, failing_ids, err_recs):
    """every fallible row of the interpreter has a planted construct that fails there, in several contexts"""
    rows = tables.get("C14_VM_ROWS")
    if not rows:
        return
    cov = {}
    for row in rows:
        key = "|".join(row)
        cl = ROW_CASES.get(key) or ROW_CASES.get("|".join(row[:3]) + "|*")   # `*`: the call is wrapped by instrumentation
        if cl is None:
            r.broken.append(f"eval_impl row {key} (a fallible expression of the interpreter loop) has no planted failing construct in C14")
            continue
        if isinstance(cl, tuple):
            cov[key] = cl[0] + ": " + cl[1]
            continue
        hit = sorted(i for i in failing_ids if any(i.startswith(p) for p in cl))
        if not hit:
            r.broken.append(f"no planted case {cl} fails for eval_impl row {key}")
        ctxs = sorted({i.split("__", 1)[1] for i in hit if "__" in i})
        cov[key] = {"failing_cases": len(hit), "contexts": ctxs or ["(fixed site)"]}
    r.extra["vm_row_coverage"] = cov
    r.extra["vm_rows"] = len(rows)
    # the row sites hit the row they are meant for
    for (cid, cfg), variants in err_recs.items():
        if cfg != "d" or not (cid.startswith("row_") and cid.endswith("__top")):
            continue
        site = cid[4:].split("__", 1)[0]
        want = SITE_DETAIL.get(site)
        base = variants.get((0, 0))
        if not want or base is None or not base[1]["errors"]:
            continue
        inner = base[1]["errors"][-1]
        if want not in (inner.detail or ""):
            r.broken.append(f"row site {cid} fails with {inner.kind} {inner.detail!r}, not with the intended `{want}`")


# instructions that are added with the current line only (plain `add` at statement level / fast paths):
# each needs failing cases in the "line break after the opening delimiter" layout (inner cases, slot 0)
INNER_REQUIRED = {
    "CallBlock": ["inn_self_block_unknown_0", "inn_self_block_required_0", "inn_block_required_0"],
    "FastSuper": ["inn_super_fast_0"], "FastRecurse": ["inn_loop_fast_0"],
    "Include": ["inn_include_nonstring_0", "inn_import_nonstring_0", "inn_from_import_missing_0"],
    "LoadBlocks": ["inn_extends_nonstring_0", "inn_extends_missing_0"],
    "PushAutoEscape": ["inn_autoescape_0"], "PushLoop": ["inn_for_noniterable_0"], "UnpackList": ["inn_set_unpack_0"],
    "JumpIfFalse": ["inn_if_strict_0"], "CallFunction": ["inn_call_0", "inn_super_in_expr_0", "inn_loop_in_expr_0"],
    "ApplyFilter": ["inn_filter_0", "inn_filter_block_0"], "PerformTest": ["inn_test_0"], "CallMethod": ["inn_method_0"],
    "Add": ["inn_add_0", "inn_with_expr_0"], "In": ["inn_in_0"], "CompareAndPreserve": ["inn_compare_chain_0"],
}


def check_inner_layout(r, failing_ids):
    missing = [(k, c) for k, cs in INNER_REQUIRED.items() for c in cs if c not in failing_ids]
    for k, c in missing:
        r.broken.append(f"no failing case in the line-break-after-the-opening-delimiter layout for Instruction::{k} ({c})")
    r.extra["inner_layout_sites"] = {k: len(v) for k, v in INNER_REQUIRED.items()}


def check_spanless_table(r, tables, failing_ids):
    """every fallible instruction emitted through CodeGenerator::add is classified, and the planted ones fail"""
    adds, fall = tables.get("C14_CODEGEN_ADDS"), tables.get("C14_VM_FALLIBLE")
    if not adds or not fall:
        return   # missing items are reported by regen_tables
    sites = sorted(set(adds) & set(fall))
    r.extra["spanless_fallible_sites"] = {}
    for name in sites:
        cl = SPANLESS_CLASS.get(name)
        if cl is None:
            r.broken.append(f"`CodeGenerator::add(Instruction::{name})` is a fallible instruction without explicit span that C14 has "
                            "neither classified nor planted a failing case for")
            continue
        r.extra["spanless_fallible_sites"][name] = cl[0]
        if cl[0] == "planted":
            for prefix in cl[1]:
                if not any(i.startswith(prefix) for i in failing_ids):
                    r.broken.append(f"no failing planted case `{prefix}*` for the span-less site Instruction::{name}")


# ---------------------------------------------------------------------------------------------- cg / stm streams
def do_cg(r, q, pending, case, ops, res):
    opl = [] if ops == "-" else ops.split(",")
    r.count(case, any(o in ("a",) or o[0] == "s" for o in opl))
    r.hist["cg_len"][str(min(len(opl), 10)) + ("+" if len(opl) >= 10 else "")] += 1
    if res.startswith("panic|"):
        r.oracle_failure(case, "code generator panics: " + unhexs(res[6:]), panic_site(unhexs(res[6:])))
        return
    key = q.add_raw("cg " + ops)

    def check():
        m = q.raw(key)
        if m != res:
            r.model_disagreement(case, res, m)
    pending.append(check)


def do_stm(r, case, res, fallible):
    how, body = res.split("|", 1)
    if how == "panic":
        r.count(case, True)
        r.oracle_failure(case, "compiling panics: " + unhexs(body), panic_site(unhexs(body)))
        return
    if how != "ok" or not body:
        r.count(case, False)
        return
    r.count(case, True)
    for part in body.split("|"):
        head, _, instrs = part.partition("=")
        kind, _, span = head.partition("@")
        if span == "-" or not instrs:
            continue
        sl, sc, so, el, ec, eo = (int(v) for v in span.split(":"))
        for pc, ent in enumerate(instrs.split(";")):
            name, line, isp = ent.split("/")
            r.hist["stm_instr"]["fallible" if name in fallible else "infallible"] += 1
            if name not in fallible:
                continue    # cannot raise: its location is never reported
            if line == "-" or not (sl <= int(line) <= el):
                r.oracle_failure(case, f"{kind} statement on lines {sl}..{el}: its instruction #{pc} {name} carries line {line} "
                                 f"(span {isp}): an error raised there is reported outside the statement",
                                 f"stm-line-outside:{kind}:{name}")
            elif isp != "-":
                sp = [int(v) for v in isp.split(":")]
                if not (so <= sp[2] and sp[5] <= eo):
                    r.oracle_failure(case, f"{kind} statement at bytes {so}..{eo}: its instruction #{pc} {name} carries the span "
                                     f"{isp} of a different construct", f"stm-span-outside:{kind}:{name}")


def err_model_check(r, q, key, e, case, d):
    pos, se, wi = q.get(key)
    if e.rs is not None and e.inb == "1":
        ps, pe = pos.get(e.rs), pos.get(e.re)
        if ps is None or pe is None:
            # the model cannot reach the offset with `advance`: not a char boundary (already an oracle failure)
            if e.sb == "1" and e.eb == "1":
                r.model_disagreement(case, f"range {e.rs}..{e.re} valid", "model: offset not reachable")
        else:
            if e.line != ps[0]:
                r.model_disagreement(case, f"error #{d} line {e.line} range {e.rs}..{e.re}", f"model: offset {e.rs} is on line {ps[0]}")
            cands = [model_caret((ps[0], ps[1], e.rs, pe[0], pe[1], e.re))]
            s = se.get(e.rs)
            if s is not None and s[5] == e.re and s[2] == e.rs:
                cands.append(model_caret(s))
            if e.tsok != "n" and e.caret not in ("p",) and e.caret not in cands:   # no debug info: nothing is rendered
                r.model_disagreement(case, f"error #{d} caret {e.caret} range {e.rs}..{e.re}", f"model: {cands}")
    if e.win not in ("n", "p"):
        w = wi.get(e.line)
        if w != e.win:
            r.model_disagreement(case, f"error #{d} debug window {e.win} for line {e.line}", f"model: {w}")


# ---------------------------------------------------------------------------------------------- lex stream
def do_lex(r, q, pending, case, cfg, spec, res):
    keep = 1 if cfg == "trim" else 0
    r.hist["lex_cfg"][cfg] += 1
    if res.startswith("panic|"):
        msg = unhexs(res[6:])
        r.count(case, True)
        r.oracle_failure(case, "tokenizer panics: " + msg, panic_site(msg))
        return
    toks, tail = res.rsplit("|", 1)
    spans = [tuple(int(v) for v in t.split(":")) for t in toks.split(",")] if toks else []
    r.count(case, bool(spans) or tail != "end")
    r.hist["lex_tail"][tail.split(":")[0]] += 1
    offs, serrs = [], []
    prev = 0
    for sp in spans:
        if not (prev <= sp[2] <= sp[5]):
            r.oracle_failure(case, f"token spans not ordered: {sp} after offset {prev}", "lex-span-order")
        prev = sp[5]
        offs += [sp[2], sp[5]]
    err = None
    if tail.startswith("err:"):
        _, line, rs, re_ = tail.split(":")
        if "-" in (line, rs, re_):
            # errors of `unescape` are created without a location; the parser attaches one later
            r.hist["lex_tail"]["err without location (located by the parser)"] += 1
        else:
            err = (int(line), int(rs), int(re_))
            serrs = [err[1]]
    if not offs and not serrs:
        return
    key = q.add(keep, spec, offs, serrs)

    def check():
        pos, se, _ = q.get(key)
        for sp in spans:
            a, b = pos.get(sp[2]), pos.get(sp[5])
            if a is None or b is None:
                r.oracle_failure(case, f"token span {sp} does not lie on char boundaries inside the source", "lex-span-invalid")
            elif (sp[0], sp[1], sp[3], sp[4]) != (a[0], a[1], b[0], b[1]):
                r.model_disagreement(case, f"token span {sp}", f"model: start {a} end {b}")
        if err:
            s = se.get(err[1])
            if s is None:
                r.oracle_failure(case, f"lexer error at offset {err[1]} which is not a char boundary inside the source", "lex-error-invalid")
            elif (s[0], s[2], s[5]) != err:
                r.model_disagreement(case, f"lexer error line {err[0]} range {err[1]}..{err[2]}", f"model: {s}")
    pending.append(check)


# ---------------------------------------------------------------------------------------------- ast stream
def do_ast(r, q, pending, case, spec, res):
    how, body = res.split("|", 1)
    if how == "panic":
        r.count(case, True)
        r.oracle_failure(case, "parser panics: " + unhexs(body), panic_site(unhexs(body)))
        return
    if how != "ok":
        r.count(case, False)
        return
    spans = [tuple(int(v) for v in t.split(":")) for t in body.split(",")] if body else []
    r.count(case, bool(spans))
    r.hist["ast_spans"]["spans"] += len(spans)
    offs = []
    for sp in spans:
        offs += [sp[2], sp[5]]
    key = q.add(0, spec, offs)

    def check():
        pos, _, _ = q.get(key)
        for sp in spans:
            if sp == (0, 0, 0, 0, 0, 0):
                continue   # Span::default(): "no location"
            a, b = pos.get(sp[2]), pos.get(sp[5])
            if sp[:3] == (0, 0, 0) and a is not None:
                a = (0, 0)  # the root `Template` node starts at `Span::default()` (parser: last_span before any token)
            if sp[2] > sp[5] or a is None or b is None:
                r.oracle_failure(case, f"AST span {sp} is not a valid slice of the source", "ast-span-invalid")
            elif (sp[0], sp[1], sp[3], sp[4]) != (a[0], a[1], b[0], b[1]):
                r.model_disagreement(case, f"AST span {sp}", f"model: start {a} end {b}")
    pending.append(check)


# ---------------------------------------------------------------------------------------------- ins / tbl streams
def do_tbl(r, q, pending, case, ops, res):
    opl = [] if ops == "-" else ops.split(",")
    r.count(case, len(opl) > 0)
    r.hist["tbl_len"][str(min(len(opl), 10)) + ("+" if len(opl) >= 10 else "")] += 1
    if res.startswith("panic|"):
        r.oracle_failure(case, "side tables panic: " + unhexs(res[6:]), panic_site(unhexs(res[6:])))
        return
    spec = py_tbl_spec(opl, len(opl) + 2)
    if res != spec:
        r.oracle_failure(case, f"get_line/get_span do not return the recorded locations: got {res}, recorded {spec}", "side-table-lookup")
    key = q.add_raw("tbl " + ops)

    def check():
        m = q.raw(key)
        if m != res:
            r.model_disagreement(case, res, m)
    pending.append(check)


def do_ins(r, q, pending, case, spec, res):
    if res.startswith("panic|"):
        r.count(case, True)
        r.oracle_failure(case, "compiling panics: " + unhexs(res[6:]), panic_site(unhexs(res[6:])))
        return
    if res.startswith("compile-error"):
        r.count(case, False)
        return
    entries = res.split(",")
    r.count(case, len(entries) > 1)
    ops, offs, spans = [], [], []
    for pc, ent in enumerate(entries):
        line, span = ent.split("/")
        if span != "-":
            sp = tuple(int(v) for v in span.split(":"))
            spans.append((pc, line, sp))
            offs += [sp[2], sp[5]]
            ops.append("s" + ".".join(map(str, sp)))
            r.hist["ins_located"]["span"] += 1
        elif line != "-":
            ops.append("l" + line)
            r.hist["ins_located"]["line only"] += 1
        else:
            ops.append("a")
            r.hist["ins_located"]["none"] += 1
    # the reconstructed add sequence must reproduce the lookups (tables are a faithful run-length encoding)
    ops = ops[:-1]     # last entry is the lookup one past the end
    tkey = q.add_raw("tbl " + (",".join(ops) or "-"))
    pkey = q.add(0, spec, offs)

    def check():
        m = q.raw(tkey).split(",")
        if m[:len(entries) - 1] != entries[:-1] or m[len(entries) - 1] != entries[-1]:
            r.model_disagreement(case, res, ",".join(m))
        pos, _, _ = q.get(pkey)
        for pc, line, sp in spans:
            a, b = pos.get(sp[2]), pos.get(sp[5])
            if sp[2] > sp[5] or a is None or b is None:
                r.oracle_failure(case, f"instruction {pc}: span {sp} is not a valid slice of the source", "ins-span-invalid")
            elif (sp[0], sp[1], sp[3], sp[4]) != (a[0], a[1], b[0], b[1]):
                r.model_disagreement(case, f"instruction {pc} span {sp}", f"model: start {a} end {b}")
            if line != str(sp[0]):
                r.oracle_failure(case, f"instruction {pc}: line {line} but span starts on line {sp[0]}", "ins-line-vs-span")
    pending.append(check)


# ---------------------------------------------------------------------------------------------- entry points
def run(r):
    r.rule = ("err: failing templates = fixed-site cases (runtime errors in every construct incl. macros, blocks, includes, super, "
              "call/filter blocks, loops; every lexer/parser error site; failing prints in 31 constructs; one construct per fallible "
              "row of eval_impl (table C14_VM_ROWS) x 8 contexts; span-less code generator sites x 20 span-stack contexts x 9 "
              "sub-expression kinds; user code handing through located errors; lazily loaded templates with syntax errors / "
              "failing loaders; render_block / call_macro / render_captured / Expression API entry points) and syntax errors planted "
              "at every token position of 13 base templates, each under vertical shifts {0,1,2,7,300,up to 65535 lines,70000} x "
              "horizontal shifts {0,1,3 multi-byte,65540 columns} x environment configurations {default, debug off, pass-through / "
              "failing formatter, custom auto-escape format, keep_trailing_newline, trim+lstrip, custom delimiters, strict / "
              "semi-strict / chainable undefined, recursion limit 1, writer output, loader-backed} (quick tier: whole shift grid in "
              "the default configuration, reduced grids elsewhere, generated sites rotate contexts/kinds; thorough: everything); "
              "lex: all those sources + random token soups under 4 lexer configurations; ast/ins/stm: every AST span, every "
              "instruction's line/span and per top-level statement line range of all valid templates; tbl/cg: every add sequence / "
              "code generator script up to length 5/4 (6/5 thorough) + random long ones. Non-trivial = yields an error / tokens / "
              "spans / instructions.")
    r.assumptions = ["sources shorter than 2^32 bytes (offsets are stored as u32)",
                     "slice::binary_search_by_key meets its documented contract on sorted slices",
                     "shift invariance is claimed for templates of at most 65535 lines (u16 line counter saturates beyond)",
                     "errors raised by an API entry point itself (render_block / call_macro on a missing name or under a recursion "
                     "limit that already forbids their frame) belong to no template construct and are not expected to be located"]
    st = r.regen_tables(["C14_CODEGEN_ADDS", "C14_VM_FALLIBLE", "C14_VM_ROWS", "C14_LOC_WIDTHS"])
    r.lean_prove("MJ.Props.C14", "MJ/Audit/C14.lean", extra_targets=["drive_c14"])
    exe = r.cargo_build("c14")
    if exe is None:
        return
    rc, out, err = r.harness(exe, ["gen", r.tier])
    if rc != 0:
        r.broken.append(f"harness c14 exited {rc}: {err[-300:]}")
        return
    evaluate(r, out, st.get("items", {}))


def replay(r, path):
    d = json.load(open(path))
    exe = r.cargo_build("c14")
    for case in [d.get("case")] + d.get("more_cases", []):
        if not case:
            continue
        f = case.split(" ")
        args = ["one"] + f + (["show"] if f[0] == "err" else [])
        rc, out, err = r.harness(exe, args)
        print(out.strip()[:3000])
        print(err.strip()[:3000])
        if f[0] == "err" and "\t" in out:
            rec = parse_err_record(out.split("\t", 1)[1].strip())
            print(rec["how"], rec["panic"] or "")
            for e in rec["errors"]:
                print("   ", e.brief(), "valid-slice:", e.inb, e.sb, e.eb, "format-panics:", e.fmtmask, e.fmtmsg)
    print("what:", d.get("what"))
    return 0
