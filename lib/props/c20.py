"""C20 — the auto-reloader never loses a reload request (DESIGN.md §3 C20)."""
import json, os, subprocess, collections, time
from common import ENV, VERIF, REPO, BUILD, sh

READY = True

META = {
    "technique": "Lean 4 proof (inductive invariants over all reachable states of a lock-granularity transition system of AutoReloader/Notifier, any number of threads) + schedules enumerated from the model and replayed on the real AutoReloader with a deterministic scheduler over real threads (verif_hooks yield points) + mutual-exclusion pokes at every yield point + the real watch-fs backend driven through scenarios and model-predicted operation sequences + a differential stream over the template store that fast reload clears (real Environment API vs. the Lean model of LoaderStore, with the fast-reload half of the property as an oracle) + a differential stream over the reloader's lifetime and two reloaders (Lean lifetime/product model) + tables regenerated from loader.rs / environment.rs / lib.rs (store fields and their uses, notifier handle constructions)",
    "category": "proof",
    "text": "Kernel-checked theorems over every reachable state of the reloader protocol model (any number of acquiring, requesting and fast-reload-switching threads, any interleaving of the atomic steps, creator callbacks that issue requests / switch fast reload / fail / panic, freshness callback): a request that returned before an acquire locked is served by the environment that acquire hands out (creator started or templates cleared after the flag was set); no step replaces, rebuilds or clears the environment while a guard is held; every creator call or clear is caused by its own observation; a request is served AT MOST ONCE (request_served_at_most_once: flag observations + the one still owed <= flag RAISES + failed creator calls, a burst of requests between two checks is one raise; reloads_le_requests); every reload decision is taken UNDER the cached_env lock and no other acquire locks between an acquire's lock and its decision (check_under_lock, observation_only_by_holder) - and the variant model that checks before it locks (seeded change C20-6) loses a returned request and calls the creator twice for one request, with concrete schedules (variant_loses_request, variant_spurious_create, variant_decides_without_lock); a request arriving while the creator runs keeps the flag up and the next acquire rebuilds. The model is tied to /repo by replaying model-enumerated schedules (all interleavings at the hook points for the small boxes, eager-return-reduced or sampled for 3x3) on the real code and comparing the whole observation (arrival point of every step, generation and loader-call number seen through every guard, creator calls with their step), plus the property itself evaluated on the observed history.  Session 4: the property is stated per state (C20_at) and at full strength (C20_full), and C20_main proves it for ANY system that refines the model, with the refinement (validated by replay) and the source ties (discharged by theorems over regenerated tables: SourceTies / source_ties_hold) as named hypotheses; 'whose template cache was cleared' is given its meaning by a model of LoaderStore (all stores, names, loader answers, compilers: after clear every lookup consults the loader and answers what it says now; without the clear the memo answers for ever; a failed lookup memoises nothing) tied to the regenerated field list of the Rust struct (clear_empties_every_lookup_cache: every container field is cleared); the window without a watcher is characterised (registering_creator_leaves_no_silent_window); notifier handles that outlive the reloader, the drop, and several reloaders are transition systems with theorems (dead_notifier_does_nothing, drop_excludes_acquire, several_reloaders_independent, one_strong_handle_per_reloader over the regenerated handle constructions); watch_path from several threads is a lock-granularity model of with_fs_watcher (concurrent_watch_paths_share_one_watcher, registration_lost_only_by_reload).",
    "design_ref": "DESIGN.md §3 C20",
    "level_note": "Trusted: Lean kernel; hand transcription of acquire_env/request_reload/should_reload/prepare_and_mark_reload/keep_reload_pending/set_fast_reload/set_callback into MJ/Model/Reloader.lean, tied four ways: (a) the per-function sequence of shared accesses (locks incl. the fs watcher's own mutex, flag/fast/callback reads and writes, creator, clear, hand-out) is re-extracted from lib.rs on every run and proved equal to the sequence the model's steps assume (MJ.C20.accesses_as_modelled; regex extractor lib/tables/c20.py is trusted), so a new access anywhere breaks the tie even where no hook sits; (b) schedule replay at hook granularity: every notifier-lock acquisition of acquire_env is preceded by a yield point, incl. the re-arm after a failed creator (BeforeRemark = the notifier look-up of keep_reload_pending) and the window between the fast-reload clear and the hand-out (AfterClear); configurations with a freshness + on_should_reload callback registered (f0/f1) and with NO callback registered (g0/g1: the None arms); (c) MUTUAL EXCLUSION is probed, not assumed: for every yield point of acquire_env (Q K Z B S T C E F H) x {full, fast, no callbacks} x {creator ok, fails, panics} a second acquirer that the model says is blocked is released from BeforeLock while the holder stands still and must not arrive anywhere (bounded wait; 'blocked' is what the unchanged code always gives), so a cached_env lock that is dropped early (before the re-arm, around the creator) is a failing input; contention on the NOTIFIER mutex (user callbacks run under it): a request_reload / a file event issued while the freshness callback holds the mutex must be served by the next acquire; (d) the property evaluated on the observed history. The fs-watcher closure is proved to perform request_reload's critical sections (fs_callback_is_request); its event filter (the matches! pattern) is re-extracted on every run, evaluated on every concrete EventKind of the vendored notify-types crate and proved to accept every kind that denotes a change of file content or of the set of files, for every RenameMode, and to reject access/metadata events; in both tiers a scratch crate with the real watch-fs feature drives real file changes (write, nested write, create, delete, rename inside / out of / into the tree, directory rename, directory moved out, atomic save, move of the watched root; touch reported only) x {full, fast, persistent}, TWO registered paths, non-recursive registration, unwatch of one of two paths, bursts (several events for one save, the next change right after the acquire), registration calls while events keep flowing (watchdog: a scenario that does not end is a finding), and requires a notification and an environment that reflects the disk at the next acquire (skipped, and said so, if the sandbox delivers no inotify events). The watcher's LIFETIME is modelled (watching / persistent / registered; prepare drops it per dropWatcher, creator or an outside thread re-registers): the drop condition's truth table is re-extracted and proved equal to the model's, watcher_alive_whenever_needed holds in every reachable state, and seeded random OPERATION SEQUENCES (persistent_watch and fast reload toggled at run time, watch_path from the creator or from outside, requests, single-event file changes) are run on the real backend with the model's prediction for every change: a change the model says is watched must be notified and served (a notification the model does not expect is only reported: a dropped notify watcher shuts down asynchronously). Genuine defects found and repaired: fix 5725511 (fast-reload decision taken once) and fix e3d615c (watch_path / unwatch_path held the notifier mutex across the call into notify, whose thread takes that mutex in the event callback: registering while events were delivered deadlocked; the watcher now has its own mutex). A PANICKING creator is a third creator outcome in model, replay and oracle (panic_never_serves_stale). No verdict depends on wall-clock timing: every wait that decides one is a bounded wait for an event that must arrive, or (pokes, quiet windows) a wait whose expiry is the expected outcome on the unchanged code. Not covered: in full-reload mode without persistent_watch the fs watcher is dropped before the creator runs and only exists again once the creator calls watch_path, so file changes in that window produce no notification at all (the creator must register before it reads); callbacks that call back into the same notifier from under its mutex (deadlock by construction of std::sync::Mutex) are not exercised. MOVED FROM VALIDATED TO PROVED in session 4 (the session-3 worker was interrupted; this is its list, redone): (1) fast reload's clear: `Environment::clear_templates` / `LoaderStore::{clear,get,insert_cow,remove,set_loader}` are INSIDE the model (MJ/Model/LoaderStore.lean; loader answer and compiler are parameters), theorems for all inputs (cleared_env_consults_loader, uncleared_env_serves_memo, failed_lookup_not_cached), tie = regenerated table C20_LOADER_STORE (struct fields + every use of a field through self per method + the body of clear_templates + the type of Environment.templates): clear_empties_every_lookup_cache fails when a container field is added that clear() does not empty (seeded C20-7's class) or when clear_templates does anything but templates.clear(); executed against the real code by the `store` stream (directed product: state of the name before x what was done with it x what the loader says afterwards x with/without clear x get_template / include candidate list, plus seeded random op sequences over set_loader, add_template, add_template_owned, remove_template, clear_templates, get_template, include [a, b] ignore missing, loader answers found / missing / error / syntax error) with an oracle that demands, after a clear, that the first lookup of every name consults the loader and answers what it says now - this also reaches caches OUTSIDE the store (e.g. in Environment::get_template), which the table cannot see; (2) the not-covered window: registering_creator_leaves_no_silent_window proves that with a creator that registers, the watcher is missing only while the dropping acquire holds the cached_env lock between its flag reset and its creator's watch_path call, and that it is alive whenever an environment can be looked at (nobody inside / guard held); NOT promised and said so by reachable-state examples: a creator that never registers (paths registered once from outside) is silent after the first full reload, a file change inside the window produces no notification (it is read by whatever the new environment loads afterwards), and a watch_path from outside that races with a full reload can register on the watcher the reload just threw away (registration_lost_only_by_reload is exactly that exception); (3) notifier handles that outlive the reloader and the drop itself are a transition system (MJ/Model/ReloaderLife.lean: alive bit, drop enabled only with no acquire in progress, dead entry points do nothing, a request_reload that upgraded before the drop finishes) with alive_reloader_is_protocol, dead_notifier_does_nothing, drop_excludes_acquire (incl.: whoever is inside acquire_env has a live notifier, so prepare_and_mark_reload's expect cannot fire); tie = regenerated table C20_HANDLE_SITES (every construction of a Strong / Weak handle, every Notifier::new call, what notifier() returns) with one_strong_handle_per_reloader; executed by the `life` stream (two real reloaders, requests through the outside handle and through the clone the creator kept, set_fast_reload / set_callback, drop, is_dead; the oracle demands a new generation iff a request was made on THAT reloader since its last acquire); (4) 'more than one AutoReloader sharing a Notifier' cannot be built through the API (the strong handle is made by the private Notifier::new, called only by AutoReloader::new: proved from the table), so several reloaders are the product system: several_reloaders_independent; (5) watch_path from several threads: MJ/Model/WatcherReg.lean (look-up-or-create under the notifier mutex, registration under the watcher's own mutex, reloads that take the watcher out; any number of threads) with concurrent_watch_paths_share_one_watcher; executed by the new watch-fs scenario concurrent-registrations-* (4 threads released by a barrier register 4 paths on a fresh reloader, every path must be watched afterwards; several rounds).  STILL ONLY VALIDATED: H_start / H_refines of C20_main (the Rust functions refine the model's steps: schedule replay, pokes, probes, plus the access-table tie); that the real MemoMap / BTreeMap behave as the association lists of the LoaderStore model and that Template / include go through LoaderStore::get (store stream); the notify backend itself. TRUSTED: the regex extractors of lib/tables/c20.py.",
}

NPROC = 8


def parse_cfg(cfg):
    parts = cfg.split(".")
    ths = []
    for t in parts[2:]:
        if t in ("R", "K"):
            ths.append(("R", t))
        elif t in ("F0", "F1"):
            ths.append(("F", t == "F1"))
        elif t in ("C0", "C1"):
            ths.append(("C", t == "C1"))
        else:
            ths.append(("A", t[2] == "1", t[4] in "12", t[5:].replace("-", ""), t[4] == "2"))
    return parts[0] in ("f1", "g1"), parts[1] == "e1", ths


def parse_obs(obs):
    d = {}
    for part in obs.split("|"):
        if "=" in part:
            k, v = part.split("=", 1)
            d[k] = v
    return d


def oracle(cfg, sched, obs):
    """the property, evaluated on the history observed from the REAL code.
    returns (list of (what, site), number of request/acquire obligations checked)"""
    fails = []
    fast0, _eager, ths = parse_cfg(cfg)
    d = parse_obs(obs)
    if obs.startswith("bad:"):
        # a thread did not arrive (blocked / stuck): no complete history to judge; this is a
        # correspondence break (reported through the model comparison), not an oracle verdict
        return [], 0
    P = d.get("P", "").split(",") if d.get("P") else []
    steps = [int(c) for c in sched + d.get("X", "")]
    if len(P) != len(steps):
        return [("trace length differs from schedule", "trace")], 0
    # ---- reconstruct events from the observed arrival points
    per_thread = collections.defaultdict(list)     # thread -> [(step, arrival)]
    for k, (t, p) in enumerate(zip(steps, P)):
        if p != "X":
            per_thread[t].append((k, p))
    sets = []                                      # (set_step, ret_step, by)
    acqs = {}                                      # thread -> dict
    const_cb = []                                  # (step, answer) of set_callback(|| b) threads
    fast_sets = []
    for t, evs in per_thread.items():
        if ths[t][0] == "C":
            const_cb.append((evs[0][0], ths[t][1]))
            continue
        if ths[t][0] == "F":
            fast_sets.append((evs[0][0], ths[t][1]))
            continue
        if ths[t][0] == "R":
            ks = [k for k, p in evs if p == "T"]
            kr = [k for k, p in evs if p == "D"]
            if ks:
                sets.append((ks[0], kr[0] if kr else 10**9, t))
            elif kr:
                # request_reload returned without ever reaching the flag (no AfterSet arrival): it
                # still is a request that has returned
                sets.append((kr[0], kr[0], t))
        else:
            a = {"lock": evs[0][0], "check": None, "reset": None, "hand": None, "clear_step": None, "leftB": None}
            for j, (k, p) in enumerate(evs):
                if p == "K":
                    a["check"] = k
                if p == "T":
                    nxt = evs[j + 1][0] if j + 1 < len(evs) else 10**9
                    sets.append((k, nxt, t))
                if p == "Z":
                    a["reset"] = k
                    if j + 1 < len(evs) and evs[j + 1][1] in ("H", "E"):
                        # Z -> AfterClear (or, on trees without that yield point, Z -> hand-out) without
                        # the creator: the clear path; the clear happened in the step that arrived there
                        a["clear_step"] = evs[j + 1][0]
                if p == "B" and j + 1 < len(evs):
                    a["leftB"] = evs[j + 1][0]
                if p == "H":
                    a["hand"] = k
            acqs[t] = a
    builds = {}                                    # gen -> (step, failed)
    if d.get("G"):
        for b in d["G"].split(","):
            g, k = b.split("@")
            builds[int(g)] = (int(k.rstrip("fp")), k.endswith("f") or k.endswith("p"))
    got = {}
    for item in (d.get("A") or "").split(","):
        if not item:
            continue
        t, v = item.split(":", 1)
        got[int(t)] = v
    # ---- guard_excludes_replace
    for t, v in got.items():
        if "!changed" in v:
            fails.append((f"acquire {t}: environment changed while its guard was held ({v})", "guard:replaced-under-guard"))
    if d.get("N"):
        for note in d["N"].split(";"):
            if note.startswith("panic"):
                fails.append((f"panic in the real code: {note}", "panic"))
    # ---- freshness of what each acquire handed out
    order = sorted((a["hand"], t) for t, a in acqs.items() if a["hand"] is not None)
    seen_loads, seen_gens, clear_at, fresh = 0, set(), {}, {}
    for k_h, t in order:
        v = got.get(t, "")
        if "!" in v:
            v = v.split("!")[0]
        if not v.startswith("g") or "l" not in v:
            fails.append((f"acquire {t} returned a guard but no environment was observed ({v})", "observe"))
            continue
        g, l = int(v[1:v.index("l")]), int(v[v.index("l") + 1:])
        if g not in builds or builds[g][1]:
            fails.append((f"acquire {t} handed out generation {g} that no successful creator call produced", "observe"))
            continue
        if l > seen_loads:
            if g in seen_gens:
                # template cache observed empty again: cleared inside this acquire
                clear_at[g] = acqs[t]["clear_step"] if acqs[t]["clear_step"] is not None else k_h
            seen_loads = l
        seen_gens.add(g)
        fresh[t] = max(builds[g][0], clear_at.get(g, -1))
    # ---- no_lost_request
    obligations = 0
    for (ks, kr, by) in sets:
        for t, a in acqs.items():
            if a["hand"] is None or a["lock"] <= kr or t not in fresh:
                continue
            obligations += 1
            if not fresh[t] > ks:
                after_fail = any(bf and ks < bk < a["lock"] for (bk, bf) in builds.values())
                kind = "after-failed-creator" if after_fail else ("inner" if ths[by][0] == "A" else "plain")
                fails.append((f"request set at step {ks} (returned at {kr}) by thread {by} was lost: acquire {t} locked at step "
                              f"{a['lock']} and handed out {got.get(t)} which was built/cleared at step {fresh[t]}",
                              f"lost-request:{kind}"))
    # ---- no_spurious_create: every reload decision is justified
    def cb_answer(t):
        """what the freshness callback answers when polled by acquire t: the latest set_callback(|| b)
        before its check, else the initial callback (answers the acquire's own configuration)"""
        chk = acqs[t]["check"] if acqs[t]["check"] is not None else 10**9
        prior = [(k, b) for (k, b) in const_cb if k < chk]
        return max(prior)[1] if prior else ths[t][1]
    resets = sorted((a["reset"], t) for t, a in acqs.items() if a["reset"] is not None)
    prev_reset, prev_failed = -1, False
    have_env_before = lambda k: any((bk < k and not bf) for (bk, bf) in builds.values())
    for k_z, t in resets:
        a = acqs[t]
        justified = (not have_env_before(a["lock"])) or cb_answer(t) or prev_failed or \
            any(prev_reset < ks < k_z for (ks, _, _) in sets)
        if not justified:
            fails.append((f"acquire {t} decided to reload at step {a['lock']} although no request was made since the last reload "
                          f"and the freshness callback was not true", "spurious-reload"))
        prev_reset = k_z
        prev_failed = a["leftB"] is not None and any(bf and bk == a["leftB"] for (bk, bf) in builds.values())
    n_cre = int(d.get("C", "0"))
    n_passB = sum(1 for a in acqs.values() if a["leftB"] is not None)
    if n_cre != n_passB or n_cre != len(builds):
        fails.append((f"{n_cre} creator calls but {n_passB} acquires went past BeforeCreate", "spurious-create"))
    bound = 1 + sum(1 for (_, f) in builds.values() if f) + len(sets) + sum(1 for t in acqs if cb_answer(t))
    if n_cre > bound:
        fails.append((f"{n_cre} creator calls > 1 + failures + requests + callback answers = {bound}", "spurious-create"))
    # ---- environment identity: what a guard shows is the product of the latest successful creator
    #      call (full reload = a new object, fast reload / no reload = the same object)
    for k_h, t in order:
        v = got.get(t, "").split("!")[0]
        if not (v.startswith("g") and "l" in v):
            continue
        g = int(v[1:v.index("l")])
        done = [gg for gg, (bk, bf) in builds.items() if not bf and bk < k_h]
        if done and g != max(done):
            fails.append((f"acquire {t} handed out generation {g} but the latest successful creator call before its hand-out produced {max(done)}",
                          "identity:stale-object"))
        if acqs[t]["clear_step"] is not None and any(bk == acqs[t]["clear_step"] for (bk, _) in builds.values()):
            fails.append((f"acquire {t} took the clear path but a creator call was observed in it", "identity:clear-path-created"))
    # documented: with fast reload enabled the creator is only called once (as long as it succeeds and nobody switches it off)
    scripts = "".join(x[3] for x in ths if x[0] == "A")
    if fast0 and "u" not in scripts and not any(x[0] == "F" and not x[1] for x in ths):
        for gg, (bk, bf) in builds.items():
            if have_env_before(bk):
                fails.append((f"fast reload is on but creator call {gg} (step {bk}) replaced an existing environment", "fast-reload:creator-called-again"))
    # on_should_reload callback: once per request_reload, plus once per callback-triggered reload
    if "O" in d and d["O"] != "-":
        o = int(d["O"])
        returned = sum(1 for (_, kr, _) in sets if kr < 10**9)
        if not (returned <= o <= returned + len(resets)):
            fails.append((f"on_should_reload callback invoked {o} times for {returned} requests and {len(resets)} reloads", "on-should-reload-count"))
    return fails, obligations


def choose_pokes(model):
    """prefixes of model schedules that end with one acquirer INSIDE acquire_env (at each of its yield
    points) while another acquirer has not started: the model says the latter is blocked on the
    cached_env mutex (theorem acquirers_blocked).  One prefix per (configuration family, yield point,
    creator outcome of the holder)."""
    chosen = {}
    for line in model:
        cfg, sched, pred = line.split("\t")
        if pred.startswith("bad:") or not sched.isdigit():
            continue
        _, _, ths = parse_cfg(cfg)
        acq_ids = [i for i, t in enumerate(ths) if t[0] == "A"]
        if len(acq_ids) < 2:
            continue
        P = parse_obs(pred).get("P", "").split(",")
        started = set()
        for k, (ch, pt) in enumerate(zip(sched, P)):
            t = int(ch)
            started.add(t)
            if t in acq_ids and pt in ("Q", "K", "Z", "B", "S", "T", "C", "E", "F", "H"):
                idle = [u for u in acq_ids if u not in started]
                if idle:
                    outcome = "panics" if ths[t][4] else "fails" if ths[t][2] else "ok"
                    key = (cfg.split(".")[0], pt, outcome)
                    if key not in chosen:
                        chosen[key] = (cfg, sched[:k + 1], idle[0])
    return [chosen[k] for k in sorted(chosen)]


def run_parallel(exe, text, seed, tier, per_proc=200):
    lines = text.splitlines()
    n = max(1, min(NPROC if tier != "thorough" else 12, len(lines) // per_proc + 1))
    chunks = [lines[i::n] for i in range(n)]
    e = dict(ENV); e["VERIF_SEED"] = str(seed); e["VERIF_TIER"] = tier
    procs = []
    for ch in chunks:
        p = subprocess.Popen([exe, "run"], stdin=subprocess.PIPE, stdout=subprocess.PIPE, stderr=subprocess.PIPE, text=True, env=e)
        procs.append((p, ch))
    import threading
    outs = [None] * n
    def feed(i, p, ch):
        outs[i] = p.communicate("\n".join(ch) + "\n")
    ths = [threading.Thread(target=feed, args=(i, p, ch)) for i, (p, ch) in enumerate(procs)]
    for t in ths: t.start()
    for t in ths: t.join()
    res = {}
    bad = []
    for i, (p, ch) in enumerate(procs):
        if p.returncode != 0:
            bad.append(f"harness worker exited {p.returncode}: {outs[i][1][-200:]}")
        for line in outs[i][0].splitlines():
            f = line.split("\t")
            if len(f) == 3:
                res[(f[0], f[1])] = f[2]
    return res, bad


def wfs_prepare(r):
    """the real watch-fs feature (notify) with real file changes in a temp dir.
    Built as a scratch crate under .build/ (needs `notify`, which harness/Cargo.toml does not have)."""
    d = os.path.join(BUILD, "c20_wfs")
    os.makedirs(os.path.join(d, "src"), exist_ok=True)
    with open(os.path.join(d, "Cargo.toml"), "w") as fh:
        fh.write('[package]\nname = "c20_wfs"\nversion = "0.1.0"\nedition = "2021"\n[workspace]\n[dependencies]\n'
                 f'minijinja = {{ path = "{REPO}/minijinja" }}\n'
                 f'minijinja-autoreload = {{ path = "{REPO}/minijinja-autoreload", features = ["verif_hooks"] }}\n'
                 'notify = { version = ">=5.0.0,<9.0.0", default-features = false, features = ["macos_fsevent"] }\n')
    import shutil
    shutil.copy(os.path.join(VERIF, "lib", "props", "c20_wfs", "main.rs"), os.path.join(d, "src", "main.rs"))
    shutil.copy(os.path.join(REPO, "Cargo.lock"), os.path.join(d, "Cargo.lock"))
    env = dict(ENV); env["CARGO_TARGET_DIR"] = os.path.join(BUILD, "cargo-c20wfs")
    # ---- the watcher's lifetime as a differential stream: random operation sequences (persistent_watch /
    #      fast reload toggled at run time, registration in the creator or from outside, requests, file
    #      changes); the Lean model says for every file change whether the paths are watched at that moment
    import random
    rng = random.Random(r.seed * 7919 + 20)
    n_seq = 10 if r.tier != "thorough" else 60
    seqs = []
    for k in range(n_seq):
        site = "co"[k % 2]
        ops, nx = [], 0
        for _ in range(rng.randint(5, 9)):
            op = rng.choice(["P0", "P1", "F0", "F1", "W", "A", "R", "R", "X", "X", "X"])
            if op == "X":
                nx += 1
                if nx > 8:
                    continue
            ops.append(op)
        if nx == 0:
            ops.append("X")
        seqs.append((site, ",".join(ops)))
    pred = {}
    lines = r.driver("drive_c20", "".join(f"wfs {site} {ops}\n" for site, ops in seqs))
    for line in lines or []:
        f = line.split("\t")
        if len(f) == 4 and f[0] == "wfs":
            pred[(f[1], f[2])] = f[3]
    seqfile = os.path.join(d, "sequences.txt")
    expect = {}
    with open(seqfile, "w") as fh:
        for site, ops in seqs:
            p = pred.get((site, ops))
            if p is None or "?" in p:
                r.broken.append(f"no model prediction for the watcher sequence {site} {ops}: {p}")
                continue
            marks = iter(p.split("|")[0])
            real_ops = ",".join(("X+" if next(marks) == "n" else "X-") if op == "X" else op for op in ops.split(","))
            expect[(site, real_ops)] = (ops, p)
            fh.write(f"{site} {real_ops}\n")
    return {"d": d, "env": env, "seqfile": seqfile, "expect": expect, "n_seq": len(seqs)}


def wfs_run(ctx):
    """build the scratch crate and run it (in a thread next to the schedule replay: every verdict of the
    watch-fs test is a bounded wait for an event that must arrive, none depends on how fast it runs)"""
    d, env = ctx["d"], ctx["env"]
    try:
        rc, out, err = sh(["cargo", "build", "--offline"], cwd=d, timeout=900, env=env)
        if rc != 0:
            ctx["build_error"] = " | ".join(l for l in err.splitlines() if l.startswith("error"))[:300]
            return
        ctx["result"] = sh([os.path.join(env["CARGO_TARGET_DIR"], "debug", "c20_wfs"), ctx["seqfile"]], timeout=900, env=env)
    except subprocess.TimeoutExpired:
        ctx["timeout"] = True


def wfs_finish(r, ctx):
    if ctx.get("build_error") is not None:
        r.extra["watch_fs_smoke"] = "scratch crate does not build: " + ctx["build_error"]
        r.broken.append("watch-fs smoke test does not build against /repo's current tree")
        return
    if ctx.get("timeout") or "result" not in ctx:
        r.broken.append("watch-fs test did not end within 900 s")
        return
    rc, out, err = ctx["result"]
    expect = ctx["expect"]
    res = []
    hang = False
    for line in out.splitlines():
        f = line.split("\t")
        if len(f) >= 4 and f[0] == "wfs":
            res.append(" ".join(f[1:]))
            r.hist["watch_fs_smoke"][f[2]] += 1
            if f[2] == "FAIL":
                if f[3].startswith("hang:"):
                    hang = True
                    r.oracle_failure("wfs " + f[1], "watch-fs test: " + f[3], "watch-fs:hang:" + f[1].split(" ")[0])
                else:
                    r.oracle_failure("wfs " + f[1], "watch-fs smoke test: " + f[3], "watch-fs:" + f[1])
            elif f[2] in ("ok", "info"):
                r.count("wfs " + f[1], f[2] == "ok")
        if len(f) == 4 and f[0] == "wfsseq":
            key = (f[1], f[2])
            if key not in expect:
                continue
            ops, p = expect.pop(key)
            case = f"wfsseq {f[1]} {f[2]}"
            r.count(case, True)
            d_obs = f[3].split("|")
            got, want = d_obs[0], p.split("|")[0]
            problem = [x for x in d_obs if x.startswith("problem=")]
            lost = [k for k, (g, w) in enumerate(zip(got, want)) if w == "n" and g != "n"]
            if lost or len(got) != len(want):
                r.hist["watch_fs_sequences"]["lost-notification"] += 1
                r.oracle_failure(case, f"file change no. {[k + 1 for k in lost]} produced no notification although the paths are registered and the model says they are watched (model {p}, real {f[3]})",
                                 "watch-fs:sequence:lost-notification")
            elif problem:
                r.hist["watch_fs_sequences"]["stale"] += 1
                r.oracle_failure(case, "watcher sequence: " + problem[0], "watch-fs:sequence:stale")
            elif got != want:
                # a notification where the model says nothing is watching: a watcher that was just dropped
                # shuts down asynchronously and may still deliver (harmless: one more reload); reported only
                r.hist["watch_fs_sequences"]["late-event-of-dropped-watcher"] += 1
            elif d_obs[1:2] != p.split("|")[1:2]:
                r.hist["watch_fs_sequences"]["creator-calls-differ(info)"] += 1
            else:
                r.hist["watch_fs_sequences"]["as-modelled"] += 1
    if not hang and not any(x.startswith("all skip") for x in res):
        for (site, real_ops) in expect:
            r.broken.append(f"no result for the watcher sequence {site} {real_ops}")
    if (rc != 0 and not hang) or not res:
        r.broken.append(f"watch-fs smoke test crashed rc={rc}: {err[-200:]}")
    r.extra["watch_fs_smoke"] = res
    r.extra["watch_fs_sequences"] = ctx["n_seq"]


def store_oracle(ops, obs):
    """the fast-reload half of the property on the template store, independent of the Lean model: after
    clear_templates() (with a loader set) the FIRST lookup of every name - by get_template or as an include
    candidate - must consult the loader and answer what the loader says at that moment, whatever was added,
    loaded, removed or looked up in vain before the clear.  Returns a list of failure texts."""
    fails = []
    disk, loader, fresh = {}, False, None     # fresh = names not touched since the last clear (None: no clear yet)
    res = iter(obs.split(","))
    def want(n):
        v = disk.get(n, "-")
        return {"-": "nf", "!": "le", "x": "se"}.get(v, f"t{n}#{v}")
    for op in ops.split(","):
        k = op[0]
        if k == "L":
            loader = True
        elif k == "D":
            disk[op[1]] = op[2]
        elif k == "C":
            fresh = {"a", "b", "c"}
        elif k in "BO":
            got = next(res, "?")
            if fresh is not None:
                fresh.discard(op[1])
        elif k == "R":
            pass                                  # removing leaves a name that has to be looked up afresh
        elif k in "GE":
            got = next(res, "?")
            n = op[1]
            if fresh is not None and n in fresh and loader:
                if got != want(n) + "+":
                    fails.append(f"{'get_template' if k == 'G' else 'extends '}({n!r}) after clear_templates() answered {got!r}; the loader says {want(n)!r} now and must be consulted (expected {want(n) + '+'!r})")
            if fresh is not None:
                fresh.discard(n)
        elif k == "I":
            got = next(res, "?")
            if fresh is not None and loader:
                exp, calls, known = "none", 0, True
                for n in op[1:3]:
                    if n not in fresh:
                        known = False
                        break
                    calls += 1
                    w = want(n)
                    fresh.discard(n)
                    if w != "nf":
                        exp = w
                        break
                if known and got != f"{exp}+{calls}":
                    fails.append(f"include [{op[1]!r}, {op[2]!r}] after clear_templates() gave {got!r}; with the loader's present answers it must give {exp}+{calls}")
            if fresh is not None:
                for n in op[1:3]:
                    fresh.discard(n)
    return fails


def run_store(r, exe):
    """differential stream + oracle for the template store behind fast reload"""
    rc, out, err = r.harness(exe, ["store", r.tier])
    if rc != 0 or not out.strip():
        r.broken.append(f"harness c20 store exited {rc}: {err[-300:]}")
        return
    real = []
    for line in out.splitlines():
        f = line.split("\t")
        if len(f) == 3 and f[0] == "store":
            real.append((f[1], f[2]))
    model = r.driver("drive_c20", "".join(f"store {ops}\n" for ops, _ in real))
    pred = {}
    for line in model or []:
        f = line.split("\t")
        if len(f) == 3 and f[0] == "store":
            pred[f[1]] = f[2]
    for ops, obs in real:
        case = "store " + ops
        obligations = ("C" in ops.split(",")) and ("L" in ops.split(","))
        r.count(case, obligations)
        r.hist["store"]["with-clear" if obligations else "without-clear-or-loader"] += 1
        if ops not in pred:
            r.broken.append(f"no model prediction for {case}")
        elif pred[ops] != obs:
            r.model_disagreement(case, obs, pred[ops])
        if obs.startswith("panic:"):
            r.oracle_failure(case, "panic in the real code: " + obs, "store:panic")
            continue
        for what in store_oracle(ops, obs):
            r.oracle_failure(case, what, "fast-reload:clear:stale-lookup")
    r.extra["store_sequences"] = len(real)


def life_oracle(ops, obs):
    """the property over the reloader's lifetime and over two reloaders, independent of the Lean model: an
    acquire hands out a NEW generation iff a request was made on THAT reloader (through any handle, while it
    lived) since its last acquire or its freshness callback says so (fast reload: the same generation);
    requests on the other reloader or on a dead notifier cause nothing.  (What is_dead() answers is compared
    with the model only: the property does not speak about it.)"""
    fails = []
    st = [dict(alive=True, pending=False, fast=False, cb=False, gen=0, armed=False), dict(alive=True, pending=False, fast=False, cb=False, gen=0, armed=False)]
    res = iter(obs.split(","))
    for o in ops.split(","):
        k, op = (1, o[1:]) if o.startswith("2") else (0, o)
        x = st[k]
        if op == "A":
            got = next(res, "?")
            if not x["alive"]:
                continue
            g0 = x["gen"]
            if x["gen"] == 0:
                x["gen"] = 1
            elif (x["pending"] or x["cb"]) and not x["fast"]:
                x["gen"] += 1
            x["pending"] = False
            if x["gen"] > g0 and x["armed"]:
                # the creator ran: the request it issues on the OTHER reloader (op X) is a request like any other
                x["armed"] = False
                if st[1 - k]["alive"]:
                    st[1 - k]["pending"] = True
            if got != f"g{x['gen']}":
                fails.append((f"reloader {k + 1}: acquire handed out {got}, expected generation g{x['gen']} (requests on it since its last acquire decide, nothing else)", "life:wrong-generation"))
                if got.startswith("g") and got[1:].isdigit():
                    x["gen"] = int(got[1:])
        elif op in ("R", "K"):
            if x["alive"]:
                x["pending"] = True
        elif op in ("F0", "F1"):
            if x["alive"]:
                x["fast"] = op == "F1"
        elif op in ("B0", "B1"):
            if x["alive"]:
                x["cb"] = op == "B1"
        elif op == "X":
            x["armed"] = True
        elif op == "D":
            x["alive"] = False
        elif op in ("Q", "q"):
            next(res, "?")      # is_dead(): not part of the property's statement; compared with the model only
    for k in (0, 1):
        got = next(res, "?")
        if got.startswith("C=") and int(got[2:].split("/")[0]) > st[k]["gen"]:
            fails.append((f"reloader {k + 1}: {got}: more creator calls than generations handed out ({st[k]['gen']})", "life:spurious-create"))
    return fails


def run_life(r, exe):
    rc, out, err = r.harness(exe, ["life", r.tier])
    if rc != 0 or not out.strip():
        r.broken.append(f"harness c20 life exited {rc}: {err[-300:]}")
        return
    real = [(f[1], f[2]) for f in (line.split("\t") for line in out.splitlines()) if len(f) == 3 and f[0] == "life"]
    model = r.driver("drive_c20", "".join(f"life {ops}\n" for ops, _ in real))
    pred = {}
    for line in model or []:
        f = line.split("\t")
        if len(f) == 3 and f[0] == "life":
            pred[f[1]] = f[2]
    for ops, obs in real:
        case = "life " + ops
        toks = ops.split(",")
        r.count(case, "D" in toks or "2D" in toks or any(t.startswith("2") for t in toks))
        r.hist["life"]["with-drop" if ("D" in toks or "2D" in toks) else "no-drop"] += 1
        if ops not in pred:
            r.broken.append(f"no model prediction for {case}")
        elif pred[ops] != obs:
            r.model_disagreement(case, obs, pred[ops])
        if obs.startswith("panic:"):
            r.oracle_failure(case, "panic in the real code: " + obs, "life:panic")
            continue
        for what, site in life_oracle(ops, obs):
            r.oracle_failure(case, what, site)
    r.extra["life_sequences"] = len(real)


def run(r):
    r.rule = ("schedules = sequences of scheduling decisions (which thread runs from its yield point to its next one) enumerated by the "
              "Lean model over its enabled threads: ALL schedules (or, above a cap, a seeded sample) for 1-2 acquires x 0-2 requests (plain, and with one special acquire = every "
              "combination of {freshness callback true} x {creator returns Err} x {creator script: none, request, two requests, switch fast on, switch fast on + request}, plus a PANICKING creator with/without callback and inner request), and for 3 acquires (one special, every position) x 0-1 requests with eager return; extra threads for the rest of the Notifier API: set_fast_reload(true/false) toggled between acquires with a request pending, set_callback(|| b) replacing the freshness callback, request_reload through the notifier clone the creator kept; the same small boxes with no callback registered at all (g0/g1); three acquirers with one failing creator and two requests; mutual-exclusion pokes at every yield point; sequential probes for dead notifiers, mutex blocking and contention on the notifier mutex, with fast "
              "reload off/on; quick adds a seeded sample over the 3x3 box, thorough adds ALL eager-return schedules of every 3x(0..3) "
              "configuration and a larger sample at full granularity.  A schedule is non-trivial when at least one request returned "
              "before an acquire locked (an obligation of the property exists).  Besides the schedules: op sequences on the template store behind fast reload "
              "(directed product of name state x earlier use x loader answer x clear x lookup kind, plus seeded random sequences; non-trivial when a loader is set and a clear occurs) and "
              "op sequences over the lifetime of two reloaders (every notifier entry point before / after the drop, on either reloader, requests issued from inside one reloader's creator on the other, EVERY sequence of up to 5 acquires / requests over the two reloaders, plus seeded random ones; non-trivial when a drop or the second reloader occurs).")
    r.assumptions = ["between two hook points a thread's step is not interleaved with other threads' steps in a way the lock structure does not already serialise (each segment contains at most one critical section on shared data besides the held cached_env mutex)",
                     "symmetric threads (identical requesters / identically configured acquirers) are scheduled in index order; for the 3x3 box request_reload returns right after setting the flag (the return step touches no shared state)",
                     "std::sync::Mutex provides mutual exclusion"]
    r.regen_tables(["RELOADER_ACCESSES", "C20_FS_EVENT_FILTER", "C20_WATCHER_DROP_COND", "C20_LOADER_STORE", "C20_HANDLE_SITES"])
    r.lean_prove("MJ.Props.C20", "MJ/Audit/C20.lean", extra_targets=["drive_c20"])
    exe = r.cargo_build("c20")
    if exe is None:
        return
    rc, cfgs, err = r.harness(exe, ["gen", r.tier])
    if rc != 0:
        r.broken.append(f"harness c20 gen exited {rc}: {err[-300:]}")
        return
    corpus = os.path.join(VERIF, "corpus", "C20", "cases.txt")
    pre = ""
    if os.path.exists(corpus):
        for line in open(corpus):
            f = line.split()
            if len(f) == 2 and not line.startswith("#"):
                pre += f"{f[0]} one {f[1]}\n"
    r.extra["corpus_cases"] = pre.count("\n")
    model = r.driver("drive_c20", pre + cfgs)
    if model is None:
        return
    # the watch-fs test runs next to the schedule replay
    t0 = time.time()
    wctx = wfs_prepare(r)
    import threading
    wthread = threading.Thread(target=wfs_run, args=(wctx,))
    wthread.start()
    r.extra["configurations"] = len(cfgs.splitlines())
    r.log(f"{len(cfgs.splitlines())} configurations, {len(model)} schedules from the model")
    mtext = "\n".join(model) + "\n"
    real, bad = run_parallel(exe, mtext, r.seed, r.tier)
    for b in bad:
        r.broken.append(b)
    # a step time-out can be caused by machine load: re-run (a few of) those schedules alone with a long time-out
    retried = 0
    timed_out = sorted(k for k, obs in real.items() if obs.startswith("bad:timeout"))
    # few time-outs = load (retry them all, alone); many = systematic divergence (retry a handful).
    # A retry that times out again with the long time-out is systematic: after 3 of those stop retrying
    # (each costs the long time-out; the first results stand and are reported as they are)
    still = 0
    for (cfg, sched) in (timed_out if len(timed_out) <= 60 else timed_out[:5]):
        if still >= 3:
            break
        retried += 1
        rc, out, err = r.harness(exe, ["one", cfg, sched], env={"C20_TIMEOUT_MS": "20000"})
        f = out.strip().split("\t")
        if len(f) == 3:
            real[(cfg, sched)] = f[2]
            if f[2].startswith("bad:timeout"):
                still += 1
    r.extra["timeouts_retried"] = retried
    # all-schedules configurations are exhaustive at their granularity; the 3x3 box is sampled in quick
    r.exhaustive = False
    n_all = 0
    for line in model:
        cfg, sched, pred = line.split("\t")
        if pred.startswith("bad:"):
            r.broken.append(f"model could not run {cfg} {sched}: {pred}")
            continue
        case = f"{cfg} {sched}"
        obs = real.get((cfg, sched))
        if obs is None:
            r.broken.append(f"no result from the real code for {case}")
            continue
        if obs != pred:
            r.model_disagreement(case, obs, pred)
        fails, obligations = oracle(cfg, sched, obs)
        r.count(case, obligations > 0)
        n_all += 1
        _, _, ths = parse_cfg(cfg)
        r.hist["shape"][f"{sum(1 for t in ths if t[0]=='A')}acq x {sum(1 for t in ths if t[0]=='R')}req"] += 1
        for t in ths:
            if t[0] != "A":
                r.hist["other_threads"][{"R": "request_reload" if t[1] == "R" else "request_reload via kept clone", "F": f"set_fast_reload({t[1]})", "C": f"set_callback(|| {t[1]})"}[t[0]]] += 1
        r.hist["fast"][cfg.split(".")[0]] += 1
        r.hist["granularity"]["eager-return" if cfg.split(".")[1] == "e1" else "full"] += 1
        r.hist["obligations"][min(obligations, 9)] += 1
        r.hist["creator_calls"][parse_obs(obs).get("C", "?")] += 1
        for t in ths:
            if t[0] == "A":
                r.hist["acquire_kind"][("cb " if t[1] else "") + ("panics " if t[4] else "fails " if t[2] else "") + ("script:" + t[3] if t[3] else "plain" if not (t[1] or t[2]) else "")] += 1
        for what, site in fails:
            r.oracle_failure(case, what, site)
        if n_all % 3001 == 1:
            r.sample({"case": case, "real": obs, "model": pred, "obligations": obligations})
    run_store(r, exe)
    run_life(r, exe)
    # ---- mutual exclusion at every yield point of acquire_env: a second acquirer that the model says is
    #      blocked is released from BeforeLock and must not get anywhere while the holder stands still
    pokes = choose_pokes(model)
    ptext = "".join(f"{cfg}\t{pre}\tpoke={t}\n" for cfg, pre, t in pokes)
    pres, bad = run_parallel(exe, ptext, r.seed, r.tier, per_proc=6) if pokes else ({}, [])
    for b in bad:
        r.broken.append(b)
    for cfg, pre, t in pokes:
        case = f"{cfg} {pre}!{t}"
        obs = pres.get((cfg, f"{pre}!{t}"))
        if obs is None:
            r.broken.append(f"no result from the real code for poke {case}")
            continue
        d = parse_obs(obs)
        point = d.get("P", "").split(",")[-1]
        r.count("poke " + case, True)
        r.hist["poke_holder_at"][point] += 1
        if obs.startswith("bad:"):
            r.broken.append(f"poke {case}: {obs[:120]}")
        elif d.get("K") != "blocked":
            r.hist["poke"]["not-blocked"] += 1
            r.oracle_failure(case, f"a second acquire_env was released while thread {pre[-1]} stood at yield point {point} inside acquire_env "
                             f"and it got to {d.get('K')}: the cached_env mutex does not cover that point (the model says it is blocked: acquirers_blocked)",
                             f"mutex:acquirer-not-blocked@{point}")
        else:
            r.hist["poke"]["blocked"] += 1
    r.extra["pokes"] = len(pokes)
    # mutex-level probes
    rc, out, err = r.harness(exe, ["probe"])
    for line in out.splitlines():
        f = line.split("\t")
        if len(f) >= 3 and f[0] == "info":
            r.extra.setdefault("info", []).append(" ".join(f[1:]))
        if len(f) >= 4 and f[0] == "probe":
            r.count("probe " + f[1], True)
            r.hist["probe"][f[2]] += 1
            if f[2] != "ok":
                r.oracle_failure("probe " + f[1], f"mutex-level probe failed: {f[3]}", "probe:" + f[1])
    if rc != 0 or not out.strip():
        r.broken.append(f"probe run failed rc={rc} {err[-200:]}")
    wthread.join()
    wfs_finish(r, wctx)
    r.extra["watch_fs_test_wall_s"] = round(time.time() - t0, 2)


def replay(r, path):
    d = json.load(open(path))
    exe = r.cargo_build("c20")
    cases = [d.get("case")] + d.get("more_cases", [])
    cases += [x["case"] for x in d.get("correspondence_disagreements", [])]
    for case in cases:
        if not case:
            continue
        if case.startswith("life "):
            ops = case.split(" ", 1)[1]
            rc, out, err = r.harness(exe, ["life", "one", ops])
            obs = out.strip().split("\t")[-1]
            model = r.driver("drive_c20", f"life {ops}\n")
            print("real :", obs)
            print("model:", model[0].split("\t")[-1] if model else None)
            for what, site in life_oracle(ops, obs):
                print("oracle:", site, "-", what)
            continue
        if case.startswith("store "):
            ops = case.split(" ", 1)[1]
            rc, out, err = r.harness(exe, ["store", "one", ops])
            obs = out.strip().split("\t")[-1]
            model = r.driver("drive_c20", f"store {ops}\n")
            print("real :", obs)
            print("model:", model[0].split("\t")[-1] if model else None)
            for what in store_oracle(ops, obs):
                print("oracle: fast-reload:clear:stale-lookup -", what)
            continue
        if case.startswith("probe"):
            rc, out, err = r.harness(exe, ["probe"])
            print(out)
            continue
        cfg, sched = case.split()
        if "!" in sched:
            pre, t = sched.split("!")
            rc, out, err = r.harness(exe, ["run"], f"{cfg}\t{pre}\tpoke={t}\n")
            print("real :", out.strip())
            continue
        rc, out, err = r.harness(exe, ["one", cfg, sched])
        model = r.driver("drive_c20", f"{cfg} one {sched}\n")
        obs = out.strip().split("\t")[-1]
        print("real :", obs)
        print("model:", model[0].split("\t")[-1] if model else None)
        for what, site in oracle(cfg, sched, obs)[0]:
            print("oracle:", site, "-", what)
    return 0
