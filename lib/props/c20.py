"""C20 — the auto-reloader never loses a reload request (DESIGN.md §3 C20)."""
import json, os, subprocess, collections, time
from common import ENV, VERIF, REPO, BUILD, sh

READY = True

META = {
    "technique": "Lean 4 proof (inductive invariant over all reachable states of a lock-granularity transition system of AutoReloader/Notifier, any number of threads) + schedules enumerated from the model and replayed on the real AutoReloader with a deterministic scheduler over real threads (verif_hooks yield points)",
    "category": "proof",
    "text": "Kernel-checked theorems over every reachable state of the reloader protocol model (any number of acquiring, requesting and fast-reload-switching threads, any interleaving of the atomic steps, creator callbacks that issue requests / switch fast reload / fail, freshness callback): a request that returned before an acquire locked is served by the environment that acquire hands out (creator started or templates cleared after the flag was set); no step replaces, rebuilds or clears the environment while a guard is held; every creator call or clear is caused by its own observation and the flag is observed true at most once per request; a request arriving while the creator runs keeps the flag up and the next acquire rebuilds. The model is tied to /repo by replaying model-enumerated schedules (all interleavings at the hook points for the small boxes, eager-return-reduced or sampled for 3x3) on the real code and comparing the whole observation (arrival point of every step, generation and loader-call number seen through every guard, creator calls with their step), plus the property itself evaluated on the observed history.",
    "design_ref": "DESIGN.md §3 C20",
    "level_note": "Trusted: Lean kernel; hand transcription of acquire_env/request_reload/should_reload/prepare_and_mark_reload/keep_reload_pending/set_fast_reload/set_callback into MJ/Model/Reloader.lean, tied three ways: (a) the per-function sequence of shared accesses (locks, flag/fast/callback reads and writes, creator, clear, hand-out) is re-extracted from lib.rs on every run and proved equal to the sequence the model's steps assume (MJ.C20.accesses_as_modelled; regex extractor lib/tables/c20.py is trusted), so a new access anywhere breaks the tie even where no hook sits; (b) schedule replay at hook granularity (every notifier-lock acquisition of acquire_env except the re-arm after a failed creator is preceded by a hook); (c) the property evaluated on the observed history. The fs-watcher closure is proved to perform request_reload's critical sections (fs_callback_is_request); its event filter (the matches! pattern) is re-extracted on every run, evaluated on every concrete EventKind of the vendored notify-types crate and proved to accept every kind that denotes a change of file content or of the set of files, for every RenameMode (every_namespace_change_event_requests, all_rename_modes_request), and to reject access/metadata events; in both tiers a scratch crate with the real watch-fs feature drives real file changes (write, create, delete, rename inside / out of / into the tree, directory rename, directory moved out, atomic save, move of the watched root; touch reported only) x {full, fast, persistent} and requires a notification and an environment that reflects the disk at the next acquire (skipped, and said so, if the sandbox delivers no inotify events). The watcher's LIFETIME is modelled (watching / persistent / registered; prepare drops it per dropWatcher, creator or an outside thread re-registers): the drop condition's truth table is re-extracted and proved equal to the model's (drop_cond_as_modelled, watcher_kept_if_fast_or_persistent), watcher_alive_whenever_needed holds in every reachable state, and the real test runs SEQUENCES (request_reload + 3 successive file changes, an acquire after each) for {full, fast, persistent, fast+persistent} x {registered in the creator, once from outside}. A genuine race found this way (set_fast_reload(true) from another thread between the drop decision and the create-or-clear decision left the paths unwatched) was repaired in fix 5725511 (the decision is taken once); the model carries the decided value (fastSeen), no_clear_after_drop / dropped_then_creator_runs prove that an acquire that threw the watcher away always runs the creator under every interleaving, and the real scenario is replayed through the AfterReset hook on every run. A PANICKING creator is a third creator outcome in model, replay and oracle: the panic propagates out of acquire_env without re-arming the flag and poisons the cached_env mutex, every later acquire_env panics on lock().unwrap() (theorem panic_never_serves_stale: no guard is handed out after a creator panic; the example next to it shows that a lock() that recovers from the poison would hand out the stale environment; the table item records how every lock() result is consumed). That the reloader is unusable after a creator panic is outside C20's statement and only recorded (coverage.info). Not covered: in full-reload mode without persistent_watch the fs watcher is dropped before the creator runs and only exists again once the creator calls watch_path, so file changes in that window produce no notification at all (the creator must register before it reads).",
}

NPROC = 8


def parse_cfg(cfg):
    parts = cfg.split(".")
    ths = []
    for t in parts[2:]:
        if t in ("R", "K"):
            ths.append(("R", t))
        elif t in ("F0", "F1"):
            ths.append(("F", t == "F1"))
        elif t in ("C0", "C1"):
            ths.append(("C", t == "C1"))
        else:
            ths.append(("A", t[2] == "1", t[4] in "12", t[5:].replace("-", ""), t[4] == "2"))
    return parts[0] == "f1", parts[1] == "e1", ths


def parse_obs(obs):
    d = {}
    for part in obs.split("|"):
        if "=" in part:
            k, v = part.split("=", 1)
            d[k] = v
    return d


def oracle(cfg, sched, obs):
    """the property, evaluated on the history observed from the REAL code.
    returns (list of (what, site), number of request/acquire obligations checked)"""
    fails = []
    fast0, _eager, ths = parse_cfg(cfg)
    d = parse_obs(obs)
    if obs.startswith("bad:"):
        # a thread did not arrive (blocked / stuck): no complete history to judge; this is a
        # correspondence break (reported through the model comparison), not an oracle verdict
        return [], 0
    P = d.get("P", "").split(",") if d.get("P") else []
    steps = [int(c) for c in sched + d.get("X", "")]
    if len(P) != len(steps):
        return [("trace length differs from schedule", "trace")], 0
    # ---- reconstruct events from the observed arrival points
    per_thread = collections.defaultdict(list)     # thread -> [(step, arrival)]
    for k, (t, p) in enumerate(zip(steps, P)):
        if p != "X":
            per_thread[t].append((k, p))
    sets = []                                      # (set_step, ret_step, by)
    acqs = {}                                      # thread -> dict
    const_cb = []                                  # (step, answer) of set_callback(|| b) threads
    fast_sets = []
    for t, evs in per_thread.items():
        if ths[t][0] == "C":
            const_cb.append((evs[0][0], ths[t][1]))
            continue
        if ths[t][0] == "F":
            fast_sets.append((evs[0][0], ths[t][1]))
            continue
        if ths[t][0] == "R":
            ks = [k for k, p in evs if p == "T"]
            kr = [k for k, p in evs if p == "D"]
            if ks:
                sets.append((ks[0], kr[0] if kr else 10**9, t))
            elif kr:
                # request_reload returned without ever reaching the flag (no AfterSet arrival): it
                # still is a request that has returned
                sets.append((kr[0], kr[0], t))
        else:
            a = {"lock": evs[0][0], "check": None, "reset": None, "hand": None, "clear_step": None, "leftB": None}
            for j, (k, p) in enumerate(evs):
                if p == "K":
                    a["check"] = k
                if p == "T":
                    nxt = evs[j + 1][0] if j + 1 < len(evs) else 10**9
                    sets.append((k, nxt, t))
                if p == "Z":
                    a["reset"] = k
                    if j + 1 < len(evs) and evs[j + 1][1] == "H":
                        a["clear_step"] = evs[j + 1][0]     # Z -> H without the creator: the clear path
                if p == "B" and j + 1 < len(evs):
                    a["leftB"] = evs[j + 1][0]
                if p == "H":
                    a["hand"] = k
            acqs[t] = a
    builds = {}                                    # gen -> (step, failed)
    if d.get("G"):
        for b in d["G"].split(","):
            g, k = b.split("@")
            builds[int(g)] = (int(k.rstrip("fp")), k.endswith("f") or k.endswith("p"))
    got = {}
    for item in (d.get("A") or "").split(","):
        if not item:
            continue
        t, v = item.split(":", 1)
        got[int(t)] = v
    # ---- guard_excludes_replace
    for t, v in got.items():
        if "!changed" in v:
            fails.append((f"acquire {t}: environment changed while its guard was held ({v})", "guard:replaced-under-guard"))
    if d.get("N"):
        for note in d["N"].split(";"):
            if note.startswith("panic"):
                fails.append((f"panic in the real code: {note}", "panic"))
    # ---- freshness of what each acquire handed out
    order = sorted((a["hand"], t) for t, a in acqs.items() if a["hand"] is not None)
    seen_loads, seen_gens, clear_at, fresh = 0, set(), {}, {}
    for k_h, t in order:
        v = got.get(t, "")
        if "!" in v:
            v = v.split("!")[0]
        if not v.startswith("g") or "l" not in v:
            fails.append((f"acquire {t} returned a guard but no environment was observed ({v})", "observe"))
            continue
        g, l = int(v[1:v.index("l")]), int(v[v.index("l") + 1:])
        if g not in builds or builds[g][1]:
            fails.append((f"acquire {t} handed out generation {g} that no successful creator call produced", "observe"))
            continue
        if l > seen_loads:
            if g in seen_gens:
                # template cache observed empty again: cleared inside this acquire
                clear_at[g] = acqs[t]["clear_step"] if acqs[t]["clear_step"] is not None else k_h
            seen_loads = l
        seen_gens.add(g)
        fresh[t] = max(builds[g][0], clear_at.get(g, -1))
    # ---- no_lost_request
    obligations = 0
    for (ks, kr, by) in sets:
        for t, a in acqs.items():
            if a["hand"] is None or a["lock"] <= kr or t not in fresh:
                continue
            obligations += 1
            if not fresh[t] > ks:
                after_fail = any(bf and ks < bk < a["lock"] for (bk, bf) in builds.values())
                kind = "after-failed-creator" if after_fail else ("inner" if ths[by][0] == "A" else "plain")
                fails.append((f"request set at step {ks} (returned at {kr}) by thread {by} was lost: acquire {t} locked at step "
                              f"{a['lock']} and handed out {got.get(t)} which was built/cleared at step {fresh[t]}",
                              f"lost-request:{kind}"))
    # ---- no_spurious_create: every reload decision is justified
    def cb_answer(t):
        """what the freshness callback answers when polled by acquire t: the latest set_callback(|| b)
        before its check, else the initial callback (answers the acquire's own configuration)"""
        chk = acqs[t]["check"] if acqs[t]["check"] is not None else 10**9
        prior = [(k, b) for (k, b) in const_cb if k < chk]
        return max(prior)[1] if prior else ths[t][1]
    resets = sorted((a["reset"], t) for t, a in acqs.items() if a["reset"] is not None)
    prev_reset, prev_failed = -1, False
    have_env_before = lambda k: any((bk < k and not bf) for (bk, bf) in builds.values())
    for k_z, t in resets:
        a = acqs[t]
        justified = (not have_env_before(a["lock"])) or cb_answer(t) or prev_failed or \
            any(prev_reset < ks < k_z for (ks, _, _) in sets)
        if not justified:
            fails.append((f"acquire {t} decided to reload at step {a['lock']} although no request was made since the last reload "
                          f"and the freshness callback was not true", "spurious-reload"))
        prev_reset = k_z
        prev_failed = a["leftB"] is not None and any(bf and bk == a["leftB"] for (bk, bf) in builds.values())
    n_cre = int(d.get("C", "0"))
    n_passB = sum(1 for a in acqs.values() if a["leftB"] is not None)
    if n_cre != n_passB or n_cre != len(builds):
        fails.append((f"{n_cre} creator calls but {n_passB} acquires went past BeforeCreate", "spurious-create"))
    bound = 1 + sum(1 for (_, f) in builds.values() if f) + len(sets) + sum(1 for t in acqs if cb_answer(t))
    if n_cre > bound:
        fails.append((f"{n_cre} creator calls > 1 + failures + requests + callback answers = {bound}", "spurious-create"))
    # ---- environment identity: what a guard shows is the product of the latest successful creator
    #      call (full reload = a new object, fast reload / no reload = the same object)
    for k_h, t in order:
        v = got.get(t, "").split("!")[0]
        if not (v.startswith("g") and "l" in v):
            continue
        g = int(v[1:v.index("l")])
        done = [gg for gg, (bk, bf) in builds.items() if not bf and bk < k_h]
        if done and g != max(done):
            fails.append((f"acquire {t} handed out generation {g} but the latest successful creator call before its hand-out produced {max(done)}",
                          "identity:stale-object"))
        if acqs[t]["clear_step"] is not None and any(bk == acqs[t]["clear_step"] for (bk, _) in builds.values()):
            fails.append((f"acquire {t} took the clear path but a creator call was observed in it", "identity:clear-path-created"))
    # documented: with fast reload enabled the creator is only called once (as long as it succeeds and nobody switches it off)
    scripts = "".join(x[3] for x in ths if x[0] == "A")
    if fast0 and "u" not in scripts and not any(x[0] == "F" and not x[1] for x in ths):
        for gg, (bk, bf) in builds.items():
            if have_env_before(bk):
                fails.append((f"fast reload is on but creator call {gg} (step {bk}) replaced an existing environment", "fast-reload:creator-called-again"))
    # on_should_reload callback: once per request_reload, plus once per callback-triggered reload
    if "O" in d:
        o = int(d["O"])
        returned = sum(1 for (_, kr, _) in sets if kr < 10**9)
        if not (returned <= o <= returned + len(resets)):
            fails.append((f"on_should_reload callback invoked {o} times for {returned} requests and {len(resets)} reloads", "on-should-reload-count"))
    return fails, obligations


def run_parallel(exe, text, seed, tier):
    lines = text.splitlines()
    n = max(1, min(NPROC if tier != "thorough" else 12, len(lines) // 200 + 1))
    chunks = [lines[i::n] for i in range(n)]
    e = dict(ENV); e["VERIF_SEED"] = str(seed); e["VERIF_TIER"] = tier
    procs = []
    for ch in chunks:
        p = subprocess.Popen([exe, "run"], stdin=subprocess.PIPE, stdout=subprocess.PIPE, stderr=subprocess.PIPE, text=True, env=e)
        procs.append((p, ch))
    import threading
    outs = [None] * n
    def feed(i, p, ch):
        outs[i] = p.communicate("\n".join(ch) + "\n")
    ths = [threading.Thread(target=feed, args=(i, p, ch)) for i, (p, ch) in enumerate(procs)]
    for t in ths: t.start()
    for t in ths: t.join()
    res = {}
    bad = []
    for i, (p, ch) in enumerate(procs):
        if p.returncode != 0:
            bad.append(f"harness worker exited {p.returncode}: {outs[i][1][-200:]}")
        for line in outs[i][0].splitlines():
            f = line.split("\t")
            if len(f) == 3:
                res[(f[0], f[1])] = f[2]
    return res, bad


def wfs_smoke(r):
    """the real watch-fs feature (notify) with real file changes in a temp dir.
    Built as a scratch crate under .build/ (needs `notify`, which harness/Cargo.toml does not have)."""
    d = os.path.join(BUILD, "c20_wfs")
    os.makedirs(os.path.join(d, "src"), exist_ok=True)
    with open(os.path.join(d, "Cargo.toml"), "w") as fh:
        fh.write('[package]\nname = "c20_wfs"\nversion = "0.1.0"\nedition = "2021"\n[workspace]\n[dependencies]\n'
                 f'minijinja = {{ path = "{REPO}/minijinja" }}\n'
                 f'minijinja-autoreload = {{ path = "{REPO}/minijinja-autoreload", features = ["verif_hooks"] }}\n'
                 'notify = { version = ">=5.0.0,<9.0.0", default-features = false, features = ["macos_fsevent"] }\n')
    import shutil
    shutil.copy(os.path.join(VERIF, "lib", "props", "c20_wfs", "main.rs"), os.path.join(d, "src", "main.rs"))
    shutil.copy(os.path.join(REPO, "Cargo.lock"), os.path.join(d, "Cargo.lock"))
    env = dict(ENV); env["CARGO_TARGET_DIR"] = os.path.join(BUILD, "cargo-c20wfs")
    rc, out, err = sh(["cargo", "build", "--offline"], cwd=d, timeout=900, env=env)
    if rc != 0:
        r.extra["watch_fs_smoke"] = "scratch crate does not build: " + " | ".join(l for l in err.splitlines() if l.startswith("error"))[:300]
        r.broken.append("watch-fs smoke test does not build against /repo's current tree")
        return
    rc, out, err = sh([os.path.join(env["CARGO_TARGET_DIR"], "debug", "c20_wfs")], timeout=600, env=env)
    res = []
    for line in out.splitlines():
        f = line.split("\t")
        if len(f) >= 4 and f[0] == "wfs":
            res.append(" ".join(f[1:]))
            r.hist["watch_fs_smoke"][f[2]] += 1
            if f[2] == "FAIL":
                r.oracle_failure("wfs " + f[1], "watch-fs smoke test: " + f[3], "watch-fs:" + f[1])
            elif f[2] in ("ok", "info"):
                r.count("wfs " + f[1], f[2] == "ok")
    if rc != 0 or not res:
        r.broken.append(f"watch-fs smoke test crashed rc={rc}: {err[-200:]}")
    r.extra["watch_fs_smoke"] = res


def run(r):
    r.rule = ("schedules = sequences of scheduling decisions (which thread runs from its yield point to its next one) enumerated by the "
              "Lean model over its enabled threads: ALL schedules (or, above a cap, a seeded sample) for 1-2 acquires x 0-2 requests (plain, and with one special acquire = every "
              "combination of {freshness callback true} x {creator returns Err} x {creator script: none, request, two requests, switch fast on, switch fast on + request}, plus a PANICKING creator with/without callback and inner request), and for 3 acquires (one special, every position) x 0-1 requests with eager return; extra threads for the rest of the Notifier API: set_fast_reload(true/false) toggled between acquires with a request pending, set_callback(|| b) replacing the freshness callback, request_reload through the notifier clone the creator kept; sequential probes for dead notifiers and mutex blocking, with fast "
              "reload off/on; quick adds a seeded sample over the 3x3 box, thorough adds ALL eager-return schedules of every 3x(0..3) "
              "configuration and a larger sample at full granularity.  A schedule is non-trivial when at least one request returned "
              "before an acquire locked (an obligation of the property exists).")
    r.assumptions = ["between two hook points a thread's step is not interleaved with other threads' steps in a way the lock structure does not already serialise (each segment contains at most one critical section on shared data besides the held cached_env mutex)",
                     "symmetric threads (identical requesters / identically configured acquirers) are scheduled in index order; for the 3x3 box request_reload returns right after setting the flag (the return step touches no shared state)",
                     "std::sync::Mutex provides mutual exclusion"]
    r.regen_tables(["RELOADER_ACCESSES"])
    r.lean_prove("MJ.Props.C20", "MJ/Audit/C20.lean", extra_targets=["drive_c20"])
    exe = r.cargo_build("c20")
    if exe is None:
        return
    rc, cfgs, err = r.harness(exe, ["gen", r.tier])
    if rc != 0:
        r.broken.append(f"harness c20 gen exited {rc}: {err[-300:]}")
        return
    corpus = os.path.join(VERIF, "corpus", "C20", "cases.txt")
    pre = ""
    if os.path.exists(corpus):
        for line in open(corpus):
            f = line.split()
            if len(f) == 2 and not line.startswith("#"):
                pre += f"{f[0]} one {f[1]}\n"
    r.extra["corpus_cases"] = pre.count("\n")
    model = r.driver("drive_c20", pre + cfgs)
    if model is None:
        return
    r.extra["configurations"] = len(cfgs.splitlines())
    r.log(f"{len(cfgs.splitlines())} configurations, {len(model)} schedules from the model")
    mtext = "\n".join(model) + "\n"
    real, bad = run_parallel(exe, mtext, r.seed, r.tier)
    for b in bad:
        r.broken.append(b)
    # a step time-out can be caused by machine load: re-run (a few of) those schedules alone with a long time-out
    retried = 0
    timed_out = sorted(k for k, obs in real.items() if obs.startswith("bad:timeout"))
    # few time-outs = load (retry them all, alone); many = systematic divergence (retry a handful)
    for (cfg, sched) in (timed_out if len(timed_out) <= 60 else timed_out[:5]):
        obs = real[(cfg, sched)]
        if True:
            retried += 1
            rc, out, err = r.harness(exe, ["one", cfg, sched], env={"C20_TIMEOUT_MS": "20000"})
            f = out.strip().split("\t")
            if len(f) == 3:
                real[(cfg, sched)] = f[2]
    r.extra["timeouts_retried"] = retried
    # all-schedules configurations are exhaustive at their granularity; the 3x3 box is sampled in quick
    r.exhaustive = False
    n_all = 0
    for line in model:
        cfg, sched, pred = line.split("\t")
        if pred.startswith("bad:"):
            r.broken.append(f"model could not run {cfg} {sched}: {pred}")
            continue
        case = f"{cfg} {sched}"
        obs = real.get((cfg, sched))
        if obs is None:
            r.broken.append(f"no result from the real code for {case}")
            continue
        if obs != pred:
            r.model_disagreement(case, obs, pred)
        fails, obligations = oracle(cfg, sched, obs)
        r.count(case, obligations > 0)
        n_all += 1
        _, _, ths = parse_cfg(cfg)
        r.hist["shape"][f"{sum(1 for t in ths if t[0]=='A')}acq x {sum(1 for t in ths if t[0]=='R')}req"] += 1
        for t in ths:
            if t[0] != "A":
                r.hist["other_threads"][{"R": "request_reload" if t[1] == "R" else "request_reload via kept clone", "F": f"set_fast_reload({t[1]})", "C": f"set_callback(|| {t[1]})"}[t[0]]] += 1
        r.hist["fast"][cfg.split(".")[0]] += 1
        r.hist["granularity"]["eager-return" if cfg.split(".")[1] == "e1" else "full"] += 1
        r.hist["obligations"][min(obligations, 9)] += 1
        r.hist["creator_calls"][parse_obs(obs).get("C", "?")] += 1
        for t in ths:
            if t[0] == "A":
                r.hist["acquire_kind"][("cb " if t[1] else "") + ("panics " if t[4] else "fails " if t[2] else "") + ("script:" + t[3] if t[3] else "plain" if not (t[1] or t[2]) else "")] += 1
        for what, site in fails:
            r.oracle_failure(case, what, site)
        if n_all % 3001 == 1:
            r.sample({"case": case, "real": obs, "model": pred, "obligations": obligations})
    # mutex-level probes
    rc, out, err = r.harness(exe, ["probe"])
    for line in out.splitlines():
        f = line.split("\t")
        if len(f) >= 3 and f[0] == "info":
            r.extra.setdefault("info", []).append(" ".join(f[1:]))
        if len(f) >= 4 and f[0] == "probe":
            r.count("probe " + f[1], True)
            r.hist["probe"][f[2]] += 1
            if f[2] != "ok":
                r.oracle_failure("probe " + f[1], f"mutex-level probe failed: {f[3]}", "probe:" + f[1])
    if rc != 0 or not out.strip():
        r.broken.append(f"probe run failed rc={rc} {err[-200:]}")
    t0 = time.time()
    wfs_smoke(r)
    r.extra["watch_fs_test_wall_s"] = round(time.time() - t0, 2)


def replay(r, path):
    d = json.load(open(path))
    exe = r.cargo_build("c20")
    cases = [d.get("case")] + d.get("more_cases", [])
    cases += [x["case"] for x in d.get("correspondence_disagreements", [])]
    for case in cases:
        if not case:
            continue
        if case.startswith("probe"):
            rc, out, err = r.harness(exe, ["probe"])
            print(out)
            continue
        cfg, sched = case.split()
        rc, out, err = r.harness(exe, ["one", cfg, sched])
        model = r.driver("drive_c20", f"{cfg} one {sched}\n")
        obs = out.strip().split("\t")[-1]
        print("real :", obs)
        print("model:", model[0].split("\t")[-1] if model else None)
        for what, site in oracle(cfg, sched, obs)[0]:
            print("oracle:", site, "-", what)
    return 0
