"""C13 — fuel gives every render a fixed, exact success threshold (DESIGN.md §3 C13)."""
import json, collections, os, re

READY = True

META = {
    "technique": "Lean 4 proof (generic interpreter loop around the fuel tracker: non-interference, call trees with a tracker policy per "
                 "nested activation, structured programs with loops and conditionals whose trace and cost are functions of the data, nested-evaluation "
                 "edges with the callee's trace as a parameter, every u64 budget) + total "
                 "cost table, tracker/State creation sites, nested-evaluation functions, tracker-use list, track site and output/fetch/evaluation sites regenerated "
                 "from the sources + differential runs on real instruction traces",
    "category": "proof",
    "text": "Kernel-checked theorems. (1) Trace level: model of FuelTracker::{new,track,remaining,consumed}; for every executed "
            "instruction trace and every budget B < 2^64 there is one threshold thr(trace) (0 if nothing is charged, total cost + 1 "
            "otherwise): B >= thr dispatches exactly the unlimited run and consumes exactly total(trace), B < thr ends out of fuel "
            "after a proper prefix; consumed + remaining = B at every point and after every outcome; consumption does not depend on "
            "the budget. (2) Machine level: for EVERY machine (arbitrary state, arbitrary fetch/dispatch functions that do not "
            "receive the tracker) interleaved with the tracker like eval_impl (track before dispatch, error aborts) and every "
            "terminating unlimited run (normal end or a dispatch error e): the limited run's instructions and states are a prefix of "
            "the unlimited run's, all of them iff B >= thr; at or above thr the result is the same final state or the SAME error e, "
            "below thr it is out-of-fuel (fuel_does_not_steer, machine_threshold_exact). (3) Nesting: interpreter activations that "
            "start nested activations sharing the tracker (macro, include, block, super, render_block/call_macro) are modelled as "
            "call trees of arbitrary depth; running over the tree = running over its flattened trace (call_tree_flattens), and the "
            "nested machine has the threshold of the flattened tree (nested_threshold_exact). one_tracker_per_render: call trees "
            "whose nested activations carry a policy (share the caller's tracker / run on a fresh one / restore the caller's level "
            "afterwards) account like the flattened trace when every activation shares; second_tracker_breaks_accumulation: one "
            "fresh or restoring activation makes a budget below the threshold succeed and the reported consumption too small. That "
            "every activation shares is tied to the sources by tracker_sites_as_modelled (regenerated table of every State / "
            "FuelTracker struct literal, State::new / new_for_env / vm::eval / Executor::eval call, FuelTracker::new, every "
            "assignment, method call, mutable borrow, mem::replace/take/swap of fuel_tracker, every overwrite of a whole State and "
            "the derives/Clone/Copy/Default impls of both types: the only constructor of a State is State::new, its only callers are "
            "the documented roots Executor::eval (a render / expression evaluation), Template::new_state and State::new_for_env <- "
            "Environment::empty_state, the only FuelTracker::new is in State::new, the only other touch is the mutable borrow in "
            "eval_impl, neither type can be cloned) and nested_evaluations_share_state (the 22 functions through which a nested "
            "evaluation is entered — State::{render_block, render_block_to_write, call_macro, apply_filter, perform_test, format, "
            "with_execution_state, with_auto_escape}, Captured::with_state_mut, vm::{call_block, eval_macro}, Executor::{eval_macro, "
            "eval_state, do_eval, eval_impl, perform_include, perform_super, call_block}, Macro::call, Value::{call, call_method}, "
            "Environment::format — take the State by &mut, contain no creation, render or tracker token, and reach the single "
            "charge site eval_impl). (4) out_of_fuel_is_sticky: after an "
            "out-of-fuel the tank is and stays empty, so after a Rust callback swallowed the error every later charged instruction "
            "is refused again; zero_budget_refuses. (5) cost_table_total: the Instruction enum (every variant with its #[cfg]) and "
            "the arms of fuel_for_instruction (with their #[cfg]s) are regenerated; under each of the 4 feature sets over {macros, "
            "multi_template} every arm that is compiled names a variant that exists, every variant has exactly one row, every cost is "
            "0 or 1, the cost of a variant is the same in every configuration in which it exists and equals the model's costOf; "
            "cost_at_most_one (thr <= length of the trace + 1). Further source ties proved by decide against regenerated tables: "
            "uses_as_modelled (every occurrence of fuel_tracker / FuelTracker / fuel_levels / .track( / "
            ".remaining() / .consumed() / .fuel() / set_fuel / State::new( in minijinja/src and minijinja-contrib/src outside "
            "vm/fuel.rs is one of: Environment configuration, State::new creating it from env.fuel(), the single borrow+track in "
            "eval_impl, State::fuel_levels — no copy, restore or other reader); track_before_dispatch (loop, fetch, hook, borrow, "
            "ctx_ok!(track), match instr in this order, once each); no_budget_observer (the readers of fuel_tracker / fuel_levels() / "
            ".remaining() / .consumed(), classified per row, are the charge in eval_impl and the Rust API State::fuel_levels — none in a "
            "Debug/Display fmt, builtin, value object or output code, i.e. none reachable from template output); "
            "entry_points_reach_state_new (call graph of Template::render/render_captured/render_captured_to/new_state, "
            "Expression::eval, Environment::render_str/render_named_str/empty_state ends in State::new). (6) "
            "observations_budget_independent: any function of instructions, states and result is the same for any two sufficient "
            "budgets and without a budget, only the tracker differs (by the difference of the budgets). (7) Configuration: "
            "config_path (set_fuel(None) after Some is unmetered, last set wins, clones keep their budget, every evaluation gets a "
            "fresh tracker) and render_threshold_exact. (8) The error on its way up: wrappers_preserve_out_of_fuel / "
            "wrapper_kinds_come_from_frames (through any number of frames that propagate or wrap-keeping-source, the root cause stays "
            "OutOfFuel and the kinds around it are those of the wrapping frames; a replacing frame destroys it) tied by "
            "error_consumers_keep_source: the regenerated table of every map_err/.ok()/unwrap_or*/or_else/or/map_or*/is_err/if let Err/if let Ok/Err(_)/"
            "Err(e)=> in minijinja/src whose consumed value comes from a call that gets the State or starts an evaluation (or is "
            "unresolved) shows only: propagate, wrap keeping the source (exactly perform_include and perform_super), or the writer's "
            "I/O error taking precedence. (9) Programs with data-dependent loops and errors: structured programs (instructions, "
            "instructions that fail when the data says so, sequences, for loops in the compiler's instruction shape whose trip "
            "count is a function of the context and of the iteration path of the enclosing loops): the executed trace `exec` and the "
            "cost `cost` are defined on the program, prog_cost_is_total (cost = total of the trace, computed without building it), "
            "prog_threshold_exact (cost + 1 is the threshold for every context and every u64 budget), uniform_loop_cost_linear "
            "(head + n * (iteration) + exit with n from the context), error_threshold_exact (a render that ends with an error of "
            "its own ends with that error, after the same instructions and the same consumption, at every budget at or above its "
            "threshold, and out of fuel below); the programs also have conditionals whose direction comes from the data "
            "(branch_cost_selects: if/elif/else, the else part of a for loop - for_else_cost -, the per-item test of a loop filter) and "
            "further kinds of failing instructions (IntDiv, Rem, a failing filter). (10) Edges with the callee's trace as a parameter: "
            "edge_consumption_adds_up (for ANY callee traces - empty, one EmitRaw, free instructions only - spliced anywhere into the "
            "edge's own instructions the edge consumes the cost of its own instructions plus what every callee consumes on its own, "
            "the threshold is that sum + 1, and outcome and levels at every u64 budget are predicted from the parts), "
            "edge_repeated_callee (a callee run m times), uncharged_work_breaks_accumulation (an engine that does a callee's work "
            "outside the metered loop accepts budgets below the threshold of the work really done; the gap is what the callees "
            "cost), tied by output_sites_are_instruction_arms: the regenerated table C13_OUTPUT_SITES of every place in minijinja/src "
            "(outside the compiler and vm/fuel.rs) that writes to the render's Output, fetches an instruction, calls eval_state/"
            "do_eval/eval_impl or matches on an Instruction outside the dispatch loop shows: output is written only in the arms "
            "EmitRaw and Emit of eval_impl's dispatch (after the charge), there is one fetch (the loop head), and perform_include / "
            "perform_super / call_block / eval_macro / Executor::eval only go through eval_state -> do_eval -> eval_impl. "
            "The differential tie runs ~4900 (quick) / ~28000 (thorough) "
            "programs on the real engine in 8 parallel shards (loops, macros, call blocks, imports, includes, inheritance, super, self.block, "
            "render_block/call_macro/Value::call from Rust, every nested-evaluation edge in emit position and 12 expression/captured "
            "positions, each also with nothing following it (an engine that drops the error of a nested evaluation is only visible "
            "when nothing that costs fuel follows), include/import forms (ignore missing, list of choices, dynamic name, with context, "
            "import, from-import with code at module level) x 7 surroundings x {code follows, nothing follows}, Rust callbacks that "
            "swallow the error of a nested evaluation, failing renders, expressions, programs whose data is much larger than their "
            "instruction count, random compositions): executed trace through a verif_hooks callback, threshold by bisection, every "
            "budget in [0, thr+8] and 2^16-1, 2^16, 2^16+1, 2^24, 2^31-1, 2^31, 2^32-1, 2^32, 2^32+1, 2^53+1, 2^63-1, 2^63, 2^63+1, "
            "2^64-2, 2^64-1 through render_captured, compared with the model (outcome, "
            "fuel_levels, number of dispatched instructions, levels seen by probe() inside nested evaluations, empty tank after a "
            "swallowed error). API stream: every public method of State (env, name, auto_escape, undefined_behavior, current_block, "
            "lookup, exports, known_variables, get_template, fuel_levels, temps, extensions, call_macro, render_block, "
            "render_block_to_write, apply_filter, perform_test, format, Value::call, call_method) is called from a Rust function "
            "inside the running render in 8 places (top level, loop, macro, include, block, parent block under a captured super(), "
            "call block, set block) x 3 positions with the levels read right before and after, after the render on the captured "
            "state (Captured::with_state_mut, sequences of all methods and each evaluating method three times), and on stand-alone "
            "states (Template::new_state, Environment::empty_state) whose levels are read after failures too; the model predicts "
            "every level from the executed trace. Retry stream: a callback that recovers from a failing nested evaluation by starting "
            "another one through each evaluating method: after an out-of-fuel the second must be refused. Re-entering programs reach "
            "nested evaluations through select/reject/selectattr/rejectattr/map with Rust "
            "tests and filters that call call_macro/render_block, `is` tests, filter blocks, State::apply_filter/perform_test, object "
            "calls and methods, the unknown-method callback, a custom formatter (from emits and from join under auto-escape), in 5 "
            "positions with the work parameter: every budget in the band where the "
            "tank empties inside must give an error whose root cause is OutOfFuel with only BadInclude/EvalBlock wrappers around it. "
            "Structured stream: for programs with loops over the data (flat, two in a row, nested two and three levels with "
            "inner counts depending on the outer item, divisions that fail for some item) the compiled instruction list with its "
            "jump targets is converted to the structured model, which must predict the executed trace, the threshold and every "
            "outcome from the code and the data alone (also if/elif/else on the items, for-else, loop filters, nested combinations, "
            "continue, break, Rem and a failing int filter). "
            "Edge stream (harness c13_edges, built WITH and WITHOUT verif_hooks): 26 include/import/from-import/extends forms x 39 "
            "callee templates and 24 macro / call block / imported macro / block / self.block() / child block / super() (also captured, "
            "twice, three levels) / render_block / call_macro / Value::call / filter-, test-, map-, select-callback edges x 28 callee "
            "bodies, the callee shapes including the degenerate ones (empty, literal text only, several pieces of text, a raw block, only "
            "whitespace, only a comment, whitespace stripped to nothing, only a set, only a block, an empty block, only macros, only an "
            "import, an extends-only child, a child of a text-only parent, nested includes of text / of nothing) and seeded random "
            "compositions; per pair both renders are measured through fuel_levels at 2^40, 2^40+7, 2^64-1, the threshold by bisection "
            "and a scan of every budget in [0, thr+2]; oracle: consumed(edge around callee) - m * consumed(callee on its own) is the "
            "same for every callee shape of an edge, from the levels and from the scanned thresholds (no hooks needed); with hooks "
            "the executed trace must be the edge's own instructions with the callee's trace spliced in m times and the Lean driver "
            "predicts threshold and levels from the two traces (edgeRun). Capture/scope constructs (filter block, set block, autoescape, "
            "with, if, loop body) around the same bodies are compared on the trace level only (a compiler may fold them). from-import "
            "discards the module's output and CallBlock under a discarding output does not run the block, so callees with blocks are "
            "not used there. "
            "Observer programs put debug(), debug(x), Debug of State/Environment through Rust callables, self, loop, "
            "namespace(), macro and module objects into the output, the Debug form of the Captured is part of every result and all "
            "text forms (Display, alternate Display, Debug, source chain) of non-fuel errors are compared with the unlimited run. For "
            "~700 programs every entry point (render, render_captured_to, render_str, render_named_str, template_from_str, "
            "template_from_named_str, Expression, clone, clone then change the original, set other then this, set then None, "
            "new_state().render_block) and 8 environment variants (debug off, undefined modes, custom formatter, auto-escape on/off, "
            "whitespace control, recursion limit) are checked for the same budget semantics, with the variants and blocks also run "
            "through the model; wherever a state comes back with a budget configured it must report levels. Feature matrix: "
            "minijinja is compiled with fuel and each subset of {macros, multi_template}. The oracle checks the property itself on "
            "the engine's results.",
    "design_ref": "DESIGN.md §3 C13",
    "level_note": "Trusted: Lean kernel; the hand transcription of the four FuelTracker methods into MJ/Model/Fuel.lean (validated on "
                  "every scanned budget incl. the u64 extremes and budget 0); lib/tables/c13.py (regex extraction of the cost table, "
                  "the Instruction enum, the tracker/State sites, the nested-evaluation functions, the tracker uses and the "
                  "eval_impl landmarks); the verif_hooks instruction callback (cross-checked against the "
                  "compiled instruction list for straight-line templates and, with jump targets, for the structured programs). The "
                  "concrete VM state and dispatch are not transcribed: "
                  "they are covered by the universally quantified machine theorems, whose only hypothesis about the real code — the "
                  "dispatch does not read or write the tracker and nested activations get the same State — is tied by "
                  "uses_as_modelled/track_before_dispatch/tracker_sites_as_modelled/nested_evaluations_share_state and additionally "
                  "validated on every scanned run (limited run = prefix of "
                  "the unlimited trace). The structured-program model covers for loops (also with else part and filter), conditionals and "
                  "failing IntDiv / Rem / filters, and `continue` / `break` at the top level of a loop body (encoded with the conditional: the "
                  "jump stands in for the loop's back jump, a loop with a break gets the number of started iterations as its trip count "
                  "and a conditional around the Iterate that finds the end); continue/break nested deeper, break out of a loop with an else "
                  "part and loop recursion are covered by the machine theorems and the differential streams only. "
                  "That the executed trace of an edge is a splice of the callee's trace into the edge's own instructions is validated "
                  "per edge x callee shape (hook trace) and tied by output_sites_are_instruction_arms (regex table), not proved from a "
                  "transcription of perform_include etc. The edge oracle reads 'accumulates across nested evaluations' as: the cost of "
                  "an edge's own instructions does not depend on what the callee is. "
                  "User callbacks can read State::fuel_levels (public API) and can swallow errors; the first "
                  "is outside the model (the harness's probe() does it without steering), for the second only stickiness is claimed. "
                  "A Rust callback that renders another template (state.get_template(..)?.render(..)) starts a render of its own "
                  "with its own tracker (documented root Executor::eval); not exercised. "
                  "Reading of 'fails with an out-of-fuel error': the root cause of the reported error (source() chain) is OutOfFuel "
                  "and only the engine's nesting wrappers BadInclude / EvalBlock are around it.",
}

U64 = 2 ** 64
BIG = 2 ** 63
CONTROL = {"Jump", "JumpIfFalse", "JumpIfFalseOrPop", "JumpIfTrueOrPop", "Iterate", "PushLoop", "BuildMacro", "Include",
           "LoadBlocks", "CallBlock", "FastSuper", "FastRecurse", "CallFunction", "CallMethod", "CallObject", "Return",
           "RenderParent", "ExportLocals", "Enclose", "GetClosure"}


# an error raised inside an included/imported template or inside a parent block reaches the caller
# wrapped in the engine's nesting wrappers (kind BadInclude / EvalBlock) with the original error as
# `source()`: "an out-of-fuel error" = the root cause is OutOfFuel and only such wrappers are around it
WRAPPERS = {"BadInclude", "EvalBlock"}


def is_out_of_fuel(tag):
    if not tag.startswith("err:"):
        return False
    chain = tag.split(":")[1].split(">")
    return chain[-1] == "OutOfFuel" and all(w in WRAPPERS for w in chain[:-1])


def brange(b):
    return "ge2^63" if b >= BIG else ("ge2^31" if b >= 2 ** 31 else "small")


def parse(out):
    progs = []
    for line in out.splitlines():
        case, res = line.split("\t")
        progs.append((case, json.loads(bytes.fromhex(case)), json.loads(res)))
    return progs


def driver_input(progs):
    lines = []
    for i, (case, p, res) in enumerate(progs):
        if "runs" not in res:
            continue
        budgets = ",".join(str(r[0]) for r in res["runs"])
        ks = ",".join(str(pr[0]) for pr in res["probes"])
        lines.append(f"{i}\t{budgets}\t{res['pb']}\t{ks}\t{res['trace']}")
        if p.get("skel") and res.get("static_full"):
            try:
                toks = skel_tokens(res["static_full"], tuple(p["skel"].get("fail_ops", ("IntDiv", "Rem"))))
                counts, fails, conds = skel_tables(p["ctx"], p["skel"])
                lines.append(f"S\t{i}.s\t{budgets}\t{counts}\t{fails}\t{conds}\t{' '.join(toks)}")
            except (ValueError, KeyError, TypeError, IndexError):
                pass  # reported by check_program: no model line
        for j, b in enumerate(res.get("blocks", [])):
            if b["runs"]:
                lines.append(f"{i}.b{j}\t{','.join(str(r[0]) for r in b['runs'])}\t0\t\t{b['trace']}")
        for j, v in enumerate(res.get("variants", [])):
            if v["runs"]:
                tr = res["trace"] if v["same_trace"] else v["trace"]
                lines.append(f"{i}.v{j}\t{','.join(str(r[0]) for r in v['runs'])}\t0\t\t{tr}")
    return "\n".join(lines) + "\n"



# ---------------------------------------------------------------- structured programs (MJ.Fuel.P)
def skel_tokens(static_full, fail_ops=("IntDiv", "Rem")):
    """compiled instruction list with jump targets -> prefix tokens of MJ.Fuel.P (loops, fallible
    instructions and conditionals numbered in source order); ValueError for control flow outside the fragment"""
    names = [x["op"] for x in static_full]
    args = [x.get("arg") for x in static_full]
    ids = {"loop": 0, "fail": 0, "cond": 0}

    broke = set()

    def parse(i, end, loop_iter=None, top=False, loop_end=None, lid_here=None):
        # loop_iter: index of the Iterate of the innermost enclosing loop; top: the region ends where that
        # loop's body ends (in front of its back jump)
        toks = []
        while i < end:
            op = names[i]
            if op == "PushLoop":
                if not (i + 1 < end and names[i + 1] == "Iterate"):
                    raise ValueError("PushLoop without Iterate")
                x = args[i + 1]
                # the Iterate that finds the end jumps to PopLoopFrame, or - a loop with an else part - to PushDidNotIterate
                if not (isinstance(x, int) and x <= end and names[x - 1] == "Jump" and args[x - 1] == i + 1 and names[x] in ("PopLoopFrame", "PushDidNotIterate")):
                    raise ValueError("loop layout")
                lid = ids["loop"]
                ids["loop"] += 1
                body = parse(i + 2, x - 1, loop_iter=i + 1, top=True, loop_end=x, lid_here=lid)
                if lid in broke:
                    # a loop that can be left by `break`: the Iterate that finds the end runs only when no
                    # iteration broke out (a conditional of its own, numbered after those of the body)
                    if names[x] != "PopLoopFrame":
                        raise ValueError("break out of a loop with an else part")
                    cid = ids["cond"]
                    ids["cond"] += 1
                    toks += ["L", str(lid), "1", "1", "1", "0", "PushLoop", "Iterate", "Jump"] + body + ["E", "B", str(cid), "I", "Iterate", "E", "E"]
                else:
                    toks += ["L", str(lid), "1", "1", "1", "1", "PushLoop", "Iterate", "Jump", "Iterate"] + body + ["E"]
                i = x
            elif op == "JumpIfFalse":
                t = args[i]
                if not (isinstance(t, int) and i < t <= end):
                    raise ValueError("conditional jump leaves its region")
                cid = ids["cond"]
                ids["cond"] += 1
                if top and t - 1 > i and names[t - 1] == "Jump" and args[t - 1] == loop_end and loop_end is not None:
                    # `{% if … %}…{% break %}{% endif %}` at the top level of a loop body: like continue, and the loop ends
                    # (the context's trip count is the number of iterations that were started)
                    broke.add(lid_here)
                    first = parse(i + 1, t - 1, loop_iter)
                    second = parse(t, end, loop_iter, top=True, loop_end=loop_end, lid_here=lid_here)
                    toks += ["I", "JumpIfFalse", "B", str(cid)] + first + ["E"] + second + ["E"]
                    i = end
                    continue
                if top and t - 1 > i and names[t - 1] == "Jump" and args[t - 1] == loop_iter:
                    # `{% if … %}…{% continue %}{% endif %}` at the top level of a loop body: the first side ends with
                    # the jump to the loop's Iterate, which takes the place of the loop's own back jump (same
                    # instruction); the rest of the body is the second side
                    first = parse(i + 1, t - 1, loop_iter)
                    second = parse(t, end, loop_iter, top=True, loop_end=loop_end, lid_here=lid_here)
                    toks += ["I", "JumpIfFalse", "B", str(cid)] + first + ["E"] + second + ["E"]
                    i = end
                    continue
                if t - 1 > i and names[t - 1] == "Jump" and isinstance(args[t - 1], int) and t <= args[t - 1] <= end:
                    # first side ends with the jump over the second side
                    e = args[t - 1]
                    first = parse(i + 1, t - 1, loop_iter) + ["I", "Jump"]
                    second = parse(t, e, loop_iter)
                else:
                    e = t
                    first = parse(i + 1, t, loop_iter)
                    second = []
                toks += ["I", "JumpIfFalse", "B", str(cid)] + first + ["E"] + second + ["E"]
                i = e
            elif op in fail_ops:
                toks += ["F", op, str(ids["fail"])]
                ids["fail"] += 1
                i += 1
            elif op in CONTROL:
                raise ValueError("control flow outside the structured fragment: " + op)
            else:
                toks += ["I", op]
                i += 1
        return toks
    return parse(0, len(names))


def _truthy(v):
    return bool(v)


def skel_tables(ctx, skel):
    """trip count of every loop, failing of every fallible instruction and direction of every conditional per iteration path"""
    def nodes(v, depth, path=()):
        if depth == 0:
            yield path, v
        elif isinstance(v, list):
            for i, x in enumerate(v):
                yield from nodes(x, depth - 1, path + (i,))
    counts, fails, conds = [], [], []
    for lid, spec in enumerate(skel["loops"]):
        root, depth = spec[0], spec[1]
        for path, node in nodes(ctx[root], depth):
            if len(spec) > 2 and spec[2] == "truthy":
                n = sum(1 for x in node if _truthy(x))
            elif len(spec) > 2 and spec[2] == "until-truthy":  # iterations started when the first truthy item breaks out
                n = next((k + 1 for k, x in enumerate(node) if _truthy(x)), len(node))
            else:
                n = len(node)
            counts.append(f"{lid}:{'.'.join(map(str, path))}:{n}")
    for fid, spec in enumerate(skel["fails"]):
        root, depth = spec[0], spec[1]
        for path, node in nodes(ctx[root], depth):
            bad = (isinstance(node, str) and not node.lstrip("-").isdigit()) if len(spec) > 2 and spec[2] == "nonint" else node == 0
            if bad:
                fails.append(f"{fid}:{'.'.join(map(str, path))}")
    for cid, spec in enumerate(skel.get("conds", [])):
        kind, root, depth = spec[0], spec[-2], spec[-1]
        for path, node in nodes(ctx[root], depth):
            if ((kind == "truthy" and _truthy(node)) or (kind == "empty" and len(node) == 0)
                    or (kind == "none-truthy" and not any(_truthy(x) for x in node))
                    or (kind == "truthy-of" and _truthy(ctx[spec[1]]))):
                conds.append(f"{cid}:{'.'.join(map(str, path))}")
    return ";".join(counts), ";".join(fails), ";".join(conds)


def check_structured(r, case, p, res, m):
    """engine vs the structured model: the model predicts the executed trace, the cost and every outcome
    from the compiled instruction list and the data alone"""
    r.hist["checks"]["structured_programs"] += 1
    mthr, mcost, mruns, mend, mtrace = m
    if res["trace"].split() != mtrace:
        r.model_disagreement(case, "executed trace " + res["trace"][:200], "structured model: " + " ".join(mtrace)[:200])
    unl = res["unl"]["t"]
    if (unl == "ok") != (mend == "ok"):
        r.model_disagreement(case, f"unlimited render ends {unl}", f"structured model: {mend}")
    if res.get("thr") != mthr:
        r.model_disagreement(case, f"thr={res.get('thr')}", f"structured model: thr={mthr} (cost {mcost} as a function of the data)")
    for (b, tag, c, rem, n, *_), (mb, mst, mc, mr, mn) in zip(res.get("runs", []), mruns):
        st = ("ok" if unl == "ok" else "ownError") if tag == "same" else "OutOfFuel" if is_out_of_fuel(tag) else tag
        impl = (b, st, n - 1 if st == "OutOfFuel" else n)
        if impl != (mb, mst, mn):
            r.model_disagreement(case, f"run {impl}", f"structured model: {(mb, mst, mn)}")
        if c is not None and (c, rem) != (mc, mr):
            r.model_disagreement(case, f"budget {b}: levels {(c, rem)}", f"structured model: {(mc, mr)}")


def check_side_runs(r, case, label, thr, runs, model, unl_ok, has_levels=False, survives=False):
    """oracle + correspondence for a short list of runs [B, tag, c, rem, n, mismatch] of one evaluation;
    has_levels: the entry point hands the state back on success, so with a budget configured it must
    report levels; survives: the caller holds the state, levels are read after failures too"""
    cons = set()
    for (b, tag, c, rem, n, mismatch) in runs:
        if c is not None and c + rem != b:
            r.oracle_failure(case, f"{label}: budget {b}: fuel_levels = ({c}, {rem}) do not add up", f"{label}:levels-sum")
        if (survives or (has_levels and tag == "same" and unl_ok)) and c is None:
            r.oracle_failure(case, f"{label}: budget {b} configured but the state reports no fuel levels (fuel_levels() = None): the evaluation is not metered", f"{label}:levels-missing")
        if b < thr and not is_out_of_fuel(tag):
            r.oracle_failure(case, f"{label}: budget {b} < threshold {thr}: {tag[:160]} instead of out-of-fuel", f"{label}:below:{tag.split(':')[0]}")
        if b >= thr and tag != "same":
            r.oracle_failure(case, f"{label}: budget {b} >= threshold {thr}: {tag[:160]} instead of the unlimited result", f"{label}:above:{':'.join(tag.split(':')[:2])}")
        if tag == "same" and c is not None:
            cons.add(c)
    if len(cons) > 1:
        r.oracle_failure(case, f"{label}: consumed fuel depends on the budget: {sorted(cons)[:4]}", f"{label}:consumed-varies")
    if len(cons) == 1 and unl_ok and not (next(iter(cons)) <= thr <= next(iter(cons)) + 1):
        r.oracle_failure(case, f"{label}: threshold {thr} but {next(iter(cons))} consumed", f"{label}:threshold-vs-consumed")
    if model is not None:
        mthr, mtotal, mruns, _ = model
        if mthr != thr:
            r.model_disagreement(case, f"{label}: thr={thr}", f"thr={mthr}")
        for (b, tag, c, rem, n, mismatch), (mb, mst, mc, mr, mn) in zip(runs, mruns):
            st = "ok" if tag == "same" else "OutOfFuel" if is_out_of_fuel(tag) else tag
            if tag == "same" and c is not None and unl_ok:
                impl, mod = (b, st, c, rem, n), (mb, mst, mc, mr, mn)
            else:
                impl, mod = (b, st, n - 1 if st == "OutOfFuel" else n), (mb, mst, mn)
            if impl != mod:
                r.model_disagreement(case, f"{label}: run {impl}", f"run {mod}")
            if mismatch and (tag == "same" or is_out_of_fuel(tag)):
                r.model_disagreement(case, f"{label}: budget {b}: dispatched instructions are not a prefix of the unlimited trace", "prefix")
    return cons


def check_extras(r, case, p, res, models, idx, thr, main_consumed):
    unl_ok = res["unl"]["t"] == "ok"
    for e in res.get("entries", []):
        name = e["name"]
        r.hist["entry_point"][name] += 1
        r.count(case + name, thr > 0, n=len(e["runs"]))
        if e["unl_mismatch"]:
            r.model_disagreement(case, f"entry point {name} executes other instructions than render_captured", "same trace")
            continue
        if e["unmetered"]:
            for (b, tag, c, rem, n, mismatch) in e["runs"]:
                if tag != "same" or c is not None:
                    r.oracle_failure(case, f"set_fuel(Some({b})) followed by set_fuel(None): {tag[:120]} / levels {c} instead of an unmetered render", "config:set-none-still-metered")
            continue
        cons = check_side_runs(r, case, "entry:" + name, thr, e["runs"], None, unl_ok, has_levels=e.get("lv", False))
        if cons and main_consumed is not None and cons != {main_consumed}:
            r.oracle_failure(case, f"entry point {name} consumes {sorted(cons)} but render_captured {main_consumed}", "entry:" + name + ":consumption-differs")
        for (b, tag, c, rem, n, mismatch) in e["runs"]:
            if mismatch and (tag == "same" or is_out_of_fuel(tag)):
                r.model_disagreement(case, f"entry point {name}, budget {b}: dispatched instructions are not a prefix of the unlimited trace", "prefix")
    for j, b in enumerate(res.get("blocks", [])):
        r.hist["entry_point"]["new_state.render_block"] += 1
        if b["thr"] is None:
            r.oracle_failure(case, f"new_state().render_block({b['name']}): no budget up to 2^22 reproduces the unmetered result", "entry:render_block:no-threshold")
            continue
        r.count(case + "block" + b["name"], b["thr"] > 0, n=len(b["runs"]))
        check_side_runs(r, case, "entry:new_state.render_block", b["thr"], b["runs"], models.get(f"{idx}.b{j}"), b.get("unl_ok", True), survives=True)
    for j, v in enumerate(res.get("variants", [])):
        r.hist["env_variant"][v["name"] + (":same-trace" if v["same_trace"] else ":other-trace")] += 1
        if v["thr"] is None:
            r.oracle_failure(case, f"environment variant {v['name']}: no budget up to 2^22 reproduces the unlimited result", f"variant:{v['name']}:no-threshold")
            continue
        r.count(case + "variant" + v["name"], v["thr"] > 0, n=len(v["runs"]))
        cons = check_side_runs(r, case, "variant:" + v["name"], v["thr"], v["runs"], models.get(f"{idx}.v{j}"), v.get("unl_ok", unl_ok), has_levels=p["mode"] == "template")
        if v["same_trace"]:
            if v["thr"] != thr:
                r.oracle_failure(case, f"environment variant {v['name']} executes the same instructions but has threshold {v['thr']} instead of {thr}", f"variant:{v['name']}:threshold-differs-for-same-trace")
            if cons and main_consumed is not None and cons != {main_consumed}:
                r.oracle_failure(case, f"environment variant {v['name']} executes the same instructions but consumes {sorted(cons)} instead of {main_consumed}", f"variant:{v['name']}:consumption-differs-for-same-trace")


def check_program(r, case, p, res, models, idx):
    model = models.get(str(idx))
    """oracle (property on the engine's results) + correspondence (engine vs Lean model)"""
    fam = p["id"].split(":")[0] + (":" + p["id"].split(":")[1] if p["id"].count(":") >= 2 else "")
    r.hist["family"][p["id"].split(":")[0]] += 1
    if "compile_error" in res:
        r.broken.append(f"harness program {p['id']} does not compile: {res['compile_error'][:200]}")
        return
    unl = res["unl"]
    r.hist["unlimited_result"][unl["t"] if unl["t"] != "err" else "err:" + unl["kind"]] += 1
    if unl["t"] == "panic":
        # not a fuel matter (C01); nothing to compare
        r.hist["skipped"]["unlimited-panic"] += 1
        return
    if not res["unl_repeat_same"]:
        r.oracle_failure(case, "two renders without fuel differ in result or executed instructions", "unlimited-nondeterministic")
        return
    trace = res["trace"].split()
    thr = res.get("thr")
    if thr is None:
        t = res.get("no_thr_tag", "?")
        dep = " and two sufficient-looking budgets 2^40, 2^40+1 give different results" if res.get("no_thr_budget_dependent") else ""
        r.oracle_failure(case, f"no budget up to 2^22 reproduces the unlimited result; budget 2^40 gives {t[:120]}{dep}",
                         f"no-threshold:{t.split(':')[0]}:" + fam)
        return
    runs = res["runs"]
    r.hist["thr_bucket"][min(thr // 50 * 50, 1000)] += 1
    r.hist["trace_len_bucket"][min(len(trace) // 100 * 100, 2000)] += 1
    for name in set(trace):
        r.hist["instruction"][name] += 1
    nontrivial = thr > 0
    r.count(case, nontrivial, n=len(runs))
    # hook sanity: straight-line single templates execute exactly their compiled instruction list
    if p["mode"] == "template" and not p.get("post") and res["ntemplates"] == 1 and res["static"] and not (set(res["static"]) & CONTROL) and unl["t"] == "ok":
        r.hist["checks"]["static==trace"] += 1
        if res["static"] != trace:
            r.broken.append(f"instruction hook: executed trace differs from the compiled instruction list for {p['id']}")

    # ---------------- oracle ----------------
    consumed_ok = set()
    swallow = p.get("swallow", False)
    mode = p["mode"]
    standalone = mode in ("new_state", "empty_state")  # the state survives a failing call: levels are always read
    r.hist["mode"][mode + ("+post" if p.get("post") and mode == "template" else "")] += 1
    for (b, tag, c, rem, n, mismatch, nprobes, pbad, pmono, swallowed, sticky_bad) in runs:
        if swallowed:
            r.hist["checks"]["runs_with_swallowed_error"] += 1
        if sticky_bad:
            # the property does not say what the tank holds after a failed charge (an engine that refuses without
            # emptying it keeps the threshold): the model does (out_of_fuel_is_sticky), so this is a tie matter;
            # an engine that goes on after a swallowed out-of-fuel shows in the outcome below the threshold
            r.model_disagreement(case, f"budget {b}: after an out-of-fuel error inside a nested evaluation (swallowed by a Rust callback) the state reports remaining fuel != 0", "out_of_fuel_is_sticky: the tank is empty")
        where = "below" if b < thr else "at-or-above"
        if is_out_of_fuel(tag):
            r.hist["out_of_fuel_error_chain"][tag.split(":")[1]] += 1
        if b < thr and not is_out_of_fuel(tag):
            r.oracle_failure(case, f"budget {b} < threshold {thr}: {tag} instead of out-of-fuel", f"below:{tag.split(':')[0]}:{brange(b)}")
        if b >= thr and tag != "same":
            t0 = ":".join(tag.split(":")[:2])
            r.oracle_failure(case, f"budget {b} >= threshold {thr}: {tag[:200]} instead of the unlimited result", f"above:{t0}:{brange(b)}")
        if standalone or (tag in ("same", "diff-captured-debug") and unl["t"] == "ok" and mode == "template"):
            if c is None:
                r.oracle_failure(case, f"budget {b} configured but the state reports no fuel levels (fuel_levels() = None): the evaluation is not metered", f"levels-missing:{mode}")
            elif c + rem != b:
                r.oracle_failure(case, f"budget {b}: fuel_levels = ({c}, {rem}) do not add up to the budget", f"levels-sum:{brange(b)}")
            elif tag == "same":
                consumed_ok.add(c)
        if pbad:
            r.oracle_failure(case, f"budget {b}: {pbad} of {nprobes} probe() calls saw levels that do not add up to the budget", f"probe-levels-sum:{brange(b)}:{where}")
        if not pmono:
            r.oracle_failure(case, f"budget {b}: consumed fuel seen by successive probe() calls / the final state decreases (nested evaluation does not charge the render's tracker)", "probe-consumed-decreases:" + fam)
        if mismatch and (tag == "same" or is_out_of_fuel(tag)) and not (swallow and swallowed):
            # modelling assumption (fuel does not steer): a violation of it is a tie problem unless outputs differ
            r.model_disagreement(case, f"budget {b}: dispatched instructions are not a prefix of the unlimited trace", "prefix of unlimited trace")
    if len(consumed_ok) > 1:
        r.oracle_failure(case, f"consumed fuel depends on the budget: {sorted(consumed_ok)[:5]}", "consumed-varies")
    if len(consumed_ok) == 1:
        c = next(iter(consumed_ok))
        if not (c <= thr <= c + 1):
            r.oracle_failure(case, f"threshold {thr} but the successful render reports {c} consumed (a budget above the consumption must suffice, one below must not)", "threshold-vs-consumed:" + fam)
    check_extras(r, case, p, res, models, idx, thr, next(iter(consumed_ok)) if len(consumed_ok) == 1 else None)
    if res["rep"] != "ok":
        r.oracle_failure(case, f"repeating the render with the same budget gives a different result/levels ({res['rep']})", "repeat")

    # ---------------- correspondence ----------------
    if p.get("skel"):
        if f"{idx}.s" in models:
            check_structured(r, case, p, res, models[f"{idx}.s"])
        else:
            r.broken.append(f"structured program {p['id']}: the compiled instruction list is outside the modelled fragment")
    if model is None:
        return
    mthr, mtotal, mruns, mprobes = model
    if mthr != thr:
        r.model_disagreement(case, f"thr={thr}", f"thr={mthr} (total {mtotal})")
    if len(mruns) != len(runs):
        r.broken.append("model driver returned a different number of runs for " + p["id"])
        return
    for (b, tag, c, rem, n, *_rest), m in zip(runs, mruns):
        mb, mst, mc, mr, mn = m
        if tag == "diff-captured-debug":
            tag = "same"  # reported by the oracle; the accounting is compared as usual
        impl_st = "ok" if tag == "same" else "OutOfFuel" if is_out_of_fuel(tag) else tag
        if tag == "same" and c is not None and (unl["t"] == "ok" or standalone):
            impl = (b, "ok", c, rem, n)
            mod = (mb, mst, mc, mr, mn)
        elif standalone and impl_st == "OutOfFuel" and c is not None and not swallow:
            # the stand-alone state survives the out-of-fuel error: its levels are the model's too
            impl = (b, impl_st, c, rem, n - 1)
            mod = (mb, mst, mc, mr, mn)
        else:  # no state comes back from a failed render: compare the outcome and the dispatch count
            # the hook fires before the charge: on out-of-fuel the instruction whose charge failed
            # was seen by the hook but not dispatched
            impl = (b, impl_st, n - 1 if impl_st == "OutOfFuel" else n)
            mod = (mb, mst, mn)
            if swallow and impl_st == "OutOfFuel":
                # after a swallowed error the caller goes on (free instructions, then the next
                # refused one): only the outcome is compared (out_of_fuel_is_sticky)
                impl, mod = impl[:2], mod[:2]
            if tag == "same":  # the render fails without fuel too: the model says "all dispatched"
                impl = (b, "ok", n)
        if impl != mod:
            r.model_disagreement(case, f"run {impl}", f"run {mod}")
    probes = [tuple(x) for x in res["probes"]]
    if probes != mprobes:
        r.model_disagreement(case, f"probes at budget {res['pb']}: {probes[:6]}", f"{mprobes[:6]}")
    r.hist["checks"]["probes_compared"] += len(probes)


def check_groups(r, progs):
    """metamorphic: k extra units of work inside a nested evaluation / loop body move consumed and threshold linearly"""
    groups = collections.defaultdict(list)
    for case, p, res in progs:
        if p["group"] and res.get("thr") is not None and "runs" in res and res["unl"]["t"] == "ok":
            cons = [run_[2] for run_ in res["runs"] if run_[1] == "same" and run_[2] is not None]
            groups[p["group"]].append((p["k"], res["thr"], cons[0] if cons else None, case))
    for g, rows in sorted(groups.items()):
        rows.sort()
        if len(rows) < 3:
            continue
        r.hist["checks"]["metamorphic_groups"] += 1
        for what, idx in (("threshold", 1), ("consumed", 2)):
            vals = [row[idx] for row in rows]
            if any(v is None for v in vals):
                continue
            ks = [row[0] for row in rows]
            # skip k=0 -> first step when a loop with zero iterations takes another path
            start = 1 if g.startswith("loop") else 0
            diffs = [(vals[i + 1] - vals[i]) / (ks[i + 1] - ks[i]) for i in range(start, len(vals) - 1)]
            if not diffs:
                continue
            if min(diffs) <= 0 or len(set(diffs)) != 1:
                r.oracle_failure(rows[-1][3], f"group {g}: {what} for k={ks} is {vals}: extra work inside the nested evaluation "
                                 f"does not accumulate linearly in the render's {what}", f"accumulate:{g}:{what}")


def parse_model(lines):
    out = {}
    for line in lines:
        f = line.split("\t")
        if len(f) == 6:  # structured program: id thr cost runs ok|fail trace
            runs = []
            for x in f[3].split(","):
                if x:
                    b, st, c, rem, n = x.split(":")
                    runs.append((int(b), st, int(c), int(rem), int(n)))
            out[f[0]] = (int(f[1]), int(f[2]), runs, f[4], f[5].split())
            continue
        if len(f) != 5:
            continue
        runs = []
        for x in f[3].split(","):
            if x:
                b, st, c, rem, n = x.split(":")
                runs.append((int(b), st, int(c), int(rem), int(n)))
        probes = []
        for x in f[4].split(","):
            if x:
                k, c, rem = x.split(":")
                probes.append((int(k), int(c), int(rem)))
        out[f[0]] = (int(f[1]), int(f[2]), runs, probes)
    return out



# ---------------------------------------------------------------- edge stream (c13_edges)
def splice_ok(outer, frame, inner, m):
    """is `outer` = `frame` with `m` copies of `inner` inserted somewhere?"""
    import functools, sys
    n, f, k = len(outer), len(frame), len(inner)
    if n != f + m * k:
        return False
    if k == 0 or m == 0:
        return outer == frame
    sys.setrecursionlimit(max(sys.getrecursionlimit(), 4 * n + 100))

    @functools.lru_cache(maxsize=None)
    def go(i, j, used):
        if i == n:
            return j == f and used == m
        if j < f and outer[i] == frame[j] and go(i + 1, j + 1, used):
            return True
        return used < m and outer[i:i + k] == inner and go(i + k, j, used + 1)
    return go(0, 0, 0)


def edge_cost(x):
    """consumption of one measured render: (from fuel_levels, from the budget scan)"""
    lv = x["levels"]
    c = lv[0][2]
    thr = x["thr"]
    return c, (None if thr is None else (thr - 1 if thr > 0 else 0))


def check_edge_render(r, case, label, which, x, no_state=False):
    """the property on one render of the edge stream (no hooks needed); no_state: the entry point hands no
    state back (Expression::eval), the budget scan is all there is"""
    ok = True
    cons = set()
    for (b, tag, c, rem) in x["levels"]:
        b = int(b)
        if no_state and tag == "same":
            continue
        if tag != "same":
            r.oracle_failure(case, f"{label}: {which}: budget {b}: {tag[:120]} instead of the unlimited result", f"edges:{which}:above:{tag.split(':')[0]}")
            ok = False
        elif c is None:
            r.oracle_failure(case, f"{label}: {which}: budget {b} configured but the state reports no fuel levels", f"edges:{which}:levels-missing")
            ok = False
        else:
            if c + int(rem) != b:
                r.oracle_failure(case, f"{label}: {which}: budget {b}: fuel_levels = ({c}, {rem}) do not add up", f"edges:{which}:levels-sum")
            cons.add(c)
    if len(cons) > 1:
        r.oracle_failure(case, f"{label}: {which}: consumed fuel depends on the budget: {sorted(cons)}", f"edges:{which}:consumed-varies")
        ok = False
    if x["thr"] is None:
        r.oracle_failure(case, f"{label}: {which}: no budget up to 2^20 reproduces the unlimited result", f"edges:{which}:no-threshold")
        return False
    for (b, tag, c, rem) in x["scan_bad"]:
        where = "below" if b < x["thr"] else "at-or-above"
        r.oracle_failure(case, f"{label}: {which}: budget {b} ({where} the threshold {x['thr']}): {tag[:120]}, levels ({c}, {rem})", f"edges:{which}:scan:{where}:{tag.split(':')[0]}")
        ok = False
    if ok and len(cons) == 1:
        c = next(iter(cons))
        if x["thr"] != (c + 1 if c > 0 else 0):
            r.oracle_failure(case, f"{label}: {which}: threshold {x['thr']} but {c} consumed", f"edges:{which}:threshold-vs-consumed")
    return ok and (len(cons) == 1 or no_state)


def check_edges(r, label, out):
    """consumption adds up over every nested-evaluation edge for every callee shape:
    consumed(edge around callee) - m * consumed(callee alone) is the cost of the edge's own instructions, the same for
    every callee shape (from fuel_levels and from the budget scan); with hooks: the executed trace of the edge is the
    edge's own instructions with the callee's trace spliced in m times, and the model (edge_consumption_adds_up) predicts
    consumption and threshold from the two traces"""
    rows = []
    for line in out.splitlines():
        case, res = line.split("\t")
        rows.append((case, json.loads(bytes.fromhex(case)), json.loads(res)))
    groups = collections.defaultdict(list)
    for case, p, res in rows:
        name = f"{p['edge']} x {p['shape']}"
        r.hist["edges_" + label][p["edge"]] += 1
        if "compile_error" in res:
            r.broken.append(f"edge program {name} does not compile: {res['compile_error'][:200]}")
            continue
        o, i = res["outer"], res["inner"]
        if o["t"] != "ok" or i["t"] != "ok":
            r.broken.append(f"edge program {name} fails without fuel: outer {o.get('kind', o['t'])}, callee {i.get('kind', i['t'])}")
            continue
        ok_o = check_edge_render(r, case, name, "edge", o)
        ok_i = check_edge_render(r, case, name, "callee", i, no_state=p["inner"].startswith("expr:"))
        r.count(case + label, o["levels"][0][2] not in (None, 0), n=2 * 4 + min(o["thr"] or 0, 340) + min(i["thr"] or 0, 340))
        if ok_o and ok_i:
            groups[p["edge"]].append((case, p, o, i))
    model_lines = []
    for edge, g in sorted(groups.items()):
        for what, idx in (("consumption (fuel_levels)", 0), ("threshold (budget scan)", 1)):
            if g[0][1]["kind"] == "syntax":
                break  # no nested evaluation: the trace-level tie below only
            if any(edge_cost(i)[idx] is None for case, p, o, i in g):
                continue
            ov = {}
            for case, p, o, i in g:
                co, ci = edge_cost(o)[idx], edge_cost(i)[idx]
                ov[case] = (co - p["m"] * ci, co, ci, p)
            cnt = collections.Counter(v[0] for v in ov.values())
            ref = [v[0] for v in ov.values() if v[3]["shape"] in ("work3", "expr", "loop")]
            mode = ref[0] if ref and all(x == ref[0] for x in ref) else cnt.most_common(1)[0][0]
            r.hist["checks"][f"edge_groups_{label}"] += 1
            for case, (d, co, ci, p) in ov.items():
                if d != mode and p["kind"] == "entry":
                    # two entry points: the property says nothing about how their costs relate; the model does
                    r.model_disagreement(case, f"{edge} {p['shape']}: {what}: in a template {co}, through the entry point {ci}: difference {d}",
                                         f"difference {mode} (the Emit) as for the other expressions: every instruction the expression executes is charged")
                elif d != mode:
                    r.oracle_failure(case, f"edge {edge} around the callee shape {p['shape']}: {what} of the whole = {co}, of the callee alone = {ci} "
                                     f"(run {p['m']} time(s)): the edge itself would cost {d}, but it costs {mode} around the other callee shapes: "
                                     f"the consumption of the nested evaluation is not carried into the render's consumption in full",
                                     f"edge-does-not-add-up:{edge}:{'levels' if idx == 0 else 'scan'}")
        if label != "hooks":
            continue
        empties = [o["trace"].split() for case, p, o, i in g if not i["trace"].split()]
        frame = empties[0] if empties else None
        for n, (case, p, o, i) in enumerate(g):
            to, ti = o["trace"].split(), i["trace"].split()
            if frame is None:
                continue
            r.hist["checks"]["edge_traces_spliced"] += 1
            if not splice_ok(tuple(to), tuple(frame), tuple(ti), p["m"]):
                r.model_disagreement(case, f"edge {edge} x {p['shape']}: executed trace {' '.join(to)[:300]}",
                                     f"the edge's own instructions ({' '.join(frame)[:200]}) with the callee's trace ({' '.join(ti)[:200]}) spliced in {p['m']} time(s)")
            model_lines.append((case, p, o, f"E\t{edge}.{n}\t{p['m']}\t{o['thr']},{o['thr'] - 1 if o['thr'] else 0},{2 ** 40}\t{' '.join(frame)}\t{' '.join(ti)}"))
    if label == "hooks" and model_lines:
        lines = r.driver("drive_c13", "\n".join(x[3] for x in model_lines) + "\n")
        if lines is None or len(lines) != len(model_lines):
            r.broken.append("model driver output does not line up with the edge cases")
            return
        for (case, p, o, _), line in zip(model_lines, lines):
            f = line.split("\t")
            # E id thr total B:status:consumed:remaining,...
            if len(f) != 5 or f[0] != "E":
                r.broken.append("model driver: bad edge line " + line[:100])
                return
            c = o["levels"][0][2]
            if (int(f[2]), int(f[3])) != (o["thr"], c):
                r.model_disagreement(case, f"edge {p['edge']} x {p['shape']}: thr={o['thr']} consumed={c}", f"edge_consumption_adds_up: thr={f[2]} consumed={f[3]}")
            runs = f[4].split(",")
            want = [f"{o['thr']}:ok:{c}:{o['thr'] - c}"] + ([f"{o['thr'] - 1}:OutOfFuel:{o['thr'] - 1}:0"] if o["thr"] else [f"0:ok:0:0"]) + [f"{2 ** 40}:ok:{c}:{2 ** 40 - c}"]
            if runs != want:
                r.model_disagreement(case, f"edge {p['edge']} x {p['shape']}: runs {want}", f"model {runs}")
            r.hist["checks"]["edge_model_lines"] += 1


def run_edges(r):
    import time
    t0 = time.time()
    for label, no_hooks in (("hooks", False), ("nohooks", True)):
        exe = r.cargo_build("c13_edges", no_hooks=no_hooks)
        if exe is None:
            continue
        rc, out, err = r.harness(exe, ["gen", r.tier])
        if rc != 0:
            r.broken.append(f"harness c13_edges ({label}) exited {rc}: {err[-300:]}")
            continue
        check_edges(r, label, out)
    r.extra["edge_stream_wall_s"] = round(time.time() - t0, 1)


NSHARDS = 8
FEATURE_SETS = (["fuel"], ["fuel", "macros"], ["fuel", "multi_template"], ["fuel", "macros", "multi_template"])


def check_feature_matrix(r):
    """configurations: the engine with `fuel` and every subset of the features that change the
    Instruction enum must compile (the cost table names variants that only exist under some of them)"""
    import common
    env = dict(common.ENV)
    env["CARGO_TARGET_DIR"] = os.path.join(common.BUILD, "cargo-c13cfg")
    for fs in FEATURE_SETS:
        name = ",".join(fs)
        rc, out, err = common.sh(["cargo", "check", "--offline", "-q", "-p", "minijinja", "--no-default-features", "--features", name],
                                 cwd=common.REPO, env=env, timeout=1800)
        r.count("features:" + name, True)
        r.hist["feature_set_builds"][name + (":ok" if rc == 0 else ":FAILS")] += 1
        if rc != 0:
            first = "; ".join(x.strip() for x in re.findall(r"^error.*(?:\n\s+-->.*)?", err, re.M)[:2])
            r.oracle_failure("features=" + name, f"minijinja does not compile with --no-default-features --features {name}: "
                             f"in this configuration no render has a fuel threshold at all ({first[:300]})", "feature-set-does-not-build:" + name)




def run_sharded(r, exe):
    """the harness processes program number i in shard i % NSHARDS; the shards run in parallel and
    their lines are put back into program order (deterministic in VERIF_SEED)"""
    import concurrent.futures
    with concurrent.futures.ThreadPoolExecutor(NSHARDS) as ex:
        res = list(ex.map(lambda k: r.harness(exe, ["gen", r.tier, str(k), str(NSHARDS)]), range(NSHARDS)))
    for k, (rc, out, err) in enumerate(res):
        if rc != 0:
            r.broken.append(f"harness c13 (shard {k}) exited {rc}: {err[-300:]}")
            return None
    shards = [out.splitlines() for _, out, _ in res]
    lines = []
    for i in range(max(len(x) for x in shards)):
        for sh in shards:
            if i < len(sh):
                lines.append(sh[i])
    return "\n".join(lines) + "\n"


def run(r):
    r.rule = ("fixed families (straight-line, branches, loops with 0..n iterations, macros/call blocks/imports/macros called from "
              "Rust, includes, inheritance with super()/self.block()/blocks in loops, failing renders, expressions; a matrix of nested-evaluation "
              "edges {macro, imported macro, caller(), super() over 2 and 3 levels, self.block(), render_block, call_macro, apply, loop recursion} x 13 "
              "positions {emit, filter, set, concat, if, set block, filter block, list, test, ternary, with, argument, in a loop} and of "
              "include / call block / {{ super() }} statements x 8 surroundings {plain, set block, filter block, autoescape, loop, with, if, ...}; Rust "
              "callbacks try_macro/try_block/try_apply that swallow the nested error x 13 positions x 3 continuations) with a work "
              "parameter k inside the nested evaluation; the same matrices with nothing after the nested evaluation; include/import "
              "forms x 7 surroundings x 2 tails; API stream {22 public State methods} x 8 places x 3 positions, retry stream, post-render "
              "and stand-alone-state sequences; structured loop programs over data shapes; big-data programs; plus seeded random "
              "compositions; edge stream {50 nested-evaluation edges + 6 capture constructs} x {28-39 callee shapes} measured with and "
              "without hooks; per program every budget in [0, thr+8] "
              "and 15 extremes up to 2^64-1; an evaluation = one render (or one sequence of State calls) with a budget; a program is "
              "non-trivial when its threshold > 0; 4 feature-set builds")
    r.assumptions = ["Template borrows the Environment, so a template obtained before set_fuel cannot exist (borrow checker); "
                     "Template::new_state()/Environment::empty_state() create stand-alone metered states whose later render_block/"
                     "call_macro calls keep charging that state's tracker (one budget per State, not per call)",
                     "the VM is abstracted to its executed instruction trace; that fuel does not influence which instructions run "
                     "(limited run = prefix of the unlimited run) is validated on every scanned render, not proved",
                     "budgets between thr+8 and 2^31 and between the listed extremes behave like the model (proved for the model for every budget)",
                     "programs that panic or differ between two unlimited renders are outside the property (none generated)"]
    status = r.regen_tables(["C13_FUEL_COSTS", "C13_FUEL_USES", "C13_TRACK_SITE", "C13_FUEL_READERS", "C13_ENTRY_CALLS", "C13_ERR_CONSUMERS",
                    "C13_INSTR_VARIANTS", "C13_FUEL_ARMS", "C13_TRACKER_SITES", "C13_NESTED_FNS", "C13_OUTPUT_SITES"])
    r.lean_prove("MJ.Props.C13", "MJ/Audit/C13.lean", extra_targets=["drive_c13"])
    check_feature_matrix(r)
    exe = r.cargo_build("c13")
    if exe is None:
        return
    out = run_sharded(r, exe)
    if out is None:
        return
    progs = parse(out)
    lines = r.driver("drive_c13", driver_input(progs))
    model = parse_model(lines) if lines is not None else {}
    if lines is not None and sum(1 for k in model if "." not in k) != sum(1 for _, _, res in progs if "runs" in res):
        r.broken.append("model driver output does not line up with the harness cases")
    for i, (case, p, res) in enumerate(progs):
        check_program(r, case, p, res, model, i)
        if i % 45 == 0 and "runs" in res:
            r.sample({"id": p["id"], "templates": p["templates"], "thr": res["thr"], "unlimited": res["unl"],
                      "runs_first": res["runs"][:3], "runs_last": res["runs"][-2:]})
    check_groups(r, progs)
    run_edges(r)
    # the instruction names the hook reports are variants of the Instruction enum as extracted
    variants = {row[0] for row in (status["items"].get("C13_INSTR_VARIANTS") or [])}
    seen = {name for _, _, res in progs for name in res.get("trace", "").split()}
    if variants and not seen <= variants:
        r.broken.append(f"executed instructions that are not variants of the extracted Instruction enum: {sorted(seen - variants)[:5]}")
    r.extra["instruction_variants_executed"] = f"{len(seen & variants)} of {len(variants)}"
    r.extra["instruction_variants_never_executed"] = sorted(variants - seen)
    r.extra["programs"] = len(progs)
    # every distinct failure signature with its count (the VIOLATION lines show the first five only)
    r.extra["oracle_failure_sites"] = dict(collections.Counter(f["site"] for f in r.oracle_failures).most_common(80))
    r.extra["programs_with_threshold"] = sum(1 for _, _, res in progs if res.get("thr") is not None)


def replay(r, path):
    d = json.load(open(path))
    exe = r.cargo_build("c13")
    for case in [d.get("case")] + d.get("more_cases", []):
        if not case:
            continue
        if case.startswith("features="):
            import common
            print("cd", common.REPO, "&& cargo check --offline -p minijinja --no-default-features --features", case[9:])
            rc, out, err = common.sh(["cargo", "check", "--offline", "-q", "-p", "minijinja", "--no-default-features", "--features", case[9:]],
                                     cwd=common.REPO, env=dict(common.ENV, CARGO_TARGET_DIR=os.path.join(common.BUILD, "cargo-c13cfg")))
            print("rc =", rc, err[-600:])
            continue
        try:
            is_edge = json.loads(bytes.fromhex(case)).get("stream") == "edges"
        except ValueError:
            is_edge = False
        if is_edge:
            p = json.loads(bytes.fromhex(case))
            print(f"edge {p['edge']} x callee shape {p['shape']} (run {p['m']} time(s)); templates:", json.dumps(p["templates"]))
            for label, no_hooks in (("hooks", False), ("nohooks", True)):
                exe_e = r.cargo_build("c13_edges", no_hooks=no_hooks)
                rc, out, err = r.harness(exe_e, ["one", case])
                res = json.loads(out.split("\t")[1])
                for which in ("outer", "inner"):
                    x = res.get(which, {})
                    print(f"  [{label}] {'edge  ' if which == 'outer' else 'callee'} render of {p[which]!r}: consumed {x.get('levels', [[0, 0, None]])[0][2]}, threshold {x.get('thr')}, "
                          f"scan failures {x.get('scan_bad')}, trace: {x.get('trace')}")
            print("  (the same edge around the other callee shapes: ./check C13 lists the overhead per shape in the VIOLATION text)")
            continue
        rc, out, err = r.harness(exe, ["one", case])
        progs = parse(out)
        lines = r.driver("drive_c13", driver_input(progs))
        model = parse_model(lines or [])
        case, p, res = progs[0]
        print("program:", json.dumps(p["templates"]), "ctx:", json.dumps(p["ctx"]))
        print("unlimited:", res.get("unl"), "thr:", res.get("thr"), "model thr/total:", model.get("0", (None, None))[:2])
        for run_, m in zip(res.get("runs", []), model.get("0", (0, 0, [], []))[2]):
            print("  engine", run_, " model", m)
    return 0
