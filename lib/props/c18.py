"""C18 — undeclared_variables never omits a variable the template reads (DESIGN.md §3 C18)."""
import json, collections, re

READY = True

META = {
    "technique": "Lean 4 proof (simulation between the scope-tracking analysis of compiler/meta.rs and a reference "
                 "semantics of run-time name resolution: all templates incl. macros and call blocks called anywhere, "
                 "macro VALUES with shared closure objects that escape their scope, host callables, all control flow, "
                 "file sets) + the arms of meta.rs and every closure site of the VM regenerated as tables that the Lean "
                 "model provably interprets + recording-context oracle on 88 000 (quick) / 500 000 (thorough) generated "
                 "templates and file sets + exact correspondence of the model analysis with the real report, "
                 "containment of the recorded look-ups in the model semantics, and replay of the engine's closure "
                 "operations (hook) on the Lean closure heap machine",
    "category": "proof",
    "text": "Kernel-checked, without exception (C18_full is a theorem): for every template (emit, for with filter/else/"
            "recursive/break/continue, if, with, set incl. tuple and ns.attr targets, set/filter blocks, autoescape, "
            "blocks rendered in place and through self.name(), macros with defaults and closures, nested and recursive "
            "macros, call blocks, do, the name expressions of include/import/from-import/extends; every expression "
            "form) and every choice of branches, iteration counts, macro invocations, loop re-entries and block calls "
            "(nested to any depth), failing renders cut after any number of look-ups included, each context key the "
            "reference semantics asks for is in findUndeclared and is the root of a name in findUndeclaredNested "
            "(reads_subset_undeclared, reads_root_of_nested, abort_reads_prefix, nested_reported_are_paths, "
            "analysis_no_panic; macros called anywhere: reads_subset_undeclared_calls, macro_call_site_independent; "
            "Context::load on structured frames: context_asked_iff_no_frame_resolves; file sets: multi_file_sound; "
            "transcription of meta.rs: analysis_arms_as_modelled, walkers_interpret_arms; "
            "closure_and_lookup_order_as_modelled, macro_body_asks_nothing, expression_code_binds_nothing, "
            "builtins_do_not_read_context).  NEW, moved from over-approximated/validated to proved: (1) macro VALUES "
            "— closure_keys_never_lost: on the closure heap machine (State::closures as key sets, Frame::closure / "
            "closure_context, Macro::closure; events push/pop frame, store with mirroring, declaration = Enclose per "
            "closure name + GetClosure + BuildMacro, next_loop_item that clears the locals and DETACHES the closure, "
            "take/reset around an include, macro calls in contexts of their own) after ANY history every macro value "
            "built so far still finds every name its body captured in the closure object it points to, and longer "
            "histories only add keys; clearing_in_place_loses_keys: the engine of the seeded change C18-7 (clear in "
            "place) violates exactly this; escaped_macro_reads_subset_undeclared: while any statement runs the choice "
            "tree may call any macro value that any history produced (parked in a namespace attribute, list, map, host "
            "object, passed as an argument or as caller, exported by an import), in [closure frame = the keys its "
            "closure object has at that moment, base frame], nested to any depth, and every context key asked is "
            "reported in both modes (before: closure = exactly find_macro_closure's names, a static assumption).  "
            "(2) closure_sites_as_modelled: every site of minijinja/src that creates, reads, fills, detaches or "
            "shares a closure object or a closure field (26 rows regenerated from the sources) is a row of the "
            "model's table assigned to a machine event; object operations are creation, insertion, reads only.  "
            "(3) host callables and globals as explicit parameters — reads_subset_undeclared_hosts: with host "
            "callables that ask State::lookup for the names `hosts` (invoked at any statement, any depth, seeing the "
            "frames of that moment, calling template values back) every key asked is reported or one of those names; "
            "reads_subset_undeclared_or_global: if those names are globals, reported or a global (the property's "
            "exception clause).  Tie: the real AST of each generated case is run through the Lean model and must give "
            "exactly the sets undeclared_variables(false) and (true) return; the model's closure analysis must equal "
            "the Enclose/BuildMacro instructions of the compiled template; the keys and attribute paths a recording "
            "context sees during real renders (render, Expression::eval, render_captured + render_block + "
            "call_macro; four undefined modes; named/from_str; custom delimiters and line statements; child "
            "templates; file sets with per-file attribution through the instruction hook; the escape product: a "
            "callable declared in one iteration / with / if / block / macro body / call block, parked by 10 routes, "
            "called now / k iterations later / after the scope / inside other loops and macros / after an include) "
            "must be contained in the real report of the file that asked (oracle; names a host callable asked "
            "State::lookup for are logged and exempt) and in the union of the model semantics' look-ups over all "
            "choice trees; the engine's closure operations of 16 000 renders (hook verif_hooks::closures) are "
            "replayed on the Lean heap machine: closure attachments of all frames after every operation, the closure "
            "id of every macro value and the keys of the closure object at every macro call must agree, and (oracle "
            "closure-lost-key) at every call the closure object must still have every name Enclose put there.",
    "design_ref": "DESIGN.md §3 C18",
    "level_note": "Trusted: Lean kernel; the hand-written reference semantics of name resolution (MJ/Model/Meta.lean "
                  "exec: which frames codegen.rs/vm push where, evaluation order of right-hand sides) — validated by "
                  "containment of the recorded keys in the model's possible look-ups on every generated template and "
                  "file (templates with at most 3000 executions) and tied to the sources by the regenerated tables "
                  "(binding instructions, context readers, load order, macro call frames, macro codegen, closure "
                  "sites); the closure heap machine (MJ/Model/MetaEsc.lean Heap.step) — validated by the replay of the "
                  "engine's closure operations; the table extractor lib/tables/c18.py; the views (field names of "
                  "compiler/ast.rs → model AST) — validated by the exact analysis correspondence.  "
                  "Over-approximations (sound): expression evaluation = look-up of every variable leaf; any macro of "
                  "the template and any macro value of any history can be called at any statement (which value an "
                  "expression yields is not modelled; a history is not tied to what the template did before); a "
                  "file's units can be entered with ANY frames (no block-stack / include resolution in the model).  "
                  "Parameters, not assumptions: the names host callables ask State::lookup for (hosts), the globals.  "
                  "Not in any theorem (oracle only): debug-mode error reports (known finding "
                  "debug-info:referenced-locals).",
}



def parse_model(line):
    d = {}
    for f in line.split("\t"):
        k, _, v = f.partition("=")
        d[k] = v
    return d


ARM_TABLES = ["C18_TRACK_WALK_ARMS", "C18_VISIT_EXPR_ARMS", "C18_TRACK_ASSIGN_ARMS", "C18_TRACKER_HELPERS"]
LIST_TABLES = ["C18_LOAD_ORDER", "C18_MACRO_CALL_FRAMES", "C18_MACRO_CODEGEN"]


def point_at_arms(r, status):
    """name the arm of meta.rs (or the run-time table) that differs from what the Lean model interprets;
    the theorems analysis_arms_as_modelled / closure_and_lookup_order_as_modelled fail in that case"""
    lines = r.driver("drive_c18", "", args=["arms"])
    if lines is None:
        return
    model = collections.defaultdict(dict)
    for ln in lines:
        parts = ln.split("\t")
        if len(parts) != 4:
            continue
        table, variant, cfg, ops = parts
        model[table][variant] = (cfg, [o for o in ops.split("¦") if o != ""] if ops else [])
    n_rows = 0
    for table in ARM_TABLES:
        src = status["items"].get(table)
        if src is None:
            continue
        src = {row[0]: (row[1], list(row[2])) for row in src}
        for variant in sorted(set(src) | set(model[table])):
            n_rows += 1
            if variant not in src:
                r.broken.append(f"{table}: meta.rs has no arm `{variant}` any more (the model has {model[table][variant][1]})")
            elif variant not in model[table]:
                r.broken.append(f"{table}: meta.rs has a new arm `{variant}` {src[variant][1]} that the model does not know")
            elif src[variant] != model[table][variant]:
                r.broken.append(f"{table}: arm `{variant}` of meta.rs is now cfg={src[variant][0]!r} {src[variant][1]} "
                                f"but the Lean model interprets cfg={model[table][variant][0]!r} {model[table][variant][1]}")
    for table in LIST_TABLES:
        src = status["items"].get(table)
        if src is None:
            continue
        n_rows += 1
        want = model[table].get("", ("", []))[1]
        if list(src) != want:
            r.broken.append(f"{table}: the source now gives {list(src)} but the Lean model has {want}")
    r.extra["arm_rows_compared"] = n_rows


def shape_fields(shape):
    parts = shape.split("|")
    d = {"kind": parts[0]}
    for p in parts[1:]:
        if "=" in p:
            k, _, v = p.partition("=")
            d[k] = v
        else:
            d["probes"] = p
    return d


HEAP_REQUIRED = True


def heap_tokens(trace):
    """engine trace (harness `heap_trace`) -> (driver tokens, expectations, macro calls)

    expectations[i] = (kind, attachments or None, extra) for driver token i:
      D: extra = closure id of the value built;  M: extra = keys of the closure object at the call
    calls = [(decl identity, keys, enclosed names of that declaration or None)]"""
    evs = []
    for item in trace.split(" "):
        if not item:
            continue
        tok, _, frames = item.partition("|")
        evs.append((tok.split(":"), frames))
    toks, exp, calls = [], [], []
    next_id, pending_names, enclosed = 0, [], {}
    i, n = 0, len(evs)
    while i < n:
        t, frames = evs[i]
        k = t[0]
        if k in ("P0", "P1", "O", "L"):
            toks.append(k)
            exp.append((k, frames, None))
        elif k == "S":
            toks.append("S:" + t[1])
            exp.append(("S", frames, None))
        elif k == "I":
            toks.append("I")
            exp.append(("I", None, None))
        elif k == "T":
            toks.append("T")
            exp.append(("T", frames, None))
        elif k == "R":
            fresh = t[1] != "-" and int(t[1]) == next_id and i + 1 < n and evs[i + 1][0][0] == "E" \
                and evs[i + 1][0][2] == t[1]
            if not fresh:
                toks.append("R")
                exp.append(("R", frames, None))
        elif k == "E":
            if t[2] != "-" and int(t[2]) == next_id:
                next_id += 1
            pending_names.append(t[1])
        elif k == "B":
            toks.append("D:" + ",".join(pending_names))
            exp.append(("D", frames, t[4]))
            enclosed[(t[2], t[3])] = set(pending_names)
            pending_names = []
        elif k == "M":
            keys = t[5] if len(t) > 5 else ""
            if i + 1 < n and evs[i + 1][0][0] == "P0":
                toks.append("M:%s:%s" % (t[3], t[4]))
                exp.append(("M", evs[i + 1][1], keys))
                calls.append(((t[1], t[2]), set(x for x in keys.split("+") if x), enclosed.get((t[1], t[2]))))
                i += 1
                if t[4] == "1" and i + 1 < n and evs[i + 1][0][:2] == ["S", "caller"]:
                    i += 1
            elif i + 1 < n and evs[i + 1][0][0] == "L":
                i += 1  # the context of the call could not be built (recursion limit)
        i += 1
    return toks, exp, calls


def heap_check(r, cnt, pending):
    """replay the recorded closure operations on the closure heap machine of the Lean model and compare the
    closure attachments of all frames after every operation, the closure id of every macro value and the keys
    of the value's closure object at every macro call; oracle: at a call the closure object still has every
    name `Enclose` put there for that declaration"""
    if not pending:
        return
    lines = [" ".join(toks) for _, _, toks, _, _ in pending]
    model = r.driver("drive_c18", "".join(x + "\n" for x in lines), args=["heap"])
    if model is None or len(model) != len(lines):
        r.broken.append("heap driver output does not line up with the recorded traces")
        return
    for (h, src, toks, exp, calls), mline in zip(pending, model):
        cnt["heap_traces"] += 1
        cnt["heap_events"] += len(toks)
        for decl, keys, names in calls:
            cnt["heap_calls"] += 1
            if names is not None:
                r.hist["closure_heap"]["macro call: closure object has every enclosed name"] += 1
                lost = names - keys
                if lost:
                    r.oracle_failure(h, f"a macro value was called whose closure object has lost {sorted(lost)} (enclosed at "
                                        f"its declaration, keys now {sorted(keys)}) while rendering {src!r}", "closure-lost-key")
        outs = mline.split(" ") if mline else []
        if len(outs) != len(toks):
            r.model_disagreement(h, f"{len(toks)} closure operations recorded for {src!r}", f"heap machine answered {len(outs)}")
            continue
        for i, (tok, (kind, frames, extra), o) in enumerate(zip(toks, exp, outs)):
            msnap, _, mextra = o.partition("/")
            bad = None
            if o.startswith("?"):
                bad = o
            elif frames is not None and msnap != frames:
                bad = f"attachments {msnap}"
            elif kind == "D" and mextra != extra:
                bad = f"closure of the value {mextra}"
            elif kind == "M" and mextra != extra:
                bad = f"keys of the closure object {mextra}"
            if bad:
                r.model_disagreement(h, f"closure operation #{i} `{tok}` of {src!r}: the engine has attachments {frames}"
                                        + (f", value closure {extra}" if kind == "D" else "")
                                        + (f", closure keys {extra}" if kind == "M" else ""),
                                     "closure heap machine: " + bad + " (operations so far: " + " ".join(toks[:i + 1][-12:]) + ")")
                break
        else:
            r.hist["closure_heap"]["trace replayed, every operation agrees"] += 1


def process_chunk(r, cases, cnt, scope_matrix):
    cnt["seen"] += len(cases)
    cnt["heap_pending"] = []
    # model input: one line per single-file template, one line per file of a file set
    model_in = []
    for h, d in cases:
        if d.get("set"):
            for f in d.get("files", []):
                if "ast" in f:
                    model_in.append(f["ast"])
        elif d.get("parse") == "ok" and not d.get("unsupported"):
            model_in.append(d["ast"])
    model = r.driver("drive_c18", "".join(a + "\n" for a in model_in))
    if model is None or len(model) != len(model_in):
        r.broken.append("model driver output does not line up with the harness cases")
        model = None
    mi = 0
    for h, d in cases:
        if d.get("set"):
            # ------------------------------------------------------------------ file sets
            src = bytes.fromhex(h).decode("utf-8", "replace").replace("\x1f", " := ").replace("\x1e", " ;; ")
            if d.get("parse") != "ok":
                r.count(None, False)
                r.hist["set"]["not loaded: " + d.get("error", "?")[:40]] += 1
                continue
            glob = set(d["globals"])
            anyread = False
            for part in d.get("cfg", "?").split("/")[:1]:
                r.hist["set_config"][part] += 1
            for o in d["outcome"]:
                r.hist["set_render"][o if o == "ok" else o.split(">")[0]] += 1
            for k in d.get("unattributed", []):
                r.oracle_failure(h, f"a look-up of `{k}` could not be attributed to a file of the set {src!r}", "unattributed-read")
            for f in d["files"]:
                m = None
                if "ast" in f:
                    m = parse_model(model[mi]) if model is not None else None
                    mi += 1
                if "und" not in f:
                    r.oracle_failure(h, f"analysis of {f['name']} panicked: {f.get('analysis')}", "analysis-panic")
                    continue
                und, nested = set(f["und"]), set(f["nested"])
                allreads = set().union(*[set(x) for x in f["reads"]]) if f["reads"] else set()
                anyread = anyread or bool(allreads)
                cnt["set_files"] += 1
                r.hist["set_reads_by_file"][f["name"] + (": asked" if allreads else ": nothing asked")] += 1
                for ci, keys in enumerate(f["reads"]):
                    for k in keys:
                        if k.startswith("<"):
                            r.oracle_failure(h, f"context was {k} while rendering {src!r}", "context-introspection")
                        elif k in glob:
                            r.hist["oracle"]["global"] += 1
                        elif k not in und:
                            r.oracle_failure(h, f"render (context {ci}) of the file set {src!r}: the code of `{f['name']}` asked "
                                                f"the context for `{k}` but undeclared_variables(false) of that file = {sorted(und)}",
                                             "unreported-read-multifile")
                        else:
                            r.hist["oracle"]["reported (file set)"] += 1
                            if not any(n == k or n.startswith(k + ".") for n in nested):
                                r.oracle_failure(h, f"file set {src!r}: `{f['name']}` asked for `{k}` but no name of its "
                                                    f"undeclared_variables(true) = {sorted(nested)} starts with it",
                                                 "unreported-read-nested-multifile")
                if m is not None:
                    if "error" in m:
                        r.model_disagreement(h, "real parser accepted " + repr(f["src"]), "driver: " + m["error"])
                        continue
                    cnt["tie"] += 1
                    if set(m["und"].split()) != und:
                        r.model_disagreement(h, f"{f['name']}: undeclared_variables(false)=" + " ".join(sorted(und)),
                                             "findUndeclared=" + m["und"])
                    if set(m["nested"].split()) != nested:
                        r.model_disagreement(h, f"{f['name']}: undeclared_variables(true)=" + " ".join(sorted(nested)),
                                             "findUndeclaredNested=" + m["nested"])
                    if "may" in m and not m["may"].startswith("SKIP"):
                        cnt["sem"] += 1
                        r.hist["semantics_tie"]["checked (file of a set)"] += 1
                        extra = allreads - set(m["may"].split()) - glob - {k for k in allreads if k.startswith("<")}
                        if extra:
                            r.model_disagreement(h, f"file set {src!r}: the code of `{f['name']}` asked the context for "
                                                 + " ".join(sorted(extra)),
                                                 "no activation of that file's units in the model looks these up (may="
                                                 + m["may"] + ")")
                    elif "may" in m:
                        cnt["skip"] += 1
            cnt["sets"] += 1
            r.count(h, anyread)
            if cnt["sets"] % 331 == 7 and len(r.samples) < 12:
                r.sample({"file_set": src, "per_file": {f["name"]: {"undeclared": f.get("und"), "asked_by_its_code": f["reads"]}
                                                        for f in d["files"]}, "outcome": d["outcome"]})
            continue
        # ---------------------------------------------------------------------- single-file templates
        src = bytes.fromhex(h).decode("utf-8", "replace")
        if d.get("parse") != "ok":
            r.count(None, False)
            r.hist["parse"][d.get("parse", "?")] += 1
            if d.get("parse") == "panic":
                r.oracle_failure(h, "parser panicked: " + d.get("error", ""), "parser-panic")
            continue
        r.hist["parse"]["ok"] += 1
        shape = d.get("shape") or ""
        special = shape.startswith("special|")
        escape = shape.startswith("esc|")
        if escape:
            # escape product (c18_esc.inc): a callable that outlives the scope that declared it
            sp = shape.split("|")
            r.hist["subject"]["escape template"] += 1
            for dim, val in zip(("esc_scope", "esc_kind", "esc_reads", "esc_route", "esc_time"), sp[1:6]):
                r.hist[dim][val] += 1
            if d.get("compile") == "ok" and d.get("analysis") == "ok":
                cnt["esc"] += 1
                ran = d.get("marks", 0)
                cnt["esc_ran"] += 1 if ran else 0
                r.hist["esc_callable_ran"]["in all 4 renders" if ran >= 4 else
                                           ("in some renders" if ran else "in no render (not reachable by that route)")] += 1
            else:
                r.broken.append(f"escape template does not compile: {src!r}")
            shape = ""
            special = True
        elif special:
            sp = shape.split("|")
            r.hist["subject"]["special-name " + ("expression" if src.startswith("#expr# ") else "template")] += 1
            r.hist["special_name"][sp[1]] += 1
            r.hist["special_wrapper"][sp[3] if len(sp) > 3 else "?"] += 1
            shape = ""
        else:
            r.hist["subject"]["expression" if src.startswith("#expr# ") else
                              ("systematic template" if shape else "template")] += 1
        if d.get("unsupported"):
            r.count(None, False)
            continue
        m = parse_model(model[mi]) if model is not None else None
        mi += 1
        if d.get("compile") != "ok" or d.get("analysis") != "ok":
            r.count(None, False)
            r.hist["compile"][d.get("compile", "?") + "/" + d.get("analysis", "-")] += 1
            if "panic" in (d.get("compile", "") + d.get("analysis", "")):
                r.oracle_failure(h, f"compile/analysis panicked on {src!r}", "analysis-panic")
            continue
        und, nested, glob = set(d["und"]), set(d["nested"]), set(d["globals"]) | set(d.get("foreign", []))
        # explicit parameter of the property: what host callables ask State::lookup for (logged by `peek`)
        host = set(d.get("host", []))
        if host:
            r.hist["host_callable"]["templates in which a host callable asked State::lookup"] += 1
        for part in d.get("cfg", "?").split("/"):
            r.hist["config"][part] += 1
        allreads = set().union(*[set(x) for x in d["reads"]]) if d["reads"] else set()
        r.count(h, bool(allreads))
        if not shape and not special:
            for k, v in d["kinds"].items():
                r.hist["node"][k] += v
        for o in d["outcome"]:
            r.hist["render"][o.split(":")[0] + (":" + o.split(":")[1] if o.startswith("err:") else "")] += 1
        r.hist["reads_per_template"][min(len(allreads), 8)] += 1
        # ---- distribution: how sharp is the report, how branch-dependent are the look-ups
        own = {k for k in allreads if k not in glob and not k.startswith("<")}
        slack = len(und - allreads)
        r.hist["report_vs_asked"]["every reported name was asked in some render" if slack == 0 else
                                  f"{min(slack, 4)}{'+' if slack >= 4 else ''} reported name(s) never asked"] += 1
        plain = [set(x) for x in d["reads"][:4]]
        if len(plain) == 4:
            some = set().union(*plain)
            every = set.intersection(*plain)
            dep = (some - every) & und
            if dep:
                r.hist["branch_dependence"]["some reported name is asked only in some of the 4 contexts"] += 1
                if dep & (plain[3] - plain[0]):
                    r.hist["branch_dependence"]["… asked with all-empty/falsy values but not with all-truthy ones (else side)"] += 1
                if dep & (plain[0] - plain[3]):
                    r.hist["branch_dependence"]["… asked with all-truthy values but not with all-empty ones (taken side)"] += 1
            else:
                r.hist["branch_dependence"]["every asked name is asked in all 4 contexts"] += 1
            if shape:
                sf = shape_fields(shape)
                if "x" not in und:
                    st = "x not reported, never asked (bound at every read)"
                elif "x" in every:
                    st = "x reported, asked in all 4 contexts"
                elif "x" in some:
                    st = "x reported, asked only in some contexts (branch/iteration dependent)"
                else:
                    st = "x reported, asked in no context (only a not-taken path reads it unbound, or over-approximation)"
                r.hist["scope_status"][st] += 1
                col = 0 if "not reported" in st else (1 if "all 4" in st else (2 if "only in some" in st else 3))
                for dim, key in (("construct", sf["kind"]), ("wrapper", sf.get("wrap", "?")),
                                 ("observer", sf.get("obs", "?")),
                                 ("probes", sf.get("probes", "?") + " pre=" + sf.get("pre", "?") + " post=" + sf.get("post", "?")
                                  + " out=" + sf.get("out", "?"))):
                    scope_matrix[dim].setdefault(key, [0, 0, 0, 0])[col] += 1
                r.hist["scope_construct"][sf["kind"]] += 1
                r.hist["scope_wrapper"][sf.get("wrap", "?")] += 1
        if len(r.samples) < 10 and len(src) < 120 and allreads and (mi % 37 == 1 or mi <= 3):
            r.sample({"template": src, "undeclared": sorted(und), "recorded": [sorted(x) for x in d["reads"]],
                      "outcome": d["outcome"]})
        # ---- correspondence A: model analysis == real analysis (as sets)
        if m is not None:
            if "error" in m:
                r.model_disagreement(h, "real parser accepted " + repr(src), "driver: " + m["error"])
            else:
                cnt["tie"] += 1
                mund = set(m["und"].split())
                mnested = set(m["nested"].split())
                if mund != und:
                    r.model_disagreement(h, "undeclared_variables(false)=" + " ".join(sorted(und)),
                                         "findUndeclared=" + " ".join(sorted(mund)))
                if mnested != nested:
                    r.model_disagreement(h, "undeclared_variables(true)=" + " ".join(sorted(nested)),
                                         "findUndeclaredNested=" + " ".join(sorted(mnested)))
                # ---- correspondence C: closure analysis of the model == what the code generator emitted
                if "macros" in d:
                    cnt["closure"] += 1
                    mm = sorted(x for x in m.get("macros", "").split(";") if x)
                    mm = [":".join(x.split(":")[:2] + [",".join(sorted(x.split(":")[2].split(","))) if x.split(":")[2] else ""]) for x in mm]
                    if sorted(mm) != sorted(d["macros"]):
                        r.model_disagreement(h, "BuildMacro/Enclose of the compiled template: " + " ; ".join(d["macros"]),
                                             "callerRef/closureNames of the model: " + " ; ".join(sorted(mm)))
                    r.hist["closure_tie"]["macros"] += len(d["macros"])
        # ---- oracle: recorded keys ⊆ report ∪ globals  (and nested: prefix roots)
        for ci, keys in enumerate(d["reads"]):
            for k in keys:
                if k.startswith("<"):
                    r.oracle_failure(h, f"context was {k} while rendering {src!r}", "context-introspection")
                    continue
                if k in glob:
                    r.hist["oracle"]["global"] += 1
                    continue
                if k in host and k not in und:
                    r.hist["oracle"]["asked by a host callable (explicit parameter)"] += 1
                    continue
                if k not in und:
                    site = "unreported-read"
                    r.oracle_failure(h, f"render (context {ci}) asked the context for `{k}` but "
                                        f"undeclared_variables(false) = {sorted(und)} for {src!r}", site)
                else:
                    r.hist["oracle"]["reported"] += 1
                if not any(n == k or n.startswith(k + ".") for n in nested):
                    site = "unreported-read-nested"
                    r.oracle_failure(h, f"render (context {ci}) asked the context for `{k}` but no name of "
                                        f"undeclared_variables(true) = {sorted(nested)} starts with it, for {src!r}", site)
        # ---- closure heap: the engine's closure operations replayed on the Lean machine
        for tr in d.get("heap", []):
            if tr:
                toks, exp, calls = heap_tokens(tr)
                if toks:
                    cnt["heap_pending"].append((h, src, toks, exp, calls))
        # ---- oracle, debug mode (separate stream): error reports look the mentioned names up
        if "debug_reads" in d:
            toks = d["ast"].split()
            mentioned = ({toks[i + 1] for i, t in enumerate(toks[:-1]) if t in ("var", "macro")} | {"loop"}
                         | set(d.get("foreign_mentioned", [])))
            failed = d.get("debug_outcome", "").startswith("err")
            r.hist["debug_stream"]["failed render" if failed else "completed render"] += 1
            for k in d["debug_reads"]:
                if k.startswith("<") or k in glob or k in und:
                    continue
                site = "debug-info:referenced-locals" if failed and k in mentioned else "unreported-read-debug"
                r.oracle_failure(h, f"render in debug mode asked the context for `{k}` but undeclared_variables(false) = "
                                    f"{sorted(und)} for {src!r} ({d.get('debug_outcome')})", site)
        # ---- oracle, attribute level: every attribute path the render followed from a context key is
        #      compatible with a reported dotted name (one is a prefix of the other)
        for ci, ps in enumerate(d.get("paths", [])):
            for pth in ps:
                comps = pth.split(".")
                if comps[0] in glob:
                    continue
                ok = False
                for n in nested:
                    nc = n.split(".")
                    k = min(len(nc), len(comps))
                    if nc[:k] == comps[:k]:
                        ok = True
                        break
                r.hist["oracle"]["attribute-path"] += 1
                if not ok:
                    r.oracle_failure(h, f"render (context {ci}) followed `{pth}` but no name of undeclared_variables(true) = "
                                        f"{sorted(nested)} lies on that path, for {src!r}", "unreported-attribute-path")
        # ---- correspondence B: recorded keys ⊆ look-ups the model semantics can perform
        if m is not None and "may" in m:
            if m["may"].startswith("SKIP"):
                cnt["skip"] += 1
                r.hist["semantics_tie"][m["may"]] += 1
            else:
                cnt["sem"] += 1
                r.hist["semantics_tie"]["checked"] += 1
                may = set(m["may"].split())
                extra = allreads - may - set(d.get("foreign", [])) - host - {k for k in allreads if k.startswith("<")}
                if extra:
                    r.model_disagreement(h, "render asked the context for " + " ".join(sorted(extra)) + " in " + repr(src),
                                         "no execution of the model semantics looks these up (may=" + " ".join(sorted(may)) + ")")
                # the theorem, re-checked on the concrete instance
                if not may <= set(m["und"].split()):
                    r.broken.append(f"model look-ups {sorted(may)} not within findUndeclared for {src!r} "
                                    "(contradicts the proved theorem: driver/model mismatch)")

    heap_check(r, cnt, cnt.pop("heap_pending"))


def run(r):
    r.rule = ("(a) hand-written corpus; (b) seeded random templates over the whole single-file statement/expression "
              "grammar with a 12-name pool shared by targets and reads (plus loop/self/caller); (c) the systematic "
              "scope product of harness/src/bin/c18_sys.inc: binding construct for `x` (45 kinds) × probe reads of `x` "
              "in its header / body / else branch × read or re-binding before × read after × observer (macro declared "
              "before/after and called after, block rendered through self before / declared before) × wrapper (16: "
              "if/elif/else, for body/else, with, macro, call block, block, set/filter block, autoescape) × read "
              "outside before/after — quick: all 48 696 templates with at most one read of `x` outside the construct "
              "(the report is a flat set: a second unbound read would hide a wrong scope) + a hash-selected 12 000 of "
              "the other 311 880, thorough: all 360 576; (c') 9 special names (loop self caller super varargs kwargs "
              "namespace range x) × 33 expression forms × (Expression API + 5 statement positions × 10 surroundings); "
              "(c'') the escape product of harness/src/bin/c18_esc.inc: 22 declaring scopes × 4 kinds of "
              "callable × 6 read profiles × 10 escape routes × 6 call times (26 220; quick: the macro/ns-attribute "
              "slice + 5 000 hash-selected); (d) 2 100 file sets "
              "(main × included × imported × parent template).  Each template is rendered with 4 recording contexts "
              "(all truthy+non-empty / mixed kinds / sparse+falsy / all empty+falsy) plus render_captured + "
              "render_block + call_macro; a case = one template or one file set, non-trivial when it parsed, is "
              "distinct, and at least one render asked the context for a key")
    r.assumptions = [
        "expression-level control flow only skips look-ups (the model looks every variable leaf up); that expression "
        "code cannot bind names is tied to codegen.rs/vm/mod.rs by the regenerated instruction tables",
        "requests (loop re-entries, self.name(), macro calls) are served with the frames of the start of their statement",
        "the closure heap machine has the engine's operations on closure objects and closure fields (every site "
        "regenerated: C18_CLOSURE_SITES; Enclose per name, Context::enclose pins undefined too: C18_MACRO_CODEGEN; "
        "validated by the replay of the engine's closure operations on the machine); that a closure object then "
        "has at least the entries find_macro_closure computes is a theorem (closure_keys_never_lost)",
    ]
    status = r.regen_tables(["C18_EXPR_FUNCTIONS", "C18_EXPR_CALLEES", "C18_EXPR_INSTRUCTIONS", "C18_BINDING_INSTRUCTIONS",
                             "C18_CONTEXT_READERS", "C18_BUILTIN_FILES", "C18_CLOSURE_SITES"] + ARM_TABLES + LIST_TABLES)
    proved = r.lean_prove("MJ.Props.C18", "MJ/Audit/C18.lean", extra_targets=["drive_c18"])
    point_at_arms(r, status)
    exe = r.cargo_build("c18")
    if exe is None:
        return
    rc, out, err = r.harness(exe, ["count", r.tier])
    mt = re.search(r"sequence=(\d+) systematic-product=(\d+) sparse=(\d+) escape-product=(\d+)", out or "")
    if rc != 0 or not mt:
        r.broken.append(f"harness c18 count exited {rc}: {err[-300:]}")
        return
    total = int(mt.group(1))
    r.extra["sequence_length"] = total
    r.extra["systematic_product"] = int(mt.group(2))
    r.extra["systematic_sparse"] = int(mt.group(3))
    r.extra["escape_product"] = int(mt.group(4))
    st = {"tie": 0, "sem": 0, "skip": 0, "closure": 0, "sets": 0, "set_files": 0, "seen": 0, "esc": 0, "esc_ran": 0,
          "heap_traces": 0, "heap_events": 0, "heap_calls": 0}
    # systematic stream: per construct / wrapper / observer / probe pattern, how often `x` is
    # [not reported & never asked, reported & asked in all 4 contexts, asked in some only, asked in none]
    scope_matrix = {"construct": {}, "wrapper": {}, "observer": {}, "probes": {}}
    CHUNK = 60000
    for start in range(0, total, CHUNK):
        rc, out, err = r.harness(exe, ["gen", r.tier, str(start), str(CHUNK)])
        if rc != 0:
            r.broken.append(f"harness c18 exited {rc}: {err[-300:]}")
            return
        cases = []
        for line in out.splitlines():
            h, _, j = line.partition("\t")
            cases.append((h, json.loads(j)))
        del out
        process_chunk(r, cases, st, scope_matrix)
        del cases
    if st["seen"] != total:
        r.broken.append(f"harness delivered {st['seen']} of {total} cases")
    tie_checked, sem_checked, sem_skipped, closure_checked = st["tie"], st["sem"], st["skip"], st["closure"]
    sets_checked, set_files_checked = st["sets"], st["set_files"]
    r.extra["analysis_tie_checked"] = tie_checked
    r.extra["closure_tie_checked"] = closure_checked
    r.extra["semantics_tie_checked"] = sem_checked
    r.extra["semantics_tie_skipped"] = sem_skipped
    r.extra["file_sets_checked"] = sets_checked
    r.extra["scope_matrix_columns"] = ["x not reported and never asked", "x reported, asked in all 4 contexts",
                                       "x reported, asked in some contexts only", "x reported, asked in no context"]
    r.extra["scope_matrix"] = {dim: dict(sorted(tab.items())) for dim, tab in scope_matrix.items()}
    r.extra["files_of_sets_checked"] = set_files_checked
    if tie_checked == 0:
        r.broken.append("no template reached the analysis correspondence")
    if sem_checked * 100 < tie_checked * 95:
        r.broken.append(f"semantics tie evaluated on only {sem_checked} of {tie_checked} templates")
    tot = sum(r.hist["scope_status"].values()) or 1
    r.log("scope distribution over %d systematic templates: " % tot
          + "; ".join(f"{k}: {v} ({100.0 * v / tot:.1f}%)" for k, v in r.hist["scope_status"].most_common()))
    r.log("branch dependence: " + "; ".join(f"{k}: {v}" for k, v in r.hist["branch_dependence"].most_common()))
    if r.tier == "quick" and r.hist["subject"]["systematic template"] < 40000:
        r.broken.append(f"only {r.hist['subject']['systematic template']} systematic templates were generated (wanted >= 40000)")
    r.extra["closure_heap_traces_replayed"] = st["heap_traces"]
    r.extra["closure_heap_operations_compared"] = st["heap_events"]
    r.extra["closure_heap_macro_calls_checked"] = st["heap_calls"]
    if HEAP_REQUIRED and st["heap_traces"] < 5000:
        r.broken.append(f"only {st['heap_traces']} closure-operation traces were replayed on the heap machine (wanted >= 5000)")
    r.extra["escape_templates_checked"] = st["esc"]
    r.extra["escape_templates_callable_ran"] = st["esc_ran"]
    if st["esc"] < 5000:
        r.broken.append(f"only {st['esc']} templates of the escape product were rendered (wanted >= 5000)")
    elif st["esc_ran"] * 100 < st["esc"] * 85:
        r.broken.append(f"the escaped callable ran in only {st['esc_ran']} of {st['esc']} escape templates "
                        "(the generator no longer reaches the calls)")
    if sets_checked < 1000:
        r.broken.append(f"only {sets_checked} file sets were rendered")


def replay(r, path):
    d = json.load(open(path))
    exe = r.cargo_build("c18")
    for case in [d.get("case")] + d.get("more_cases", []):
        if not case:
            continue
        rc, out, err = r.harness(exe, ["one", case])
        h, _, j = out.strip().partition("\t")
        res = json.loads(j)
        print("template:", bytes.fromhex(h).decode("utf-8", "replace"))
        for k in ("und", "nested", "reads", "outcome"):
            print(f"  {k}:", res.get(k))
        if res.get("parse") == "ok":
            model = r.driver("drive_c18", res["ast"] + "\n")
            print("  model:", model[0] if model else None)
    return 0
