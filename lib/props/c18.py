"""C18 — undeclared_variables never omits a variable the template reads (DESIGN.md §3 C18)."""
import json, collections

READY = True

META = {
    "technique": "Lean 4 proof (simulation between the scope-tracking analysis of compiler/meta.rs and a reference "
                 "semantics of run-time name resolution, all templates of the single-file fragment incl. macros, all "
                 "control flow) + recording-context oracle on generated templates + exact correspondence of the model "
                 "analysis with the real report and of the model semantics with the recorded look-ups",
    "category": "proof",
    "text": "Kernel-checked, without exception (C18_full is a theorem): for every template (emit, for with filter/else/"
            "recursive/break/continue, if, with, set incl. tuple and ns.attr targets, set/filter blocks, autoescape, "
            "blocks rendered in place and through self.name(), macros with defaults and closures, nested and recursive "
            "macros, call blocks, do, the name expressions of include/import/from-import/extends; every expression "
            "form) and every choice of branches, iteration counts, macro invocations, loop re-entries and block calls "
            "(nested to any depth), failing renders cut after any number of look-ups included, each context key the "
            "reference semantics asks for is in findUndeclared and is the root of a name in findUndeclaredNested; every "
            "dotted name of the nested report is an attribute path of the template; macro bodies ask the context for "
            "nothing (closure visibility); an aborted execution's look-ups are a prefix; expression code emits no binding "
            "instruction (regenerated tables).  Tie: the real AST of each generated case is run through the Lean model "
            "and must give exactly the sets undeclared_variables(false) and (true) return; the model's closure analysis "
            "must equal the Enclose/BuildMacro instructions of the compiled template; the keys and attribute paths a "
            "recording context sees during real renders (render, Expression::eval, render_captured + render_block + "
            "call_macro; four undefined modes; named/from_str; custom syntax; child templates) must be contained in the "
            "real report (oracle) and in the union of the model semantics' look-ups over all choice trees.",
    "design_ref": "DESIGN.md §3 C18",
    "level_note": "Trusted: Lean kernel; hand transcription of meta.rs (track_walk & co.) and of the scoping behaviour of "
                  "codegen.rs/context.rs into MJ/Model/Meta.lean — the analysis part is validated exactly on every "
                  "generated template, the semantics part by containment of the recorded keys in the model's possible "
                  "look-ups (templates with at most 3000 executions).  Expression evaluation is over-approximated by "
                  "the look-up of every variable leaf; aborted renders are prefixes.  Not in the theorem (oracle only): "
                  "recursive loops re-entered through loop(..), break/continue, blocks/include/import/extends, the "
                  "nested=true mode, debug-mode error reports, globals.",
}



def parse_model(line):
    d = {}
    for f in line.split("\t"):
        k, _, v = f.partition("=")
        d[k] = v
    return d


def run(r):
    r.rule = ("seeded random templates over the whole single-file statement/expression grammar with a 12-name pool "
              "shared by targets and reads (plus loop/self/caller), each rendered under Lenient with 3 recording "
              "contexts (all truthy / mixed kinds / sparse+falsy); a case = one template, non-trivial when it parsed, "
              "is distinct, and at least one render asked the context for a key")
    r.assumptions = [
        "the look-ups of OTHER templates (included, imported, extended) belong to those templates' own reports",
        "expression-level control flow only skips look-ups (the model looks every variable leaf up); that expression "
        "code cannot bind names is tied to codegen.rs/vm/mod.rs by the regenerated instruction tables",
        "requests (loop re-entries, self.name()) are served with the frames of the start of their statement",
    ]
    r.regen_tables(["C18_EXPR_FUNCTIONS", "C18_EXPR_CALLEES", "C18_EXPR_INSTRUCTIONS", "C18_BINDING_INSTRUCTIONS",
                    "C18_CONTEXT_READERS", "C18_BUILTIN_FILES"])
    r.lean_prove("MJ.Props.C18", "MJ/Audit/C18.lean", extra_targets=["drive_c18"])
    exe = r.cargo_build("c18")
    if exe is None:
        return
    rc, out, err = r.harness(exe, ["gen", r.tier])
    if rc != 0:
        r.broken.append(f"harness c18 exited {rc}: {err[-300:]}")
        return
    cases = []
    for line in out.splitlines():
        h, _, j = line.partition("\t")
        cases.append((h, json.loads(j)))
    usable = [(h, d) for h, d in cases if d.get("parse") == "ok" and not d.get("unsupported")]
    model = r.driver("drive_c18", "".join(d["ast"] + "\n" for _, d in usable))
    if model is None or len(model) != len(usable):
        r.broken.append("model driver output does not line up with the harness cases")
        model = None
    mi = 0
    tie_checked = sem_checked = sem_skipped = closure_checked = 0
    for h, d in cases:
        src = bytes.fromhex(h).decode("utf-8", "replace")
        if d.get("parse") != "ok":
            r.count(None, False)
            r.hist["parse"][d.get("parse", "?")] += 1
            if d.get("parse") == "panic":
                r.oracle_failure(h, "parser panicked: " + d.get("error", ""), "parser-panic")
            continue
        r.hist["parse"]["ok"] += 1
        r.hist["subject"]["expression" if src.startswith("#expr# ") else "template"] += 1
        if d.get("unsupported"):
            r.count(None, False)
            continue
        m = parse_model(model[mi]) if model is not None else None
        mi += 1
        if d.get("compile") != "ok" or d.get("analysis") != "ok":
            r.count(None, False)
            r.hist["compile"][d.get("compile", "?") + "/" + d.get("analysis", "-")] += 1
            if "panic" in (d.get("compile", "") + d.get("analysis", "")):
                r.oracle_failure(h, f"compile/analysis panicked on {src!r}", "analysis-panic")
            continue
        und, nested, glob = set(d["und"]), set(d["nested"]), set(d["globals"]) | set(d.get("foreign", []))
        for part in d.get("cfg", "?").split("/"):
            r.hist["config"][part] += 1
        allreads = set().union(*[set(x) for x in d["reads"]]) if d["reads"] else set()
        r.count(h, bool(allreads))
        for k, v in d["kinds"].items():
            r.hist["node"][k] += v
        for o in d["outcome"]:
            r.hist["render"][o.split(":")[0] + (":" + o.split(":")[1] if o.startswith("err:") else "")] += 1
        r.hist["reads_per_template"][min(len(allreads), 8)] += 1
        if len(r.samples) < 10 and len(src) < 120 and allreads and (mi % 37 == 1 or mi <= 3):
            r.sample({"template": src, "undeclared": sorted(und), "recorded": [sorted(x) for x in d["reads"]],
                      "outcome": d["outcome"]})
        # ---- correspondence A: model analysis == real analysis (as sets)
        if m is not None:
            if "error" in m:
                r.model_disagreement(h, "real parser accepted " + repr(src), "driver: " + m["error"])
            else:
                tie_checked += 1
                mund = set(m["und"].split())
                mnested = set(m["nested"].split())
                if mund != und:
                    r.model_disagreement(h, "undeclared_variables(false)=" + " ".join(sorted(und)),
                                         "findUndeclared=" + " ".join(sorted(mund)))
                if mnested != nested:
                    r.model_disagreement(h, "undeclared_variables(true)=" + " ".join(sorted(nested)),
                                         "findUndeclaredNested=" + " ".join(sorted(mnested)))
                # ---- correspondence C: closure analysis of the model == what the code generator emitted
                if "macros" in d:
                    closure_checked += 1
                    mm = sorted(x for x in m.get("macros", "").split(";") if x)
                    mm = [":".join(x.split(":")[:2] + [",".join(sorted(x.split(":")[2].split(","))) if x.split(":")[2] else ""]) for x in mm]
                    if sorted(mm) != sorted(d["macros"]):
                        r.model_disagreement(h, "BuildMacro/Enclose of the compiled template: " + " ; ".join(d["macros"]),
                                             "callerRef/closureNames of the model: " + " ; ".join(sorted(mm)))
                    r.hist["closure_tie"]["macros"] += len(d["macros"])
        # ---- oracle: recorded keys ⊆ report ∪ globals  (and nested: prefix roots)
        for ci, keys in enumerate(d["reads"]):
            for k in keys:
                if k.startswith("<"):
                    r.oracle_failure(h, f"context was {k} while rendering {src!r}", "context-introspection")
                    continue
                if k in glob:
                    r.hist["oracle"]["global"] += 1
                    continue
                if k not in und:
                    site = "unreported-read"
                    r.oracle_failure(h, f"render (context {ci}) asked the context for `{k}` but "
                                        f"undeclared_variables(false) = {sorted(und)} for {src!r}", site)
                else:
                    r.hist["oracle"]["reported"] += 1
                if not any(n == k or n.startswith(k + ".") for n in nested):
                    site = "unreported-read-nested"
                    r.oracle_failure(h, f"render (context {ci}) asked the context for `{k}` but no name of "
                                        f"undeclared_variables(true) = {sorted(nested)} starts with it, for {src!r}", site)
        # ---- oracle, debug mode (separate stream): error reports look the mentioned names up
        if "debug_reads" in d:
            toks = d["ast"].split()
            mentioned = ({toks[i + 1] for i, t in enumerate(toks[:-1]) if t in ("var", "macro")} | {"loop"}
                         | set(d.get("foreign_mentioned", [])))
            failed = d.get("debug_outcome", "").startswith("err")
            r.hist["debug_stream"]["failed render" if failed else "completed render"] += 1
            for k in d["debug_reads"]:
                if k.startswith("<") or k in glob or k in und:
                    continue
                site = "debug-info:referenced-locals" if failed and k in mentioned else "unreported-read-debug"
                r.oracle_failure(h, f"render in debug mode asked the context for `{k}` but undeclared_variables(false) = "
                                    f"{sorted(und)} for {src!r} ({d.get('debug_outcome')})", site)
        # ---- oracle, attribute level: every attribute path the render followed from a context key is
        #      compatible with a reported dotted name (one is a prefix of the other)
        for ci, ps in enumerate(d.get("paths", [])):
            for pth in ps:
                comps = pth.split(".")
                if comps[0] in glob:
                    continue
                ok = False
                for n in nested:
                    nc = n.split(".")
                    k = min(len(nc), len(comps))
                    if nc[:k] == comps[:k]:
                        ok = True
                        break
                r.hist["oracle"]["attribute-path"] += 1
                if not ok:
                    r.oracle_failure(h, f"render (context {ci}) followed `{pth}` but no name of undeclared_variables(true) = "
                                        f"{sorted(nested)} lies on that path, for {src!r}", "unreported-attribute-path")
        # ---- correspondence B: recorded keys ⊆ look-ups the model semantics can perform
        if m is not None and "may" in m:
            if m["may"].startswith("SKIP"):
                sem_skipped += 1
                r.hist["semantics_tie"][m["may"]] += 1
            else:
                sem_checked += 1
                r.hist["semantics_tie"]["checked"] += 1
                may = set(m["may"].split())
                extra = allreads - may - set(d.get("foreign", [])) - {k for k in allreads if k.startswith("<")}
                if extra:
                    r.model_disagreement(h, "render asked the context for " + " ".join(sorted(extra)) + " in " + repr(src),
                                         "no execution of the model semantics looks these up (may=" + " ".join(sorted(may)) + ")")
                # the theorem, re-checked on the concrete instance
                if not may <= set(m["und"].split()):
                    r.broken.append(f"model look-ups {sorted(may)} not within findUndeclared for {src!r} "
                                    "(contradicts the proved theorem: driver/model mismatch)")
    r.extra["analysis_tie_checked"] = tie_checked
    r.extra["closure_tie_checked"] = closure_checked
    r.extra["semantics_tie_checked"] = sem_checked
    r.extra["semantics_tie_skipped"] = sem_skipped
    if tie_checked == 0:
        r.broken.append("no template reached the analysis correspondence")
    if sem_checked * 100 < tie_checked * 95:
        r.broken.append(f"semantics tie evaluated on only {sem_checked} of {tie_checked} templates")


def replay(r, path):
    d = json.load(open(path))
    exe = r.cargo_build("c18")
    for case in [d.get("case")] + d.get("more_cases", []):
        if not case:
            continue
        rc, out, err = r.harness(exe, ["one", case])
        h, _, j = out.strip().partition("\t")
        res = json.loads(j)
        print("template:", bytes.fromhex(h).decode("utf-8", "replace"))
        for k in ("und", "nested", "reads", "outcome"):
            print(f"  {k}:", res.get(k))
        if res.get("parse") == "ok":
            model = r.driver("drive_c18", res["ast"] + "\n")
            print("  model:", model[0] if model else None)
    return 0
